from django.apps import AppConfig


class VtDjConfig(AppConfig):
    name = "vt_dj"
    default_auto_field = "django.db.models.AutoField"
