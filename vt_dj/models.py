"""Django models used by the verification harness (scalar all-valuations
tables are created dynamically, see vt/dbs/django_h.py)."""
from django.db import models


class City(models.Model):
    name = models.CharField(max_length=50)


class Person(models.Model):
    name = models.CharField(max_length=50)
    age = models.IntegerField(null=True)
    city = models.ForeignKey(City, on_delete=models.CASCADE, related_name="people")   # NOT NULL


class Blog(models.Model):
    title = models.CharField(max_length=50)
    owner = models.ForeignKey(Person, null=True, on_delete=models.CASCADE, related_name="blogs")


class Tag(models.Model):
    label = models.CharField(max_length=50)
    weight = models.IntegerField()


class HighScoreManager(models.Manager):
    """a narrowing, non-default manager (C15: the shorthand must keep the conditions of the manager it is given)"""

    def get_queryset(self):
        return super().get_queryset().filter(score__gte=2)


class Post(models.Model):
    objects = models.Manager()
    high = HighScoreManager()
    title = models.CharField(max_length=50)
    score = models.IntegerField()
    blog = models.ForeignKey(Blog, null=True, on_delete=models.CASCADE, related_name="posts")
    author = models.ForeignKey(Person, null=True, on_delete=models.CASCADE, related_name="posts")
    owner = models.ForeignKey(City, null=True, on_delete=models.CASCADE, related_name="owned_posts")
    tags = models.ManyToManyField(Tag, related_name="posts")


class Comment(models.Model):
    text = models.CharField(max_length=50)
    score = models.IntegerField()
    flag = models.BooleanField(default=False)
    post = models.ForeignKey(Post, null=True, on_delete=models.CASCADE, related_name="comments")


# ---- alternate schema shapes (C04 layer "alternate-schema"): a foreign key that targets a unique non-primary-key column (to_field),
# a child model whose only manager is not called `objects`, and the reverse side of a one-to-one
class Node(models.Model):
    code = models.CharField(max_length=5, unique=True)


class Item(models.Model):
    name = models.CharField(max_length=5)
    node = models.ForeignKey(Node, to_field="code", null=True, on_delete=models.CASCADE, related_name="items")
    rows = models.Manager()


class Extra(models.Model):
    note = models.CharField(max_length=5)
    node = models.OneToOneField(Node, on_delete=models.CASCADE, related_name="extra")
