"""
Reproduces violations of the property
  "SQLAlchemy ORM and Core shorthands return exactly the rows the filter denotes"

Run:  cd /tmp/sh_C03 && PYTHONPATH=/tmp/sh_C03 /venv/bin/python OUT/demo.py
Exit code 1 if at least one finding reproduces, 0 otherwise.
"""
import datetime as dt
import sys
import uuid

import sqlalchemy as sa
from sqlalchemy import create_engine, select
from sqlalchemy.orm import Session, declarative_base

from odata_query.sqlalchemy import apply_odata_core, apply_odata_query

Base = declarative_base()


class M(Base):
    __tablename__ = "m"
    id = sa.Column(sa.Integer, primary_key=True)
    i = sa.Column(sa.Integer)
    j = sa.Column(sa.Integer)
    f = sa.Column(sa.Float)
    s = sa.Column(sa.String)
    b = sa.Column(sa.Boolean)
    d = sa.Column(sa.Date)
    ts = sa.Column(sa.DateTime)
    tz = sa.Column(sa.DateTime(timezone=True))
    t = sa.Column(sa.Time)
    dur = sa.Column(sa.Interval)
    g = sa.Column(sa.Uuid)


class P(Base):
    """attribute names differ from column names"""

    __tablename__ = "p"
    id = sa.Column(sa.Integer, primary_key=True)
    a = sa.Column("b", sa.Integer)  # attribute a -> column "b"
    b = sa.Column("a", sa.Integer)  # attribute b -> column "a"
    dotted = sa.Column("x.i", sa.Integer)
    i = sa.Column(sa.Integer)


engine = create_engine("sqlite://")
Base.metadata.create_all(engine)
sess = Session(engine)


def load(model, rows):
    sess.query(model).delete()
    for k, r in enumerate(rows, 1):
        sess.add(model(id=k, **r))
    sess.flush()


def run3(model, flt):
    """ids selected by (ORM 2.x select, legacy Query, Core select); errors as strings"""
    out = []
    for fn in (
        lambda: [m.id for m in sess.execute(apply_odata_query(select(model), flt)).scalars().all()],
        lambda: [m.id for m in apply_odata_query(sess.query(model), flt).all()],
        lambda: [r.id for r in sess.execute(apply_odata_core(select(model.__table__), flt)).all()],
    ):
        try:
            out.append(sorted(fn()))
        except Exception as e:  # noqa
            out.append("%s: %s" % (type(e).__name__, str(e).splitlines()[0][:90]))
    return out


N_FOUND = 0


def baseline(model, flt, expected):
    """a correctly handled neighbour of the next finding, shown for contrast"""
    got = run3(model, flt)
    print("  baseline: %r -> %r%s" % (flt, got[0], "" if got == [expected] * 3 else "  (UNEXPECTED, wanted %r)" % (expected,)))


def report(n, model, flt, expected, note=""):
    """prints a FINDING line if any of the three entry styles deviates from `expected`"""
    global N_FOUND
    orm, legacy, core = run3(model, flt)
    if orm == legacy == core == expected:
        print("(not reproduced %s: %r -> %r)" % (n, flt, orm))
        return
    N_FOUND += 1
    shown = flt if len(flt) < 110 else flt[:60] + " ...[%d chars]... " % len(flt) + flt[-25:]
    if orm == legacy == core:
        obs = ("raises %s" % orm) if isinstance(orm, str) else ("rows %r" % (orm,))
    else:
        obs = "ORM %r / legacy %r / Core %r" % (orm, legacy, core)
    print("FINDING %s: %r -> %s (expected rows %r%s)" % (n, shown, obs, expected, "; " + note if note else ""))


# --------------------------------------------------------------------------- 1
# floor() is SQLAlchemy's pysqlite UDF math.floor: NULL / huge value -> exception for the whole query
load(M, [dict(f=1.5), dict(f=None)])
report("1a", M, "floor(f) eq 1", [1], "a NULL in the column must just not match")
load(M, [dict(f=1.5), dict(f=1e308)])
report("1b", M, "floor(f) eq 1", [1], "a large double must just not match")

# --------------------------------------------------------------------------- 2
# date()/time(): CAST(x AS DATE/TIME) has NUMERIC affinity in SQLite -> 2020, never a date
load(M, [dict(ts=dt.datetime(2020, 2, 29, 12, 0, 0)), dict(ts=dt.datetime(2025, 1, 1, 0, 0, 0))])
report("2a", M, "date(ts) eq 2020-02-29", [1])
report("2b", M, "date(ts) lt 2021-01-01", [1])
report("2c", M, "time(ts) eq 12:00:00", [1])

# --------------------------------------------------------------------------- 3
# mod on non-integers: SQLite's % truncates both operands to integers
load(M, [dict(i=7, f=5.5), dict(i=8, f=4.0)])
report("3a", M, "f mod 2 eq 1.5", [1], "5.5 mod 2 = 1.5")
report("3b", M, "f mod 2 eq 1", [], "5.5 mod 2 is not 1")
report("3c", M, "i mod 2.5 eq 2", [1], "7 mod 2.5 = 2")
report("3d", M, "i mod 0.5 eq 0", [1, 2], "SQLite computes i % 0 = NULL")

# --------------------------------------------------------------------------- 4
# the UTC offset of a DateTimeOffset literal is dropped when binding
load(M, [
    dict(ts=dt.datetime(2020, 1, 1, 0, 0, 0), tz=dt.datetime(2020, 1, 1, 0, 0, 0, tzinfo=dt.timezone.utc)),
    dict(ts=dt.datetime(2020, 1, 1, 5, 0, 0), tz=dt.datetime(2020, 1, 1, 5, 0, 0, tzinfo=dt.timezone.utc)),
])
baseline(M, "tz eq 2020-01-01T00:00:00Z", [1])
report("4b", M, "tz eq 2020-01-01T05:00:00+05:00", [1], "same instant as 2020-01-01T00:00:00Z")
report("4c", M, "ts lt 2020-01-01T05:00:00+05:00", [], "naive column holding UTC: nothing is before 2020-01-01T00:00:00Z")

# --------------------------------------------------------------------------- 5
# literals are bound with a type derived from the Python value, not from the column they meet
G = uuid.UUID("a7af27e6-f5a0-11e9-9649-0a252986adba")
load(M, [dict(g=G, s=str(G), ts=dt.datetime(2019, 6, 1, 0, 0, 0)), dict(g=uuid.uuid4(), s="x", ts=dt.datetime(2019, 6, 1, 0, 0, 1))])
report("5a", M, "g eq a7af27e6-f5a0-11e9-9649-0a252986adba", [1], "Uuid column, GUID literal bound as dashed text")
report("5b", M, "g ne a7af27e6-f5a0-11e9-9649-0a252986adba", [2])
report("5c", M, "s eq A7AF27E6-F5A0-11E9-9649-0A252986ADBA", [1], "GUIDs are case-insensitive; spelling changes the result")
report("5d", M, "ts gt 2019-06-01", [2], "Date literal vs DateTime column is compared as text: midnight > '2019-06-01'")
report("5e", M, "ts le 2019-06-01", [1])

# --------------------------------------------------------------------------- 6
# string functions inherit SQLite quirks
load(M, [dict(s="abc"), dict(s="ABC"), dict(s="a\x00b"), dict(s="\tab\n"), dict(s="É")])
report("6a", M, "contains(s, 'AB')", [2], "OData contains is case-sensitive; SQLite LIKE is not")
report("6b", M, "startswith(s, 'a')", [1, 3])
report("6c", M, "length(s) eq 3", [1, 2, 3], "'a\\x00b' has three characters")
report("6d", M, "endswith(s, 'b')", [3])
report("6e", M, "substring(s, 2) eq 'b'", [3])
report("6f", M, "contains(s, '\x00')", [3], "pattern is cut at the NUL -> matches everything")
report("6g", M, "trim(s) eq 'ab'", [4], "trim() strips whitespace, SQLite ltrim/rtrim only U+0020")
report("6h", M, "tolower(s) eq 'é'", [5], "SQLite lower()/upper() are ASCII-only")
baseline(M, "toupper(s) eq 'ABC'", [1, 2])

# --------------------------------------------------------------------------- 7
# round(): SQLite computes (int)(x + 0.5)
load(M, [dict(f=0.49999999999999994), dict(f=0.5)])
report("7", M, "round(f) eq 1", [2], "0.49999999999999994 rounds to 0")

# --------------------------------------------------------------------------- 8
# date/duration arithmetic is rendered as numeric + on SQLite's text dates
load(M, [dict(ts=dt.datetime(2020, 1, 1, 0, 0, 0), d=dt.date(2020, 1, 1)), dict(ts=dt.datetime(2030, 1, 1, 0, 0, 0), d=dt.date(2030, 1, 1))])
report("8a", M, "ts add duration'P1D' eq 2020-01-02T00:00:00Z", [1])
report("8b", M, "ts sub duration'P1D' lt 2020-01-01T00:00:00Z", [1])
report("8c", M, "d add duration'P1D' eq 2020-01-02", [1])

# --------------------------------------------------------------------------- 9
# ORM resolves attribute names, Core resolves column names -> they disagree
load(P, [dict(a=1, b=2, dotted=5, i=6), dict(a=2, b=1, dotted=6, i=5)])
orm, legacy, core = run3(P, "a eq 1")
if not (orm == legacy == core):
    N_FOUND += 1
    print("FINDING 9: 'a eq 1' on a model with a=Column('b'), b=Column('a') -> ORM %r / legacy %r / Core %r (expected ORM and Core to agree)" % (orm, legacy, core))

# -------------------------------------------------------------------------- 10
# the namespace of an identifier is dropped: x.i is looked up as i
report("10", P, "x.i eq 5", [1], "column 'x.i' is 5 in row 1, column 'i' is 5 in row 2; or InvalidField, but not row 2")

# -------------------------------------------------------------------------- 11
# function-name keywords are case-insensitive in the visitor but case-sensitive in the parser
load(M, [dict(s="ABC"), dict(s="x")])
baseline(M, "tolower(s) eq 'abc'", [1])
report("11b", M, "TOLOWER(s) eq 'abc'", [1], "keyword spelling must not change the result")
baseline(M, "matchesPattern(s, '^A')", [1])
report("11d", M, "matchespattern(s, '^A')", [1])

# -------------------------------------------------------------------------- 12
# size/boundary crashes
load(M, [dict(i=1, s="x" * 60000), dict(i=2, s="y")])
report("12a", M, "i lt 9223372036854775808", [1, 2], "OverflowError while binding")
report("12b", M, "contains(s, '%s')" % ("x" * 49999), [1], "'%'||?||'%' exceeds SQLite's 50000 byte LIKE pattern limit")
report("12c", M, " or ".join("i eq %d" % k for k in range(1, 601)), [1, 2], "visitor recursion, 600 flat disjuncts")

# -------------------------------------------------------------------------- 13
# precision of literals / SQLite date functions at the upper limit
load(M, [dict(i=9007199254740992, t=dt.time(23, 59, 59, 999999), ts=dt.datetime(9999, 12, 31, 23, 59, 59, 999999)),
         dict(i=9007199254740993, t=dt.time(0, 0, 0), ts=dt.datetime(2019, 6, 1, 0, 0, 0))])
report("13a", M, "i eq 9007199254740993.0", [2], "decimal literal goes through float()")
report("13b", M, "t eq 23:59:59.9999991", [], "7th fractional digit silently truncated")
report("13c", M, "ts eq 2019-06-01T00:00:00.0000001Z", [], "7th fractional digit silently truncated")
report("13d", M, "year(ts) eq 9999", [1], "strftime() overflows to NULL for 9999-12-31T23:59:59.9995 and later")

# -------------------------------------------------------------------------- 14
# null under the OData comparison rules (null equals only itself; ne is the exact inverse of eq)
load(M, [dict(i=1, j=1, b=True), dict(i=None, j=None, b=None)])
report("14a", M, "i ne 1", [2], "OData: null ne 1 is true")
report("14b", M, "i eq j", [1, 2], "OData: null eq null is true")
report("14c", M, "i in (null, 1)", [1, 2])
report("14d", M, "(i eq 1) eq null", [], "OData: 'null eq 1' is false, and false eq null is false")

print("%d finding(s) reproduced" % N_FOUND)
sys.exit(1 if N_FOUND else 0)
