"""
Reproduces the violations of the property

    "Navigation paths and any/all lambdas mean what OData says on ORM backends"

found at this worktree's HEAD.  Run as

    cd /tmp/sh_C04 && PYTHONPATH=/tmp/sh_C04 /venv/bin/python OUT/demo.py

Prints one line per finding, exit code 1 if at least one finding reproduces.
"""
import sys
import types
import warnings

sys.path.insert(0, "/tmp/sh_C04")
warnings.filterwarnings("ignore")

# --------------------------------------------------------------------------- #
# Django: an in-memory app
# --------------------------------------------------------------------------- #
import django
from django.apps import AppConfig
from django.conf import settings

_mod = types.ModuleType("demoapp")
_mod.__path__ = []
sys.modules["demoapp"] = _mod


class DemoConfig(AppConfig):
    name = "demoapp"
    path = "/tmp"
    default_auto_field = "django.db.models.AutoField"


_mod.DemoConfig = DemoConfig
settings.configure(
    DATABASES={"default": {"ENGINE": "django.db.backends.sqlite3", "NAME": ":memory:"}},
    INSTALLED_APPS=["demoapp.DemoConfig"],
    USE_TZ=False,
)
django.setup()

from django.db import connection, models  # noqa: E402

import sqlalchemy as sa  # noqa: E402
from sqlalchemy.orm import Session, aliased, declarative_base, relationship  # noqa: E402

from odata_query.django import apply_odata_query as dj_apply  # noqa: E402
from odata_query.sqlalchemy import apply_odata_query as sa_apply  # noqa: E402


def dj_model(name, attrs):
    attrs = dict(attrs)
    attrs["Meta"] = type("Meta", (), {"app_label": "demoapp"})
    attrs["__module__"] = "demoapp.models"
    return type(name, (models.Model,), attrs)


# Node <- Item (FK to the unique, non-pk column Node.code), Node <- Extra (one-to-one)
DNode = dj_model(
    "Node",
    {"code": models.CharField(max_length=8, unique=True), "label": models.CharField(max_length=8)},
)
DItem = dj_model(
    "Item",
    {
        "name": models.CharField(max_length=8),
        "node": models.ForeignKey(
            DNode, to_field="code", on_delete=models.CASCADE, related_name="items"
        ),
    },
)
DExtra = dj_model(
    "Extra",
    {
        "note": models.CharField(max_length=8),
        "node": models.OneToOneField(DNode, on_delete=models.CASCADE, related_name="extra"),
    },
)
# Blog <- Post <- Comment
DBlog = dj_model("Blog", {"title": models.CharField(max_length=8)})
DPost = dj_model(
    "Post",
    {
        "title": models.CharField(max_length=8),
        "blog": models.ForeignKey(
            DBlog, null=True, on_delete=models.CASCADE, related_name="posts"
        ),
    },
)
DComment = dj_model(
    "Comment",
    {
        "text": models.CharField(max_length=8),
        "post": models.ForeignKey(DPost, on_delete=models.CASCADE, related_name="comments"),
    },
)
# Par <- Kid, where Kid's manager is not called `objects`
DPar = dj_model("Par", {"name": models.CharField(max_length=8)})
DKid = dj_model(
    "Kid",
    {
        "name": models.CharField(max_length=8),
        "par": models.ForeignKey(DPar, on_delete=models.CASCADE, related_name="kids"),
        "rows": models.Manager(),
    },
)
with connection.schema_editor() as ed:
    for m in (DNode, DItem, DExtra, DBlog, DPost, DComment, DPar, DKid):
        ed.create_model(m)

# --------------------------------------------------------------------------- #
# SQLAlchemy: the same schema
# --------------------------------------------------------------------------- #
Base = declarative_base()


class SNode(Base):
    __tablename__ = "node"
    id = sa.Column(sa.Integer, primary_key=True)
    code = sa.Column(sa.String, unique=True, nullable=False)
    label = sa.Column(sa.String, nullable=False)
    items = relationship("SItem", back_populates="node")
    extra = relationship("SExtra", back_populates="node", uselist=False)


class SItem(Base):
    __tablename__ = "item"
    id = sa.Column(sa.Integer, primary_key=True)
    name = sa.Column(sa.String, nullable=False)
    node_code = sa.Column(sa.String, sa.ForeignKey("node.code"), nullable=False)
    node = relationship("SNode", back_populates="items")


class SExtra(Base):
    __tablename__ = "extra"
    id = sa.Column(sa.Integer, primary_key=True)
    note = sa.Column(sa.String, nullable=False)
    node_id = sa.Column(sa.Integer, sa.ForeignKey("node.id"), nullable=False, unique=True)
    node = relationship("SNode", back_populates="extra")


class SBlog(Base):
    __tablename__ = "blog"
    id = sa.Column(sa.Integer, primary_key=True)
    title = sa.Column(sa.String, nullable=False)
    posts = relationship("SPost", back_populates="blog")


class SPost(Base):
    __tablename__ = "post"
    id = sa.Column(sa.Integer, primary_key=True)
    title = sa.Column(sa.String, nullable=False)
    blog_id = sa.Column(sa.Integer, sa.ForeignKey("blog.id"))
    blog = relationship("SBlog", back_populates="posts")
    comments = relationship("SComment", back_populates="post")


class SComment(Base):
    __tablename__ = "comment"
    id = sa.Column(sa.Integer, primary_key=True)
    text = sa.Column(sa.String, nullable=False)
    post_id = sa.Column(sa.Integer, sa.ForeignKey("post.id"), nullable=False)
    post = relationship("SPost", back_populates="comments")


engine = sa.create_engine("sqlite://")
Base.metadata.create_all(engine)

# --------------------------------------------------------------------------- #
# Data (identical in both databases)
# --------------------------------------------------------------------------- #
NODES = [(1, "3", "n1"), (2, "1", "n2"), (3, "2", "n3"), (4, "9", "n4")]  # id, code, label
ITEMS = [(1, "i1", "3"), (2, "i2", "3"), (3, "i3", "1"), (4, "i1", "9")]  # id, name, node.code
EXTRAS = [(1, "e1", 1), (2, "e2", 3)]  # id, note, node.id
BLOGS = [(1, "b1"), (2, "b2"), (3, "b3")]
POSTS = [(1, "p1", 1), (2, "p2", 2), (3, "p3", None), (4, "p4", 3)]  # id, title, blog
COMMENTS = [(1, "c1", 1), (3, "c3", 2), (5, "c5", 3)]  # id, text, post
PARS = [(1, "a"), (2, "b")]
KIDS = [(1, "k1", 1)]

with Session(engine) as s:
    for i, c, l in NODES:
        DNode.objects.create(id=i, code=c, label=l)
        s.add(SNode(id=i, code=c, label=l))
    s.flush()
    for i, n, c in ITEMS:
        DItem.objects.create(id=i, name=n, node_id=c)
        s.add(SItem(id=i, name=n, node_code=c))
    for i, n, nid in EXTRAS:
        DExtra.objects.create(id=i, note=n, node_id=nid)
        s.add(SExtra(id=i, note=n, node_id=nid))
    for i, t in BLOGS:
        DBlog.objects.create(id=i, title=t)
        s.add(SBlog(id=i, title=t))
    s.flush()
    for i, t, b in POSTS:
        DPost.objects.create(id=i, title=t, blog_id=b)
        s.add(SPost(id=i, title=t, blog_id=b))
    s.flush()
    for i, t, p in COMMENTS:
        DComment.objects.create(id=i, text=t, post_id=p)
        s.add(SComment(id=i, text=t, post_id=p))
    for i, n in PARS:
        DPar.objects.create(id=i, name=n)
    for i, n, p in KIDS:
        DKid.rows.create(id=i, name=n, par_id=p)
    s.commit()


def run_dj(qs, flt):
    try:
        return sorted(o.pk for o in dj_apply(qs, flt))
    except Exception as e:  # noqa
        return "%s: %s" % (type(e).__name__, str(e).split("\n")[0][:90])


def run_sa(query, flt):
    try:
        q = sa_apply(query, flt)
        with Session(engine) as s:
            return sorted(r[0].id for r in s.execute(q).all())
    except Exception as e:  # noqa
        return "%s: %s" % (type(e).__name__, str(e).split("\n")[0][:90])


reproduced = 0


def report(n, inp, observed, expected):
    global reproduced
    if observed != expected:
        reproduced += 1
        print("FINDING %s: %s -> %s (expected %s)" % (n, inp, observed, expected))
    else:
        print("finding %s does not reproduce: %s -> %s" % (n, inp, observed))


# --------------------------------------------------------------------------- #
# 1. Django: lambda over a collection whose FK targets a non-pk column (to_field)
#    The EXISTS subquery is correlated on OuterRef("pk") instead of the FK's target.
# --------------------------------------------------------------------------- #
items_of = {i: [it for it in ITEMS if it[2] == c] for i, c, _ in NODES}
exp_any = sorted(i for i, its in items_of.items() if its)
exp_any_i1 = sorted(i for i, its in items_of.items() if any(it[1] == "i1" for it in its))
exp_all_i1 = sorted(i for i, its in items_of.items() if all(it[1] == "i1" for it in its))
assert run_sa(sa.select(SNode), "items/any()") == exp_any  # SQLAlchemy is right
report("1a", "Django Node(code unique) <- Item.node(to_field='code'): items/any()",
       run_dj(DNode.objects.all(), "items/any()"), exp_any)
report("1b", "Django same schema: items/any(i: i/name eq 'i1')",
       run_dj(DNode.objects.all(), "items/any(i: i/name eq 'i1')"), exp_any_i1)
report("1c", "Django same schema: items/all(i: i/name eq 'i1')",
       run_dj(DNode.objects.all(), "items/all(i: i/name eq 'i1')"), exp_all_i1)

# --------------------------------------------------------------------------- #
# 2. SQLAlchemy: `<to-one> eq/ne null` is rewritten to the relationship's FK column
#    without making sure that column's table is part of the query.
# --------------------------------------------------------------------------- #
has_extra = {nid for _, _, nid in EXTRAS}
exp_null = sorted(i for i, _, _ in NODES if i not in has_extra)
exp_notnull = sorted(has_extra)
assert run_dj(DNode.objects.all(), "extra eq null") == exp_null  # Django is right
report("2a", "SQLAlchemy Node.extra (one-to-one, FK on Extra): extra eq null",
       run_sa(sa.select(SNode), "extra eq null"), exp_null)
report("2b", "SQLAlchemy same schema: extra ne null",
       run_sa(sa.select(SNode), "extra ne null"), exp_notnull)
node_by_code = {c: i for i, c, _ in NODES}
exp_item = sorted(i for i, _, c in ITEMS if node_by_code[c] not in has_extra)
report("2c", "SQLAlchemy Item: node/extra eq null",
       run_sa(sa.select(SItem), "node/extra eq null"), exp_item)
exp_post = sorted(i for i, t, b in POSTS if b is None or t == "p1")
report("2d", "SQLAlchemy base query select(aliased(Post)): blog eq null or title eq 'p1'",
       run_sa(sa.select(aliased(SPost)), "blog eq null or title eq 'p1'"), exp_post)

# --------------------------------------------------------------------------- #
# 3. Both ORMs: the body of a nested lambda that mentions the variable of the
#    enclosing lambda is resolved against the innermost collection's model.
# --------------------------------------------------------------------------- #
flt = "posts/any(x: x/comments/any(y: y/id eq x/id))"
exp3 = sorted(
    b for b, _ in BLOGS
    if any(pb == b and any(cp == p and c == p for c, _, cp in COMMENTS) for p, _, pb in POSTS)
)
report("3a", "Django Blog: " + flt, run_dj(DBlog.objects.all(), flt), exp3)
report("3b", "SQLAlchemy Blog: " + flt, run_sa(sa.select(SBlog), flt), exp3)

# --------------------------------------------------------------------------- #
# 4. Django: the lambda subquery is built from `related_model.objects`
# --------------------------------------------------------------------------- #
report("4", "Django Par <- Kid (Kid's manager is named `rows`): kids/any()",
       run_dj(DPar.objects.all(), "kids/any()"), [1])

# --------------------------------------------------------------------------- #
# 5. Parser: `null`, `true`, `false` cannot be a lambda variable / path segment
# --------------------------------------------------------------------------- #
exp5 = run_dj(DPost.objects.all(), "comments/any(c: c/text eq 'c1')")
for i, kw in enumerate(("null", "true", "false")):
    flt = "comments/any(%s: %s/text eq 'c1')" % (kw, kw)
    report("5%s" % "abc"[i], "Django+SQLAlchemy Post: " + flt,
           (run_dj(DPost.objects.all(), flt), run_sa(sa.select(SPost), flt)), (exp5, exp5))

sys.exit(1 if reproduced else 0)
