"""
Reproduces the violations of property C16 ("Visitor and transformer base classes
traverse completely and never mutate") described in OUT/findings.md.

Run:  cd /tmp/sh_C16 && PYTHONPATH=/tmp/sh_C16 /venv/bin/python OUT/demo.py
Exit code 1 if at least one finding reproduces, 0 otherwise.
"""
import dataclasses
import sys

sys.path.insert(0, "/tmp/sh_C16")

from odata_query import ast, visitor  # noqa: E402
from odata_query.grammar import ODataLexer, ODataParser  # noqa: E402
from odata_query.rewrite import AliasRewriter  # noqa: E402


def parse(text):
    return ODataParser().parse(ODataLexer().tokenize(text))


def count_nodes_iteratively(tree):
    """Reference: number of nodes, computed without recursion."""
    n, stack = 0, [tree]
    while stack:
        node = stack.pop()
        n += 1
        for f in dataclasses.fields(node):
            v = getattr(node, f.name)
            if isinstance(v, list):
                stack.extend(i for i in v if isinstance(i, ast._Node))
            elif isinstance(v, ast._Node):
                stack.append(v)
    return n


class Counter(visitor.NodeVisitor):
    """Default traversal + one single-kind handler override."""

    def __init__(self):
        self.identifiers = 0

    def visit_Identifier(self, node):
        self.identifiers += 1


def outcome(fn):
    try:
        return "returned %r" % (fn(),)
    except RecursionError:
        return "raised RecursionError"
    except Exception as e:  # pragma: no cover
        return "raised %s" % type(e).__name__


reproduced = 0


def report(n, label, observed, expected, violated):
    global reproduced
    if violated:
        reproduced += 1
        print(f"FINDING {n}: {label} -> {observed} (expected {expected})")
    else:
        print(f"finding {n} not reproduced: {label} -> {observed}")


# The filters are plain, valid OData and short (< 1.2 kB); the parser accepts all
# of them and returns an ordinary AST built only from grammar node kinds.
PATH = "/".join(["a"] * 600)  # a/a/a/.../a   (1199 characters)
NEG = "-" * 600 + "a"  # ---...---a     (601 characters)
SUM = " add ".join(["a"] * 600)  # a add a add ... (3595 characters)
EQ_PATH = "/".join(["a"] * 450)  # 899 characters

# 1a. default visitor does not reach every node
for label, text in (("600-segment path a/a/.../a", PATH), ("600 unary minus signs ---...a", NEG), ("600-term sum a add a add ...", SUM)):
    tree = parse(text)
    total = count_nodes_iteratively(tree)
    v = Counter()
    obs = outcome(lambda: v.visit(tree))
    report(
        1,
        f"[default visitor] NodeVisitor().visit(parse(<{label}>)) [{total} nodes]",
        obs,
        "every node visited once, no exception",
        "RecursionError" in obs,
    )

# 1b. transformer without overrides does not return an equal tree
tree = parse(PATH)
obs = outcome(lambda: type(visitor.NodeTransformer().visit(tree)).__name__)
report(1, "[transformer without overrides] NodeTransformer().visit(parse(<600-segment path>))", obs, "a tree equal to the input", "RecursionError" in obs)

# 1c. shipped transformer (rewrite) on the same tree
obs = outcome(lambda: type(AliasRewriter({"b": "c"}).visit(tree)).__name__)
report(1, "[shipped rewrite] AliasRewriter({'b': 'c'}).visit(parse(<600-segment path>))", obs, "a tree equal to the input (no alias occurs)", "RecursionError" in obs)

# 1d. structurally identical trees do not compare equal
t1, t2 = parse(EQ_PATH), parse(EQ_PATH)
obs = outcome(lambda: t1 == t2)
report(1, "[tree equality] parse(<450-segment path>) == parse(<same text>)", obs, "True", "True" not in obs)
# ... while the default visitor still handles this very tree:
obs2 = outcome(lambda: visitor.NodeVisitor().visit(t1))
print(f"          (same 450-segment tree: NodeVisitor().visit -> {obs2})")

sys.exit(1 if reproduced else 0)
