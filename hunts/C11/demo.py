"""Reproduces the violations of the 'function calls are accepted iff name and
argument count match the OData table' property.  Run as:
    cd /tmp/sh_C11 && PYTHONPATH=/tmp/sh_C11 /venv/bin/python OUT/demo.py
"""
import signal
import sys

sys.path.insert(0, "/tmp/sh_C11")

from odata_query import ast, exceptions as ex  # noqa: E402
from odata_query.grammar import ODataLexer, ODataParser  # noqa: E402


def parse(text):
    signal.alarm(10)
    try:
        return ODataParser().parse(ODataLexer().tokenize(text))
    finally:
        signal.alarm(0)


def outcome(text):
    try:
        return parse(text)
    except Exception as e:  # noqa: BLE001
        return e


def describe(res):
    if isinstance(res, Exception):
        return f"{type(res).__name__}: {str(res)[:70]}"
    return "accepted: " + repr(res)[:80]


def accepted_call(res, full_name, n_args, named=None):
    if not isinstance(res, ast.Call):
        return False
    if res.func.full_name() != full_name or len(res.args) != n_args:
        return False
    if named is not None:
        got = [a.name.full_name() if isinstance(a, ast.NamedParam) else None for a in res.args]
        return got == named
    return True


def unknown_function(res, name):
    return type(res) is ex.UnknownFunctionException and res.function_name == name


findings = 0


def report(n, text, res, expected):
    global findings
    findings += 1
    shown = text if len(text) < 60 else text[:28] + "..." + text[-28:] + f" (len {len(text)})"
    print(f"FINDING {n}: {shown!r} -> {describe(res)} (expected {expected})")


# Sanity: the mechanism works for ordinary names, so the cases below are real.
assert accepted_call(outcome("ns.f(nullable=1,eq=2,not=3)"), "ns.f", 3, ["nullable", "eq", "not"])
assert unknown_function(outcome("anything(1)"), "anything")
assert unknown_function(outcome("not(1)"), "not")

# 1. Named parameters called null / true / false (any letter case) in a custom namespace.
for text, names in [
    ("ns.f(null=1)", ["null"]),
    ("ns.f(true=1)", ["true"]),
    ("ns.f(false=1)", ["false"]),
    ("ns.f(p=1,NULL=2)", ["p", "NULL"]),
    ("ns.f(True=x,q=2)", ["True", "q"]),
]:
    res = outcome(text)
    if not accepted_call(res, "ns.f", len(names), names):
        report(1, text, res, f"Call ns.f with named params {names}")

# 2. Un-namespaced calls whose name is any / all / null / true / false.
for name in ["any", "all", "null", "true", "false", "ANY", "Null"]:
    for args in ["", "1", "1,2"]:
        text = f"{name}({args})"
        res = outcome(text)
        if not unknown_function(res, name):
            report(2, text, res, f"UnknownFunctionException(function_name={name!r})")

# 3. Qualified names longer than 128 word characters in total.
seg = "abcdefghij"
long_ns = ".".join([seg] * 13)  # 13 segments of 10 characters, each a legal identifier
text = long_ns + "(1)"
res = outcome(text)
if not accepted_call(res, long_ns, 1):
    report(3, text, res, "Call in a custom namespace, 1 argument")
text = "n" * 128 + ".f(1)"
res = outcome(text)
if not accepted_call(res, "n" * 128 + ".f", 1):
    report(3, text, res, "Call in a custom namespace, 1 argument")
text = "f" * 129 + "(1)"
res = outcome(text)
if not unknown_function(res, "f" * 129):
    report(3, text, res, "UnknownFunctionException for the 129-character name")

# 4. Identifier characters the OData ABNF allows but the lexer does not
#    (combining marks Mn/Mc, connector punctuation Pc, format characters Cf).
for text, fname, named in [
    ("ns.e\u0301(1)", "ns.e\u0301", None),          # NFD spelling of 'é' ('ns.é(1)' is accepted)
    ("ns.f(e\u0301=1)", "ns.f", ["e\u0301"]),
    ("ns.a\u203fb(1)", "ns.a\u203fb", None),         # U+203F UNDERTIE, category Pc like '_'
]:
    res = outcome(text)
    if not accepted_call(res, fname, 1, named):
        report(4, text, res, "Call in a custom namespace, 1 argument")
text = "e\u0301(1)"
res = outcome(text)
if not unknown_function(res, "e\u0301"):
    report(4, text, res, "UnknownFunctionException(function_name='e\\u0301')")

sys.exit(1 if findings else 0)
