"""
Reproduces the violation of "Lexer and parser instances are reusable and
deterministic" (C20).

Run as:  cd /tmp/sh_C20 && PYTHONPATH=/tmp/sh_C20 /venv/bin/python OUT/demo.py

Only the public API is used: ODataLexer().tokenize, ODataParser().parse,
AliasRewriter(aliases, lexer, parser).  No library code is patched or subclassed.
"""
import gc
import random
import sys
import threading

sys.path.insert(0, "/tmp/sh_C20")

from odata_query.exceptions import ODataException  # noqa: E402
from odata_query.grammar import ODataLexer, ODataParser  # noqa: E402
from odata_query.rewrite import AliasRewriter  # noqa: E402

ERR_PREFIXES = ("ParsingException", "TokenizingException", "UnknownFunction", "ArgumentCount")


def validate(lexer, parser, text):
    """
    An ordinary "is this filter valid?" helper.  Keeping the exception in a local
    (``err = e``) makes the usual frame <-> traceback reference cycle, so the
    exception - and with it the frame of ``Parser.parse`` and the suspended
    ``lexer.tokenize()`` generator - is only released by the cyclic collector.
    """
    err = None
    try:
        parser.parse(lexer.tokenize(text))
    except ODataException as e:
        err = e
    return None if err is None else str(err)


def outcome(lexer, parser, text):
    try:
        return repr(parser.parse(lexer.tokenize(text)))
    except ODataException as e:
        return type(e).__name__ + ": " + str(e)


def fresh(text):
    return outcome(ODataLexer(), ODataParser(), text)


def is_err(o):
    return o.startswith(ERR_PREFIXES)


def short(s, n=170):
    return s if len(s) <= n else s[: n - 3] + "..."


def with_gc_threshold(thr, history, action, share_parser=True):
    """
    history on (lexer, parser); then run action(lexer, parser) with the cyclic
    collector's generation-0 threshold set to ``thr``.  Varying ``thr`` only moves
    the moment at which the (pending) garbage of the history is collected.
    """
    old = gc.get_threshold()
    gc.disable()
    gc.collect()
    lexer, parser = ODataLexer(), ODataParser()
    for h in history:
        validate(lexer, parser, h)
    if not share_parser:
        parser = ODataParser()  # the old one becomes garbage as well
    gc.set_threshold(thr, 10, 10)
    gc.enable()
    try:
        return action(lexer, parser)
    finally:
        gc.disable()
        gc.set_threshold(*old)
        gc.enable()


def search(history, probe, share_parser=True, want_wrong_ast=False):
    want = fresh(probe)
    first = None
    for thr in range(1, 400):
        got = with_gc_threshold(thr, history, lambda lx, p: outcome(lx, p, probe), share_parser)
        if got != want:
            if first is None:
                first = (thr, got)
            if not want_wrong_ast or not is_err(got):
                return want, (thr, got)
    return want, first


findings = 0

# ---------------------------------------------------------------------------
# FINDING 1: shared lexer (and parser); a history entry that raised in the parser;
# then a probe.  The probe's result differs from fresh instances.
# ---------------------------------------------------------------------------
HIST = "x in 1 or y eq 2"  # syntax error (ParsingException)
PROBE = "a eq 1 and b eq 2"
want, hit = search([HIST], PROBE, share_parser=True, want_wrong_ast=True)
if hit:
    findings += 1
    print(
        "FINDING 1: shared lexer+parser, history [%r] (raises ParsingException), probe %r, gc threshold %d "
        "-> %s (expected %s)" % (HIST, PROBE, hit[0], short(hit[1]), short(want))
    )
else:
    print("finding 1 did not reproduce with the deterministic search")

# -- variant: an invalid probe is silently ACCEPTED after such a history
PROBE2 = "a in 1 or b in (1,2,3)"
want2, hit2 = search([HIST], PROBE2, share_parser=True, want_wrong_ast=True)
if hit2:
    print("  variant 1a (invalid probe accepted): probe %r, gc threshold %d -> %s (expected %s)"
          % (PROBE2, hit2[0], short(hit2[1]), short(want2)))

# -- variant: history that raised a function error, probe truncated
HIST3 = "x eq 1 and foo(y) and z eq 2"  # UnknownFunctionException
want3, hit3 = search([HIST3], PROBE, share_parser=True, want_wrong_ast=True)
if hit3:
    print("  variant 1b (function-error history): history [%r], probe %r, gc threshold %d -> %s (expected %s)"
          % (HIST3, PROBE, hit3[0], short(hit3[1]), short(want3)))

# -- variant: only the lexer is shared, every parse uses a new parser
want4, hit4 = search([HIST], PROBE, share_parser=False, want_wrong_ast=True)
if hit4:
    print("  variant 1c (shared lexer, fresh parser per call): probe %r, gc threshold %d -> %s (expected %s)"
          % (PROBE, hit4[0], short(hit4[1]), short(want4)))

# -- variant: AliasRewriter built with caller supplied instances
ALIASES = {"n": "a/b/c/d"}
want5 = repr(AliasRewriter(ALIASES).replacements)


def build_rewriter(lx, p):
    try:
        return repr(AliasRewriter(ALIASES, lx, p).replacements)
    except ODataException as e:
        return type(e).__name__ + ": " + str(e)


for thr in range(1, 400):
    got5 = with_gc_threshold(thr, [HIST], build_rewriter)
    if got5 != want5:
        print("  variant 1d (AliasRewriter(%r, lexer, parser) with the same used instances): gc threshold %d -> %s "
              "(expected, as with fresh instances: %s)" % (ALIASES, thr, short(got5), short(want5)))
        break

# -- variant: nothing tuned at all - default gc settings, random workload
VALID = [
    "a eq 1",
    "a/b/c eq 'x' and d eq 2",
    "contains(name,'x') or startswith(name,'y') or endswith(name, 'z')",
    "xs/any(x: x/y eq 1 and x/z in (1,2,3,4,5))",
    "aa eq 1 and bb eq 2 and cc eq 3 and dd eq 4 and ee eq 5",
    "price mul 2 add 3 gt 10 and not (flag eq true)",
    "year(created) eq 2020 and month(created) in (1,2,3)",
]
BAD = [
    "a eq eq 1 and some_long_field_name eq 'some long value'",
    "foo(a) and b eq 1 and c eq 2 and d eq 3",
    "a eq 1 and contains(b) and c eq 2",
    "(a eq 1 and b eq 2 and c eq 3",
    "a b c d e f g h",
    "a in 1 or b in (1,2,3)",
]
FRESH = {s: fresh(s) for s in VALID + BAD}
gc.collect()
lexer, parser = ODataLexer(), ODataParser()


def check(text):
    err = None
    try:
        return repr(parser.parse(lexer.tokenize(text)))
    except ODataException as e:
        err = e
    return type(err).__name__ + ": " + str(err)


rnd = random.Random(1)
N = 30000
mism = []
for i in range(N):
    s = rnd.choice(VALID + BAD)
    r = check(s)
    if r != FRESH[s]:
        mism.append((i, s, r))
if mism:
    i, s, r = next(((i, s, r) for i, s, r in mism if not is_err(r)), mism[0])
    print("  variant 1e (default gc settings, %d random parses on one lexer+parser): %d results differ from fresh "
          "instances, e.g. call #%d %r -> %s (expected %s)" % (N, len(mism), i, s, short(r), short(FRESH[s])))

# -- variant: two parser instances interleaved (threads) on one lexer instance
old_switch = sys.getswitchinterval()
sys.setswitchinterval(1e-6)
shared_lexer = ODataLexer()
thread_bad = []


def work(text, n):
    want_t = fresh(text)
    own_parser = ODataParser()
    for _ in range(n):
        got_t = outcome(shared_lexer, own_parser, text)
        if got_t != want_t:
            thread_bad.append((text, got_t, want_t))


threads = [
    threading.Thread(target=work, args=(t, 3000))
    for t in ("aa eq 1 and bb eq 2 and cc eq 3", "name eq 'x' or contains(name, 'yyyyyyyy') or zz in (1,2,3)")
]
for t in threads:
    t.start()
for t in threads:
    t.join()
sys.setswitchinterval(old_switch)
if thread_bad:
    text, got_t, want_t = next((b for b in thread_bad if not is_err(b[1])), thread_bad[0])
    print("  variant 1f (two threads, own parser each, one shared lexer, valid filters only): %d of 6000 results "
          "differ, e.g. %r -> %s (expected %s)" % (len(thread_bad), text, short(got_t, 420), short(want_t, 420)))

sys.exit(1 if findings else 0)
