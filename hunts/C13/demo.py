"""
Reproduces violations of the property
    "AST -> OData text -> AST is the identity"
for odata_query at this worktree's HEAD, through the public API only
(ODataLexer / ODataParser / AstToODataVisitor).

Run:  cd /tmp/sh_C13 && PYTHONPATH=/tmp/sh_C13 /venv/bin/python OUT/demo.py
"""
import sys

from odata_query.grammar import ODataLexer, ODataParser
from odata_query.roundtrip import AstToODataVisitor


def parse(text):
    return ODataParser().parse(ODataLexer().tokenize(text))


def render(tree):
    return AstToODataVisitor().visit(tree)


def roundtrip(text):
    """
    Returns (violated, observed) for the AST that the parser produces for
    ``text``. ``text`` itself must parse, otherwise the input is outside the
    property's quantifier and ValueError is raised.
    """
    try:
        tree = parse(text)
    except Exception as e:  # pragma: no cover
        raise ValueError("input outside the quantifier: %r (%r)" % (text, e))
    if tree is None:
        raise ValueError("input outside the quantifier: %r" % (text,))

    try:
        rendered = render(tree)
    except RecursionError:
        return True, "render(parse(input)) raises RecursionError"

    try:
        tree2 = parse(rendered)
    except RecursionError:
        return True, "rendered %r; parse raises RecursionError" % (rendered,)
    except Exception as e:
        return (
            True,
            "rendered %r, which the parser rejects with %s"
            % (rendered, type(e).__name__),
        )

    try:
        same = tree2 == tree
    except RecursionError:
        return True, "rendered text re-parses, but comparing the ASTs raises RecursionError"
    if not same:
        return True, "rendered %r, which parses to a different AST %r" % (rendered, tree2)
    if render(tree2) != rendered:
        return True, "render is not a fixpoint: %r -> %r" % (rendered, render(tree2))
    return False, "rendered %r, round trip ok" % (rendered,)


def short(text, n=60):
    return text if len(text) <= n else text[:25] + "...(%d chars)..." % len(text) + text[-15:]


# (finding number, input, what the property requires)
CASES = [
    # Root cause 1: the parser drops the namespace of a non-first path segment
    # and keeps only the last dotted part as Attribute.attr; that part may be a
    # word that is not an identifier on its own (digit first / true / false /
    # null), so the rendered path cannot be parsed again.
    (1, "a/ns.1 eq 1", "render gives text that parses back to Attribute(a, '1') eq 1"),
    (1, "a/ns.1x", "same AST after the trip"),
    (1, "a/ns.1e5/b", "same AST after the trip"),
    (1, "a/ns.true eq 1", "same AST after the trip"),
    (1, "a/ns.False", "same AST after the trip"),
    (1, "a/ns.null", "same AST after the trip"),
    (1, "ns.a/b/x.2/any(v: v eq 1)", "same AST after the trip"),
    (1, "a/any(x: x/y.null eq 1)", "same AST after the trip"),
    (1, "contains(a/b.1, 'x')", "same AST after the trip"),
    # Root cause 2 (borderline, see findings.md): recursive renderer / recursive
    # dataclass equality on ASTs that the (iterative) parser produces happily.
    (2, " add ".join(["a"] * 1000), "same AST after the trip (parser accepts the 999-operator chain)"),
    (2, "not " * 1000 + "a", "same AST after the trip (parser accepts 1000 negations)"),
    (2, "/".join(["a"] * 1000), "same AST after the trip (parser accepts the 1000-segment path)"),
]


def main():
    reproduced = set()
    for nr, text, expected in CASES:
        violated, observed = roundtrip(text)
        if violated:
            reproduced.add(nr)
            print("FINDING %d: %s -> %s (expected %s)" % (nr, short(text), observed, expected))
        else:
            print("not reproduced (%d): %s -> %s" % (nr, short(text), observed))

    # Control: the same paths without a namespaced inner segment round trip.
    for text in ["a/b1 eq 1", "ns.1/b eq 1", "ns.true eq 1", "a/not eq 1"]:
        violated, observed = roundtrip(text)
        print("control: %s -> %s" % (text, observed))
        assert not violated

    return 1 if reproduced else 0


if __name__ == "__main__":
    sys.exit(main())
