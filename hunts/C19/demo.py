"""
Demo for property C19: whitespace layout and keyword case do not change the
meaning of a filter.

Run:  cd /tmp/sh_C19 && PYTHONPATH=/tmp/sh_C19 /venv/bin/python OUT/demo.py
"""
import sqlite3
import sys

sys.path.insert(0, "/tmp/sh_C19")

import django
from django.conf import settings

settings.configure(
    DATABASES={
        "default": {"ENGINE": "django.db.backends.sqlite3", "NAME": ":memory:"}
    },
    INSTALLED_APPS=[],
    USE_TZ=True,
)
django.setup()

import sqlalchemy as sa  # noqa: E402
from django.db import connection, models  # noqa: E402

from odata_query.django import apply_odata_query as dj_apply  # noqa: E402
from odata_query.grammar import ODataLexer, ODataParser  # noqa: E402
from odata_query.sql.athena import AstToAthenaSqlVisitor  # noqa: E402
from odata_query.sql.base import AstToSqlVisitor  # noqa: E402
from odata_query.sql.sqlite import AstToSqliteSqlVisitor  # noqa: E402
from odata_query.sqlalchemy import apply_odata_core  # noqa: E402


def parse(text):
    return ODataParser().parse(ODataLexer().tokenize(text))


def attempt(fn, *args):
    try:
        return ("ok", fn(*args))
    except Exception as exc:  # noqa: BLE001
        return ("err", f"{type(exc).__name__}: {exc}")


findings = 0


def report(n, inp, observed, expected):
    global findings
    findings += 1
    print(f"FINDING {n}: {inp} -> {observed} (expected {expected})")


# ---------------------------------------------------------------------------
# Databases
# ---------------------------------------------------------------------------
# SQLAlchemy core table with a column called `not` and an integer column `x`:
engine = sa.create_engine("sqlite://")
meta = sa.MetaData()
tbl = sa.Table(
    "t",
    meta,
    sa.Column("id", sa.Integer, primary_key=True),
    sa.Column("not", sa.Integer),
    sa.Column("x", sa.Integer),
    sa.Column("name", sa.String),
)
meta.create_all(engine)
with engine.begin() as conn:
    conn.execute(
        tbl.insert(),
        [
            {"id": 1, "not": 1, "x": -1, "name": "it is true"},
            {"id": 2, "not": 2, "x": 1, "name": "IT IS TRUE"},
            {"id": 3, "not": None, "x": 0, "name": "1e5 volts"},
        ],
    )


def sa_rows(flt):
    q = apply_odata_core(sa.select(tbl.c.id), flt)
    with engine.connect() as conn:
        return sorted(r[0] for r in conn.execute(q))


# Django model with an integer field x:
class Item(models.Model):
    x = models.IntegerField()

    class Meta:
        app_label = "demo"


with connection.schema_editor() as editor:
    editor.create_model(Item)
Item.objects.bulk_create([Item(id=1, x=-1), Item(id=2, x=1), Item(id=3, x=0)])


def dj_rows(flt):
    return sorted(dj_apply(Item.objects.all(), flt).values_list("id", flat=True))


# Raw sqlite for the string-SQL visitors, with case sensitive LIKE (the
# behaviour of LIKE in standard SQL / PostgreSQL / Athena):
raw = sqlite3.connect(":memory:")
raw.execute("PRAGMA case_sensitive_like = ON")
raw.execute('CREATE TABLE t (id INTEGER, "not" INTEGER, x INTEGER, name TEXT)')
raw.executemany(
    "INSERT INTO t VALUES (?, ?, ?, ?)",
    [(1, 1, -1, "it is true"), (2, 2, 1, "IT IS TRUE"), (3, None, 0, "1e5 volts")],
)


def raw_rows(flt, visitor=AstToSqliteSqlVisitor):
    where = visitor().visit(parse(flt))
    return sorted(r[0] for r in raw.execute(f"SELECT id FROM t WHERE {where}"))


# ---------------------------------------------------------------------------
# 1. A field / lambda variable called `not` + whitespace at an optional
#    whitespace position (inside parentheses, before a comma, before the
#    lambda colon) is rejected: `not\s+` is always the negation operator.
# ---------------------------------------------------------------------------
n = 0
for compact, relaid, where in [
    ("(not) eq 1", "( not ) eq 1", "inside parentheses"),
    ("x in (not, 1)", "x in (not , 1)", "before a comma (list)"),
    ("concat(not, 'a') eq 'b'", "concat(not , 'a') eq 'b'", "before a comma (call)"),
    ("length(not) eq 1", "length( not ) eq 1", "inside call parentheses"),
    ("a/any(not: 1 eq 1)", "a/any(not : 1 eq 1)", "before the lambda colon"),
    ("(a eq not)", "(a eq not )", "before a closing parenthesis"),
]:
    a = attempt(parse, compact)
    b = attempt(parse, relaid)
    if a[0] == "ok" and (b[0] != "ok" or a[1] != b[1]):
        n += 1
        report(
            f"1.{n}",
            f"{compact!r} re-laid as {relaid!r} [{where}]",
            f"compact parses to {a[1]!r}; re-laid -> {b[1]}",
            "same AST for both layouts",
        )

# ... and through a database backend (SQLAlchemy core, column named `not`):
a = attempt(sa_rows, "(not) eq 1")
b = attempt(sa_rows, "( not ) eq 1")
if a != b:
    report(
        "1.db",
        "SQLAlchemy core apply_odata_core: '(not) eq 1' vs '( not ) eq 1'",
        f"{a} vs {b}",
        "same rows [1]",
    )
a = attempt(raw_rows, "x in (not, 1)")
b = attempt(raw_rows, "x in (not , 1)")
if a != b:
    report(
        "1.sql",
        "AstToSqliteSqlVisitor: 'x in (not, 1)' vs 'x in (not , 1)'",
        f"{a} vs {b}",
        "same rows",
    )

# ---------------------------------------------------------------------------
# 2. Boolean / Float literals keep the spelling of the keyword letters
#    (True/TRUE, exponent e/E) in the AST, and the SQL visitors copy that
#    spelling into LIKE patterns.
# ---------------------------------------------------------------------------
for lower, upper in [("x eq true", "x eq TRUE"), ("x eq 1e5", "x eq 1E5")]:
    a, b = parse(lower), parse(upper)
    if a != b:
        report(
            "2.ast",
            f"{lower!r} vs {upper!r}",
            f"ASTs differ: {a.right!r} != {b.right!r}",
            "equal ASTs (same literal value)",
        )

for lower, upper in [
    ("contains(tolower(name), true)", "contains(tolower(name), TRUE)"),
    ("startswith(tolower(name), 1e5)", "startswith(tolower(name), 1E5)"),
]:
    for visitor in (AstToSqlVisitor, AstToSqliteSqlVisitor, AstToAthenaSqlVisitor):
        a = visitor().visit(parse(lower))
        b = visitor().visit(parse(upper))
        if a != b:
            report(
                "2.sql",
                f"{visitor.__name__}: {lower!r} vs {upper!r}",
                f"{a} vs {b}",
                "the same LIKE pattern",
            )
    a = attempt(raw_rows, lower)
    b = attempt(raw_rows, upper)
    if a != b:
        report(
            "2.rows",
            f"sqlite (case_sensitive_like=ON) {lower!r} vs {upper!r}",
            f"rows {a[1]} vs rows {b[1]}",
            "same rows",
        )

# ---------------------------------------------------------------------------
# 3. (borderline, see findings.md) whitespace after a unary minus in front of
#    a number: `-1` is a signed literal, `- 1` a negation node that the Django
#    and SQLAlchemy backends refuse.
# ---------------------------------------------------------------------------
compact, relaid = "x eq -1", "x eq - 1"
a, b = parse(compact), parse(relaid)
if a != b:
    report(
        "3.ast",
        f"{compact!r} vs {relaid!r}",
        f"{a.right!r} vs {b.right!r}",
        "same AST (grammar: UMINUS BWS common_expr)",
    )
for name, fn in (("Django", dj_rows), ("SQLAlchemy core", sa_rows)):
    ra, rb = attempt(fn, compact), attempt(fn, relaid)
    if ra != rb:
        report(
            "3.db",
            f"{name}: {compact!r} vs {relaid!r}",
            f"{ra} vs {rb}",
            "same rows [1]",
        )

sys.exit(1 if findings else 0)
