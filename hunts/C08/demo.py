"""
Reproduces violations of the property

  "ORM backends pass every filter value to the database as a bound parameter:
   the compiled SQL of two filters that differ only in literal values is
   identical, and the values appear only in the parameter list handed to the
   driver."

Run as:  cd /tmp/sh_C08 && PYTHONPATH=/tmp/sh_C08 /venv/bin/python OUT/demo.py
"""
import sys
import warnings

sys.path.insert(0, "/tmp/sh_C08")
warnings.simplefilter("ignore")

###############################################################################
# Django set-up (in-memory SQLite)
###############################################################################
import django
from django.conf import settings

settings.configure(
    DATABASES={
        "default": {"ENGINE": "django.db.backends.sqlite3", "NAME": ":memory:"}
    },
    INSTALLED_APPS=["django.contrib.contenttypes"],
    USE_TZ=True,
)
django.setup()

from django.db import connection, models  # noqa: E402


class Author(models.Model):
    name = models.CharField(max_length=100)
    age = models.IntegerField(null=True)
    score = models.FloatField(null=True)
    flag = models.BooleanField(default=False)
    created_at = models.DateTimeField(null=True)
    uid = models.UUIDField(null=True)

    class Meta:
        app_label = "demo"


with connection.schema_editor() as se:
    se.create_model(Author)

from odata_query.django import apply_odata_query as dj_apply  # noqa: E402


def dj_driver(flt):
    """Returns (sql, params) exactly as handed to the DB driver by Django."""
    seen = []

    def wrapper(execute, sql, params, many, context):
        seen.append((sql, tuple(params)))
        return execute(sql, params, many, context)

    with connection.execute_wrapper(wrapper):
        list(dj_apply(Author.objects.all(), flt))
    sql, params = seen[-1]
    return sql[sql.index("WHERE") :], params


###############################################################################
# SQLAlchemy set-up (in-memory SQLite)
###############################################################################
import sqlalchemy as sa  # noqa: E402
from sqlalchemy import event  # noqa: E402
from sqlalchemy.orm import declarative_base  # noqa: E402

Base = declarative_base()


class SAuthor(Base):
    __tablename__ = "author"
    id = sa.Column(sa.Integer, primary_key=True)
    name = sa.Column(sa.String)
    age = sa.Column(sa.Integer)
    flag = sa.Column(sa.Boolean)
    created_at = sa.Column(sa.DateTime(timezone=True))


engine = sa.create_engine("sqlite://")
Base.metadata.create_all(engine)

from odata_query.sqlalchemy import (  # noqa: E402
    apply_odata_core as sa_core,
    apply_odata_query as sa_orm,
)

_captured = []


@event.listens_for(engine, "before_cursor_execute")
def _capture(conn, cursor, statement, parameters, context, executemany):
    _captured.append((statement, tuple(parameters)))


def sa_driver(kind, flt):
    """Returns (sql, params) exactly as handed to the sqlite3 driver."""
    if kind == "orm":
        stmt = sa_orm(sa.select(SAuthor), flt)
    else:
        stmt = sa_core(sa.select(SAuthor.__table__), flt)
    _captured.clear()
    with engine.connect() as conn:
        conn.execute(stmt).all()
    sql, params = _captured[-1]
    return " ".join(sql[sql.index("WHERE") :].split()), params


def sa_compiled(kind, flt, dialect):
    if kind == "orm":
        stmt = sa_orm(sa.select(SAuthor), flt)
    else:
        stmt = sa_core(sa.select(SAuthor.__table__), flt)
    sql = str(stmt.compile(dialect=dialect))
    return " ".join(sql[sql.index("WHERE") :].split())


###############################################################################
# Findings
###############################################################################
found = set()
root = 0  # number of the root cause currently being demonstrated


def report(inputs, observed, expected, violated):
    """One 'FINDING <n>' line per root cause; further inputs are variants."""
    if not violated:
        print(f"  (not reproduced for root cause {root}: {inputs} -> {observed})")
    elif root not in found:
        found.add(root)
        print(f"FINDING {root}: {inputs} -> {observed} (expected {expected})")
    else:
        print(f"  variant of FINDING {root}: {inputs} -> {observed}")


# --- 1. Django: `in` list with equal elements collapses placeholders ---------
root = 1
pairs = [
    ("age in (1, 2)", "age in (1, 1)"),
    ("name in ('a', 'b', 'c')", "name in ('a', 'b', 'a')"),
    ("score in (0.0, 1.0)", "score in (0.0, -0.0)"),
    ("age in (1, 2.0)", "age in (1, 1.0)"),
    (
        "created_at in (2020-01-01T12:00:00Z, 2020-01-01T13:00:00Z)",
        "created_at in (2020-01-01T12:00:00Z, 2020-01-01T13:00:00+01:00)",
    ),
    (
        "uid in (ABCDEF01-0000-0000-0000-000000000000, abcdef02-0000-0000-0000-000000000000)",
        "uid in (ABCDEF01-0000-0000-0000-000000000000, abcdef01-0000-0000-0000-000000000000)",
    ),
    ("length(name) in (1, 2)", "length(name) in (1, 1)"),
]
for f1, f2 in pairs:
    (s1, p1), (s2, p2) = dj_driver(f1), dj_driver(f2)
    report(
        f"Django [{f1}] vs [{f2}]",
        f"SQL differs: {s1!r} params={p1} vs {s2!r} params={p2}",
        "identical SQL text, only the parameter lists differ",
        s1 != s2,
    )

# --- 2. SQLAlchemy ORM / Core: boolean literals are rendered into the SQL ----
root = 2
for kind in ("orm", "core"):
    for f1, f2 in [
        ("flag eq true", "flag eq false"),
        ("flag in (true, false)", "flag in (false, true)"),
        ("(name eq 'a') eq true", "(name eq 'a') eq false"),
        ("true and name eq 'a'", "false and name eq 'a'"),
    ]:
        (s1, p1), (s2, p2) = sa_driver(kind, f1), sa_driver(kind, f2)
        report(
            f"SQLAlchemy {kind}/sqlite [{f1}] vs [{f2}]",
            f"SQL differs and the boolean is not a parameter: {s1!r} params={p1} vs {s2!r} params={p2}",
            "identical SQL text with the boolean in the parameter list",
            s1 != s2,
        )

# --- 3. SQLAlchemy: type of the bind (rendered by psycopg3/asyncpg dialects) -
#        is inferred from the literal's value
from sqlalchemy.dialects.postgresql import asyncpg, psycopg  # noqa: E402

root = 3

for dname, dialect in (("postgresql+psycopg", psycopg.dialect()), ("postgresql+asyncpg", asyncpg.dialect())):
    for kind in ("orm", "core"):
        for f1, f2 in [
            ("age eq 2147483647", "age eq 2147483648"),
            ("age in (1, 2)", "age in (1, 4294967296)"),
            ("created_at gt 2020-01-01T12:00:00Z", "created_at gt 2020-01-01T12:00:00"),
        ]:
            s1, s2 = sa_compiled(kind, f1, dialect), sa_compiled(kind, f2, dialect)
            report(
                f"SQLAlchemy {kind}/{dname} [{f1}] vs [{f2}]",
                f"compiled SQL differs: {s1!r} vs {s2!r}",
                "identical SQL text",
                s1 != s2,
            )

sys.exit(1 if found else 0)
