"""
C10 hunt: "Parsing any string terminates with an AST or a library syntax/function error".

No violation of the property as written was found, so this script reports no
FINDING lines and exits 0.  It re-runs a compact version of the sweep (a few
seconds) so that the claim is checkable, and prints one NOTE about the only
super-linear behaviour that was seen (quadratic time on long paths; the parse
still terminates, hence not a finding).

Run:  cd /tmp/sh_C10 && PYTHONPATH=/tmp/sh_C10 /venv/bin/python OUT/demo.py
"""
import itertools
import random
import sys
import time

sys.path.insert(0, "/tmp/sh_C10")
from odata_query import ast, exceptions  # noqa: E402
from odata_query.grammar import ODataLexer, ODataParser  # noqa: E402

LIB = (
    exceptions.TokenizingException,
    exceptions.ParsingException,
    exceptions.UnknownFunctionException,
    exceptions.ArgumentCountException,
)


def outcome(s, lexer=None, parser=None):
    lexer = lexer or ODataLexer()
    parser = parser or ODataParser()
    try:
        r = parser.parse(lexer.tokenize(s))
    except LIB as e:
        assert isinstance(e, exceptions.ODataException)
        return ("LIB", type(e).__name__, str(e))
    except BaseException as e:  # foreign exception -> violation
        return ("FOREIGN", type(e).__name__, str(e)[:80])
    if not isinstance(r, ast._Node):
        return ("NONNODE", repr(r)[:80], "")
    return ("OK", r, "")


findings = []


def check(s, L, P):
    o1 = outcome(s, L, P)  # shared, reused instances
    if o1[0] in ("FOREIGN", "NONNODE"):
        findings.append((s, o1[0] + " " + str(o1[1]), "AST node or library exception"))
        return
    o2 = outcome(s)  # fresh instances
    if o1 != o2:
        findings.append((s, "outcome differs between runs", "same outcome"))


def main():
    L, P = ODataLexer(), ODataParser()
    n = 0
    # 1. exhaustive short token sequences
    atoms = ["a", "not", "in", "null", "geo.length", "now", "1", "-1", "1e5", "'s'",
             "duration'P1D'", "2020-01-01T10:00:00Z", "10:00:00", " ", "(", ")", ",",
             "/", ":", "=", "-", " eq ", " in ", "not ", "any(", "all(", ".", "'",
             "\x00", "١", "ſ"]
    for k in (1, 2, 3):
        for tup in itertools.product(atoms, repeat=k):
            check("".join(tup), L, P)
            n += 1
    # 2. random mutations of valid filters
    rnd = random.Random(10)
    valid = [
        "a/b/any(x: x/c in (1,2,'s') and not contains(x/d, 'q'))",
        "substring(name, start=1, length=(2 add 3)) eq geo.x/not",
        "xs/all(in: in/eq eq -in) or (not) eq (1,)",
        "date(t) ge 2020-02-30 and t lt 2020-01-01t10:00:60.5z and d eq duration'-P1Y2M3DT4H5M6.7S'",
        "id in (00000000-0000-0000-0000-000000000000, null, true) or now( ) gt mindatetime()",
    ]
    pool = ["(", ")", ",", "/", ":", "=", " ", "'", "-", "not ", "any(", "all(", " in ",
            " eq ", "null", "1", "a", ".", "ın", "\U0001F600", "\ud800"]
    import re
    tok = re.compile(r"'(?:[^']|'')*'|\s+|[\w.]+|.", re.S)
    for _ in range(20000):
        toks = tok.findall(rnd.choice(valid))
        for _ in range(rnd.randint(1, 3)):
            i = rnd.randrange(len(toks))
            op = rnd.randrange(4)
            if op == 0:
                del toks[i]
            elif op == 1:
                toks.insert(i, rnd.choice(pool + toks))
            elif op == 2:
                j = rnd.randrange(len(toks))
                toks[i], toks[j] = toks[j], toks[i]
            else:
                toks.insert(i, toks[i])
            if not toks:
                toks = ["a"]
        check("".join(toks), L, P)
        n += 1
    # 3. long repetitive inputs (64 KB class), except the quadratic path case
    longs = {
        "parens": "(" * 32000 + "a" + ")" * 32000,
        "minus": "- " * 32000 + "a",
        "not": "not " * 16000 + "a",
        "chain": " and ".join(["a eq 1"] * 5900),
        "list": "(" + ",".join(["1"] * 32000) + ")",
        "lambda": "a/any(x:" * 7000 + "x" + ")" * 7000,
        "calls": "trim(" * 10000 + "a" + ")" * 10000,
        "named": "trim(" + ",".join(["a=1"] * 16000) + ")",
        "blank": "a" + " " * 65000 + "eq 1",
        "quotes": "'" + "''" * 32000,
        "ident": "a" * 65000,
    }
    for name, s in longs.items():
        o = outcome(s, L, P)
        n += 1
        if o[0] in ("FOREIGN", "NONNODE"):
            findings.append((name, o[0] + " " + str(o[1]), "AST node or library exception"))

    for i, (s, obs, exp) in enumerate(findings, 1):
        print(f"FINDING {i}: {s!r} -> {obs} (expected {exp})")
    if not findings:
        print(f"no violation: {n} inputs all gave an AST node or a library exception, deterministically")

    # NOTE (not a finding): quadratic time on long paths
    times = []
    for segs in (500, 1000, 2000):
        s = "/".join(["a"] * segs)
        t0 = time.process_time()
        outcome(s)
        times.append((segs, round(time.process_time() - t0, 2)))
    print("NOTE: path parse CPU seconds by segment count (quadratic, still terminates):", times)
    return 1 if findings else 0


if __name__ == "__main__":
    sys.exit(main())
