"""
Reproduces violations of the property
  "Every SQL dialect emits well-formed SQL whose structure mirrors the filter".

Run as:  cd /tmp/sh_C09 && PYTHONPATH=/tmp/sh_C09 /venv/bin/python OUT/demo.py
Exit code 1 if at least one finding reproduces, 0 otherwise.
"""
import re
import sqlite3
import sys

from odata_query import ast
from odata_query.grammar import ODataLexer, ODataParser
from odata_query.sql import (
    AstToAthenaSqlVisitor,
    AstToSqliteSqlVisitor,
    AstToSqlVisitor,
)

DIALECTS = [
    ("standard", AstToSqlVisitor),
    ("sqlite", AstToSqliteSqlVisitor),
    ("athena", AstToAthenaSqlVisitor),
]

lexer = ODataLexer()
parser = ODataParser()


def parse(flt):
    return parser.parse(lexer.tokenize(flt))


def emit(flt, visitor_cls, alias=None):
    """Returns (sql, None) or (None, exception)."""
    try:
        return visitor_cls(alias).visit(parse(flt)), None
    except BaseException as e:  # noqa
        return None, e


def sqlite_check(sql, columns=("x", "n", "name", "b", "a", "c")):
    """Ask a real SQL tokenizer/parser (SQLite) what it thinks of the text."""
    con = sqlite3.connect(":memory:")
    con.execute("create table t (%s)" % ", ".join('"%s"' % c for c in columns))
    try:
        con.execute("select count(*) from t where " + sql).fetchall()
        return "ok"
    except Exception as e:  # noqa
        return "%s: %s" % (type(e).__name__, e)


# SQL numeric literal per SQL-92 <unsigned numeric literal>, ASCII only:
SQL_TOKEN = re.compile(
    r"""\s+|"[^"]*"|'(?:[^']|'')*'|[0-9]+(?:\.[0-9]+)?(?:[eE][+-]?[0-9]+)?"""
    r"""|[A-Za-z_][A-Za-z_0-9]*|\|\||!=|<=|>=|[=<>+\-*/%(),.]"""
)


def tokenisable(sql):
    pos = 0
    while pos < len(sql):
        m = SQL_TOKEN.match(sql, pos)
        if not m:
            return False
        pos = m.end()
    return True


reproduced = []


def finding(n, inp, observed, expected, ok):
    if ok:
        reproduced.append(n)
        print("FINDING %s: %s -> %s (expected %s)" % (n, inp, observed, expected))
    else:
        print("finding %s did NOT reproduce: %s -> %s" % (n, inp, observed))


# --------------------------------------------------------------------------- #
# 1. Non-ASCII decimal digits are accepted as numbers and copied bare into SQL
# --------------------------------------------------------------------------- #
for flt in ("n eq ٣", "n gt 1.٥e１"):
    for name, V in DIALECTS:
        sql, exc = emit(flt, V)
        bad = sql is not None and not tokenisable(sql)
        extra = ""
        if name == "sqlite" and sql is not None:
            extra = " [sqlite3: %s]" % sqlite_check(sql)
        finding(
            "1/%s" % name,
            "filter %r" % flt,
            "%r%s" % (sql if exc is None else exc, extra),
            "a numeric literal in ASCII digits such as \"n\" = 3, or a refusal",
            bad,
        )

# --------------------------------------------------------------------------- #
# 2. Namespace of a dotted identifier is dropped: two different fields collapse
# --------------------------------------------------------------------------- #
for flt in ("a.b eq b", "ns1.total gt ns2.total"):
    for name, V in DIALECTS:
        sql, exc = emit(flt, V, "t")
        tree = parse(flt)
        distinct_fields = tree.left != tree.right
        same_sql = sql is not None and len(set(re.findall(r'"t"\."[^"]*"', sql))) == 1
        finding(
            "2/%s" % name,
            "filter %r (two different fields), alias 't'" % flt,
            repr(sql if exc is None else exc),
            "two different column references, e.g. \"t\".\"a.b\" = \"t\".\"b\", or a refusal",
            distinct_fields and same_sql,
        )

# --------------------------------------------------------------------------- #
# 3. Table alias (and hand-built identifiers) are not quoted safely
# --------------------------------------------------------------------------- #
for alias in ('my"alias', 't"."y'):
    for name, V in DIALECTS:
        sql, exc = emit("x eq 1", V, alias)
        escaped = '"%s"."x" = 1' % alias.replace('"', '""')
        extra = ""
        if name == "sqlite" and sql is not None:
            extra = " [sqlite3: %s]" % sqlite_check(sql)
        finding(
            "3/%s" % name,
            "filter 'x eq 1', table_alias=%r" % alias,
            "%r%s" % (sql if exc is None else exc, extra),
            "%r (embedded quote doubled) or a refusal" % escaped,
            sql is not None and sql != escaped,
        )
sql = AstToSqlVisitor().visit(ast.Compare(ast.Eq(), ast.Identifier('a"b'), ast.Integer("1")))
finding(
    "3/ast",
    "AST Compare(Eq, Identifier('a\"b'), Integer('1'))",
    repr(sql),
    "'\"a\"\"b\" = 1'",
    sql.count('"') % 2 == 1,
)

# --------------------------------------------------------------------------- #
# 4. A list (or null) as the pattern argument of contains/startswith/endswith
# --------------------------------------------------------------------------- #
for flt in (
    "contains(tolower(name), ('a','b'))",
    "startswith('abc', ('a',))",
):
    for name, V in DIALECTS:
        sql, exc = emit(flt, V)
        finding(
            "4/%s" % name,
            "filter %r" % flt,
            repr(sql if exc is None else exc),
            "the list elements 'a', 'b' as SQL literals in their place, or an odata_query exception; no Python repr text",
            sql is not None and "String(val=" in sql,
        )
for flt in ("endswith(tolower(name), null)",):
    for name, V in DIALECTS:
        sql, exc = emit(flt, V)
        finding(
            "4b/%s" % name,
            "filter %r" % flt,
            repr(sql if exc is None else exc),
            "SQL with NULL in the pattern position, or an odata_query exception",
            isinstance(exc, AttributeError),
        )

# --------------------------------------------------------------------------- #
# 5. Athena: different fields are rewritten to the same column
# --------------------------------------------------------------------------- #
for flt in ("Name eq name", "é eq è", "naamé gt naam_"):
    sql, exc = emit(flt, AstToAthenaSqlVisitor)
    m = re.fullmatch(r'("[^"]*") (?:=|>) ("[^"]*")', sql or "")
    finding(
        "5/athena",
        "filter %r (two different fields)" % flt,
        repr(sql if exc is None else exc),
        "two different column references (each field of the filter in its place)",
        bool(m) and m.group(1) == m.group(2),
    )

# --------------------------------------------------------------------------- #
# 6. Long (accepted) filters crash the visitors with RecursionError
# --------------------------------------------------------------------------- #
for label, flt in (
    ("600 comparisons joined by 'and'", " and ".join(["x eq 1"] * 600)),
    ("x eq 1 add 1 add ... (600 terms)", "x eq " + " add ".join(["1"] * 600)),
):
    for name, V in DIALECTS:
        sql, exc = emit(flt, V)
        finding(
            "6/%s" % name,
            label,
            repr(exc) if exc is not None else "SQL of %d chars" % len(sql),
            "the flat SQL chain (the parser accepts the filter)",
            isinstance(exc, RecursionError),
        )

# --------------------------------------------------------------------------- #
# 7. NUL character inside a string literal ends up raw in the SQL text
# --------------------------------------------------------------------------- #
flt = "name eq 'a\x00b'"
for name, V in DIALECTS:
    sql, exc = emit(flt, V)
    extra = ""
    if name == "sqlite" and sql is not None:
        extra = " [sqlite3: %s]" % sqlite_check(sql)
    finding(
        "7/%s" % name,
        "filter %r" % flt,
        "%r%s" % (sql if exc is None else exc, extra),
        "SQL text without a raw NUL (e.g. 'a' || CHAR(0) || 'b') or a refusal",
        sql is not None and "\x00" in sql,
    )

# --------------------------------------------------------------------------- #
# 8. Right-nested concat / and / or lose their nesting
# --------------------------------------------------------------------------- #
for flt, flat in (
    ("concat(a, concat(b, c)) eq 'x'", '"a" || "b" || "c" = \'x\''),
    ("a and (b and c)", '"a" AND "b" AND "c"'),
    ("a or (b or c)", '"a" OR "b" OR "c"'),
):
    for name, V in DIALECTS:
        sql, exc = emit(flt, V)
        finding(
            "8/%s" % name,
            "filter %r" % flt,
            repr(sql if exc is None else exc),
            "parentheses around the right operand (left-associative reading gives (a op b) op c)",
            sql == flat,
        )

# --------------------------------------------------------------------------- #
# 9. SQLite dialect emits INTERVAL syntax, which SQLite cannot parse
# --------------------------------------------------------------------------- #
flt = "x add duration'P1D' gt x"
sql, exc = emit(flt, AstToSqliteSqlVisitor)
res = sqlite_check(sql) if sql else ""
finding(
    "9/sqlite",
    "filter %r" % flt,
    "%r [sqlite3: %s]" % (sql if exc is None else exc, res),
    "an expression SQLite can parse, or a refusal",
    "syntax error" in res,
)

print("reproduced:", len(reproduced), "checks")
sys.exit(1 if reproduced else 0)
