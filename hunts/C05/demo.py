"""
Reproduces the C05 findings (parser grouping vs. the OData precedence table).

Run:  cd /tmp/sh_C05 && PYTHONPATH=/tmp/sh_C05 /venv/bin/python OUT/demo.py

Every finding builds an expression tree, renders it with a tiny reference
printer that knows only the OData 4.01 5.1.1.14 precedence table (minimal and
fully parenthesised renderings), parses the text with the library and compares
the result with the tree.
"""
import sys

from odata_query import ast as A
from odata_query.grammar import ODataLexer, ODataParser

LEXER = ODataLexer()
PARSER = ODataParser()

# OData 4.01 5.1.1.14, higher binds tighter
PREC = {
    A.Or: 1, A.And: 2, A.Eq: 3, A.NotEq: 3, A.Lt: 4, A.LtE: 4, A.Gt: 4, A.GtE: 4,
    A.Add: 5, A.Sub: 5, A.Mult: 6, A.Div: 6, A.Mod: 6, A.Not: 7, A.USub: 7, A.In: 8,
}
KW = {
    A.Or: "or", A.And: "and", A.Eq: "eq", A.NotEq: "ne", A.Lt: "lt", A.LtE: "le",
    A.Gt: "gt", A.GtE: "ge", A.Add: "add", A.Sub: "sub", A.Mult: "mul", A.Div: "div",
    A.Mod: "mod", A.In: "in",
}


def _op(n):
    if isinstance(n, (A.BinOp, A.BoolOp, A.UnaryOp)):
        return type(n.op)
    if isinstance(n, A.Compare):
        return type(n.comparator)
    return None


def _prec(n):
    o = _op(n)
    return PREC[o] if o else 100


def render(n, full=False):
    """Reference printer: minimal (full=False) or fully parenthesised."""

    def sub(child, parent_prec, right=False):
        s = render(child, full)
        cp = _prec(child)
        if full or cp < parent_prec or (right and cp == parent_prec):
            return "(" + s + ")"
        return s

    if isinstance(n, A.Identifier):
        return n.full_name()
    if isinstance(n, A.Attribute):
        return render(n.owner, full) + "/" + n.attr
    if isinstance(n, A.Null):
        return "null"
    if isinstance(n, A.String):
        return "'" + n.val.replace("'", "''") + "'"
    if isinstance(n, A.List):
        if len(n.val) == 1:
            return "(" + render(n.val[0], full) + ",)"
        return "(" + ", ".join(render(v, full) for v in n.val) + ")"
    if isinstance(n, A._Literal):
        return n.val
    if isinstance(n, (A.BinOp, A.BoolOp)):
        pp = PREC[type(n.op)]
        return sub(n.left, pp) + " " + KW[type(n.op)] + " " + sub(n.right, pp, True)
    if isinstance(n, A.Compare):
        pp = PREC[type(n.comparator)]
        if isinstance(n.comparator, A.In):
            return sub(n.left, pp) + " in " + render(n.right, full)
        return sub(n.left, pp) + " " + KW[type(n.comparator)] + " " + sub(n.right, pp, True)
    if isinstance(n, A.UnaryOp):
        s = sub(n.operand, PREC[type(n.op)])
        return ("not " if isinstance(n.op, A.Not) else "-") + s
    if isinstance(n, A.Call):
        return n.func.full_name() + "(" + ", ".join(render(a, full) for a in n.args) + ")"
    if isinstance(n, A.NamedParam):
        return n.name.full_name() + "=" + render(n.param, full)
    if isinstance(n, A.CollectionLambda):
        op = "any" if isinstance(n.operator, A.Any) else "all"
        inner = render(n.lambda_, full) if n.lambda_ else ""
        return render(n.owner, full) + "/" + op + "(" + inner + ")"
    if isinstance(n, A.Lambda):
        return render(n.identifier, full) + ": " + render(n.expression, full)
    raise TypeError(n)


def parse(text):
    try:
        return PARSER.parse(LEXER.tokenize(text))
    except Exception as exc:  # noqa
        return "%s(%s)" % (type(exc).__name__, str(exc)[:70])


def short(x):
    s = str(x)
    s = s.replace("namespace=()", "").replace("comparator=", "").replace(", )", ")")
    return s if len(s) < 230 else s[:227] + "..."


FOUND = 0


def finding(n, tree, full=False, text=None):
    """Render `tree` (or use `text`), parse it, report if the tree differs."""
    global FOUND
    text = render(tree, full) if text is None else text
    got = parse(text)
    if got != tree:
        FOUND += 1
        print("FINDING %s: %s -> %s (expected %s)" % (n, text, short(got), short(tree)))
    else:
        print("(finding %s does not reproduce: %s parsed to the expected tree)" % (n, text))


def control(tree, full):
    text = render(tree, full)
    got = parse(text)
    if got != tree:
        print("CONTROL BROKEN: %s -> %s" % (text, short(got)))


I = A.Identifier
one, two = A.Integer("1"), A.Integer("2")
lst = A.List([one, two])
x = I("x")

# sanity: the same shapes with an ordinary name parse to the expected tree
for full in (False, True):
    control(A.Compare(A.Eq(), I("a"), one), full)
    control(A.UnaryOp(A.USub(), A.Compare(A.In(), I("a"), lst)), full)
    control(A.Compare(A.Eq(), A.Attribute(I("p"), "q"), one), full)

# 1. a field / lambda variable called `not` as the LEFT operand of a binary operator
#    (minimal rendering; the fully parenthesised rendering `(not) eq (1)` is fine)
finding("1a", A.Compare(A.Eq(), I("not"), one))
finding("1b", A.Compare(A.In(), I("not"), lst))
finding("1c", A.BoolOp(A.And(), A.BinOp(A.Add(), I("not"), one), I("b")))
finding("1d", A.CollectionLambda(I("xs"), A.Any(), A.Lambda(I("not"), A.Compare(A.Eq(), I("not"), one))))
finding("1e", A.Compare(A.Eq(), A.UnaryOp(A.USub(), I("NOT")), one))

# 2. path segments called true / false / null (both renderings)
finding("2a", A.Compare(A.Eq(), A.Attribute(I("p"), "null"), one))
finding("2b", A.Compare(A.Eq(), A.Attribute(I("p"), "true"), one), full=True)
finding("2c", A.CollectionLambda(A.Attribute(I("p"), "false"), A.Any(), A.Lambda(x, A.Compare(A.Eq(), x, one))))

# 3. a namespace-qualified path segment silently loses its namespace
finding("3a", A.Compare(A.Eq(), A.Attribute(I("a"), "ns.b"), one))
finding("3b", A.CollectionLambda(A.Attribute(I("a"), "ns.b"), A.Any(), A.Lambda(x, A.Compare(A.Eq(), x, one))))
t1, t2 = parse("a/ns.b eq 1"), parse("a/b eq 1")
if t1 == t2:
    FOUND += 1
    print("FINDING 3c: a/ns.b eq 1 and a/b eq 1 -> identical trees %s (expected two different paths)" % short(t1))

# 4. Unicode case folding in the lexer: a field called `falſe` (U+017F) is read as a Boolean
finding("4a", A.Compare(A.Eq(), I("falſe"), one))
finding("4b", A.BoolOp(A.And(), I("falſe"), I("b")), full=True)

# 5. unary minus written directly in front of a digit is swallowed by the number,
#    so `in` no longer binds tighter than the minus (minimal rendering only)
finding("5a", A.UnaryOp(A.USub(), A.Compare(A.In(), one, lst)))
finding("5b", A.UnaryOp(A.USub(), A.Date("2000-01-01")))
finding("5c", A.UnaryOp(A.USub(), one))

# 6. explicit parentheses that the ABNF allows but the grammar rejects
finding("6a", A.Compare(A.In(), I("a"), lst), text="a in ((1, 2))")
finding("6b", A.Compare(A.Eq(), A.Attribute(I("p"), "q"), one), text="(p)/q eq 1")

sys.exit(1 if FOUND else 0)
