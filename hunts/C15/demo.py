"""
Reproduces the C15 findings (shorthands conjoin the filter with the incoming
query and leave the host intact).

Run as:  cd /tmp/sh_C15 && PYTHONPATH=/tmp/sh_C15 /venv/bin/python OUT/demo.py
Exit code 1 if at least one finding reproduces, 0 otherwise.
"""
import os
import sys
import types
import warnings

sys.path.insert(0, "/tmp/sh_C15")
warnings.simplefilter("ignore")

REPRODUCED = []


def report(n, text, reproduced):
    if reproduced:
        REPRODUCED.append(n)
        print(f"FINDING {n}: {text}")
    else:
        print(f"(finding {n} did not reproduce: {text})")


# --------------------------------------------------------------------------- #
# Import-order history: the host uses sqlalchemy.func BEFORE the backend import
# --------------------------------------------------------------------------- #
import sqlalchemy as sa  # noqa: E402
from sqlalchemy import (  # noqa: E402
    Boolean,
    Column,
    ForeignKey,
    Integer,
    String,
    column,
    create_engine,
    func,
    select,
)
from sqlalchemy.orm import Session, aliased, declarative_base, relationship  # noqa: E402

_f = func.odata.lower(column("x"))
FUNC_BEFORE = (str(_f), type(_f).__name__, repr(_f.type))

from odata_query.sqlalchemy import apply_odata_core, apply_odata_query  # noqa: E402

_f = func.odata.lower(column("x"))
FUNC_AFTER = (str(_f), type(_f).__name__, repr(_f.type))

# --------------------------------------------------------------------------- #
# SQLAlchemy models + data
# --------------------------------------------------------------------------- #
Base = declarative_base()


class Person(Base):
    __tablename__ = "sa_person"
    id = Column(Integer, primary_key=True)
    name = Column(String)


class Blog(Base):
    __tablename__ = "sa_blog"
    id = Column(Integer, primary_key=True)
    name = Column(String)
    owner_id = Column(Integer, ForeignKey("sa_person.id"), nullable=True)
    owner = relationship("Person", foreign_keys=[owner_id])
    posts = relationship("Post", back_populates="blog")


class Post(Base):
    __tablename__ = "sa_post"
    id = Column(Integer, primary_key=True)
    title = Column(String)
    rating = Column(Integer)
    published = Column(Boolean)
    blog_id = Column(Integer, ForeignKey("sa_blog.id"), nullable=True)
    blog = relationship("Blog", back_populates="posts")
    author_id = Column(Integer, ForeignKey("sa_person.id"), nullable=True)
    author = relationship("Person", foreign_keys=[author_id])


# An unrelated table that happens to be called like the relationship Post.author
author_table = sa.Table(
    "author",
    Base.metadata,
    Column("id", Integer, primary_key=True),
    Column("nick", String),
)

engine = create_engine("sqlite://")
Base.metadata.create_all(engine)
s = Session(engine)
p1, p2 = Person(id=1, name="ann"), Person(id=2, name="bob")
b1 = Blog(id=1, name="b1", owner=p1)
b2 = Blog(id=2, name="b2", owner=None)
b3 = Blog(id=3, name="b3", owner=p2)
s.add_all(
    [
        p1,
        p2,
        b1,
        b2,
        b3,
        Post(id=1, title="a", rating=1, published=True, blog=b1, author=p1),
        Post(id=2, title="b", rating=2, published=False, blog=b1, author=p2),
        Post(id=3, title="c", rating=3, published=True, blog=b2, author=None),
        Post(id=4, title="d", rating=4, published=False, blog=None, author=p1),
        Post(id=5, title="a", rating=5, published=True, blog=b3, author=None),
    ]
)
s.flush()
s.execute(author_table.insert().values([{"id": 1, "nick": "n1"}, {"id": 2, "nick": "n2"}]))
s.commit()


def sa_ids(q):
    try:
        return [r.id for r in s.execute(q).scalars().all()]
    except Exception as e:  # pragma: no cover
        return "ERR " + str(e).splitlines()[0][:120]


def expected(base, flt, model):
    """Oracle: rows of the base query whose pk also satisfies the filter on its own."""
    sat = set(sa_ids(apply_odata_query(select(model), flt)))
    return [i for i in sa_ids(base) if i in sat]


# ---- FINDING 1: joins needed inside a lambda body are never added ---------- #
flt = "posts/any(p: p/author/name eq 'ann')"
got = sa_ids(apply_odata_query(select(Blog), flt))
exp = [1]  # only blog 1 has a post written by ann
report(
    1,
    f"SQLAlchemy select(Blog) + {flt!r} -> blogs {got}, EXISTS(SELECT 1 FROM sa_post, sa_person ...) "
    f"is a cartesian product because Post.author is never joined (expected {exp})",
    got != exp,
)

# ---- FINDING 2: to-many path is joined, rows multiply ---------------------- #
flt = "posts/rating gt 0"
got = sa_ids(apply_odata_query(select(Blog), flt))
exp = [1, 2, 3]
report(
    2,
    f"SQLAlchemy select(Blog) + {flt!r} -> rows {got}: blog 1 is returned once per matching post "
    f"(expected each base row at most once: {exp})",
    sorted(got) != exp,
)

# ---- FINDING 3: joins wrongly recognised as 'already there' ---------------- #
ba = aliased(Blog)
variants = []
base = select(Post).join(Post.blog.of_type(ba))
flt = "blog/name eq 'b1'"
got = sa_ids(apply_odata_query(base, flt))
exp = expected(base, flt, Post)
variants.append(("select(Post).join(Post.blog.of_type(aliased(Blog)))", flt, got, exp))

base = select(Post).join(Post.blog.and_(Blog.name == "b2"), isouter=True)
got = sa_ids(apply_odata_query(base, flt))
exp = expected(base, flt, Post)
variants.append(("select(Post).join(Post.blog.and_(Blog.name=='b2'), isouter=True)", flt, got, exp))

base = select(Post).join(author_table, author_table.c.id == Post.author_id)
flt = "author/name eq 'ann'"
got = sa_ids(apply_odata_query(base, flt))
exp = expected(base, flt, Post)
variants.append(("select(Post).join(Table('author'), ...)", flt, got, exp))
for i, (b, f, got, exp) in enumerate(variants):
    report(
        "3" + "abc"[i],
        f"SQLAlchemy {b} + {f!r} -> posts {sorted(got) if isinstance(got, list) else got} "
        f"(expected {sorted(exp)}): the base join is taken for the join the filter needs",
        (sorted(got) if isinstance(got, list) else got) != sorted(exp),
    )

# ---- FINDING 4: the filter is pushed INSIDE the base query ----------------- #
base = select(Post).order_by(Post.id).limit(2)
flt = "rating gt 1"
got = sa_ids(apply_odata_query(base, flt))
exp = expected(base, flt, Post)
report(
    "4a",
    f"SQLAlchemy select(Post).order_by(Post.id).limit(2) [rows {sa_ids(base)}] + {flt!r} -> {got} "
    f"(expected {exp}): WHERE is applied before the base query's LIMIT",
    got != exp,
)
tbl = Post.__table__
base_c = select(tbl).order_by(tbl.c.id).limit(2)
got = [r.id for r in s.execute(apply_odata_core(base_c, flt))]
report(
    "4b",
    f"SQLAlchemy Core select(sa_post).order_by(id).limit(2) + {flt!r} -> {got} (expected {exp})",
    got != exp,
)
base = select(Blog).join(Blog.posts).group_by(Blog.id).having(func.count(Post.id) >= 2)
flt = "posts/rating gt 1"
got = sa_ids(apply_odata_query(base, flt))
exp = expected(base, flt, Blog)
report(
    "4c",
    f"SQLAlchemy select(Blog).join(Blog.posts).group_by(Blog.id).having(count(Post.id)>=2) [rows {sa_ids(base)}] "
    f"+ {flt!r} -> {got} (expected {exp}): WHERE changes the base query's own aggregate",
    got != exp,
)

# ---- FINDING 5: collection relationship compared to a value ---------------- #
flt = "posts eq 1"
q = apply_odata_query(select(Blog), flt)
got = sa_ids(q)
report(
    5,
    f"SQLAlchemy select(Blog) + {flt!r} -> rows {got} from 'FROM sa_blog, sa_post WHERE sa_post.blog_id = 1' "
    f"(expected: sa_post joined to sa_blog, i.e. at most [1], or a rejection)",
    isinstance(got, list) and sorted(set(got)) != [1],
)

# ---- FINDING 7: import changes func.odata.<name> --------------------------- #
report(
    7,
    f"func.odata.lower(x) before importing odata_query.sqlalchemy -> {FUNC_BEFORE}, after -> {FUNC_AFTER} "
    f"(expected identical)",
    FUNC_BEFORE != FUNC_AFTER,
)

# --------------------------------------------------------------------------- #
# Django
# --------------------------------------------------------------------------- #
import django  # noqa: E402
from django.apps import AppConfig  # noqa: E402
from django.conf import settings  # noqa: E402

_mod = types.ModuleType("c15demo")
_mod.__file__ = __file__
sys.modules["c15demo"] = _mod


class C15DemoConfig(AppConfig):
    name = "c15demo"
    path = os.path.dirname(os.path.abspath(__file__))


_mod.C15DemoConfig = C15DemoConfig
settings.configure(
    DATABASES={"default": {"ENGINE": "django.db.backends.sqlite3", "NAME": ":memory:"}},
    INSTALLED_APPS=["c15demo.C15DemoConfig"],
    DEFAULT_AUTO_FIELD="django.db.models.AutoField",
    USE_TZ=False,
)
django.setup()
from django.db import connection, models  # noqa: E402
from django.db.models import Count  # noqa: E402


class DBlog(models.Model):
    name = models.CharField(max_length=50)

    class Meta:
        app_label = "c15demo"


class DPost(models.Model):
    title = models.CharField(max_length=50)
    rating = models.IntegerField()
    blog = models.ForeignKey(DBlog, null=True, on_delete=models.CASCADE, related_name="posts")

    class Meta:
        app_label = "c15demo"


class Team(models.Model):
    name = models.CharField(max_length=20)
    teams = models.Manager()  # the host does not call its manager 'objects'

    class Meta:
        app_label = "c15demo"


class Member(models.Model):
    name = models.CharField(max_length=20)
    team = models.ForeignKey(Team, on_delete=models.CASCADE, related_name="members")
    people = models.Manager()

    class Meta:
        app_label = "c15demo"


class Doc(models.Model):
    data = models.JSONField(default=dict)

    class Meta:
        app_label = "c15demo"


with connection.schema_editor() as ed:
    for m in (DBlog, DPost, Team, Member, Doc):
        ed.create_model(m)
d1, d2 = DBlog.objects.create(id=1, name="b1"), DBlog.objects.create(id=2, name="b2")
DPost.objects.create(id=1, title="a", rating=1, blog=d1)
DPost.objects.create(id=2, title="b", rating=2, blog=d1)
DPost.objects.create(id=3, title="c", rating=3, blog=d2)
t = Team.teams.create(id=1, name="t")
Member.people.create(name="m", team=t)
Doc.objects.create(id=1, data={"ne": 5})
Doc.objects.create(id=2, data={"ne": 6})

json_before = list(Doc.objects.filter(data__ne=5).values_list("id", flat=True))

from odata_query.django import apply_odata_query as dj_apply  # noqa: E402

json_after = list(Doc.objects.filter(data__ne=5).values_list("id", flat=True))

# ---- FINDING 2 (Django variants) ------------------------------------------- #
flt = "posts/rating gt 0"
got = [b.id for b in dj_apply(DBlog.objects.order_by("id"), flt)]
report(
    "2b",
    f"Django DBlog.objects.order_by('id') + {flt!r} -> rows {got} (expected [1, 2])",
    got != [1, 2],
)
base = DBlog.objects.annotate(n=Count("posts")).order_by("id")
before = [(b.id, b.n) for b in base]
after = [(b.id, b.n) for b in dj_apply(base, flt)]
report(
    "2c",
    f"Django DBlog.objects.annotate(n=Count('posts')) {before} + {flt!r} -> {after}: the base annotation is "
    f"inflated by the second join of 'posts' (expected {before})",
    after != before,
)
base = DBlog.objects.annotate(n=Count("posts")).filter(n=2)
before = [b.id for b in base]
after = [b.id for b in dj_apply(base, flt)]
report(
    "2d",
    f"Django DBlog.objects.annotate(n=Count('posts')).filter(n=2) [rows {before}] + {flt!r} -> rows {after} "
    f"(expected {before}; blog 1 has posts with rating > 0)",
    after != before,
)

# ---- FINDING 6: lambda needs <related model>.objects ----------------------- #
flt = "members/any(m: m/name eq 'm')"
try:
    got = [x.id for x in dj_apply(Team.teams, flt)]
except Exception as e:
    got = f"{type(e).__name__}: {e}"
report(
    6,
    f"Django apply_odata_query(Team.teams, {flt!r}) -> {got} (expected [1]); the plain path "
    f"'members/name eq \\'m\\'' works: {[x.id for x in dj_apply(Team.teams, 'members/name eq ' + repr('m'))]}",
    got != [1],
)

# ---- NOTE (adjacent to 'leave the host intact', Django import) ------------- #
if json_before != json_after:
    print(
        f"NOTE A: host query Doc.objects.filter(data__ne=5) (JSON key 'ne') -> {json_before} before importing "
        f"odata_query.django, {json_after} after (global 'ne' lookup registered on every Field)"
    )

print()
print("reproduced:", REPRODUCED)
sys.exit(1 if REPRODUCED else 0)
