"""
Reproduces the violations of the property
"Type inference never reports a wrong type" found in this worktree.

Run as:
    cd /tmp/sh_C18 && PYTHONPATH=/tmp/sh_C18 /venv/bin/python OUT/demo.py
"""
import sys

sys.path.insert(0, "/tmp/sh_C18")

import sqlalchemy as sa

from odata_query import ast, exceptions as ex, typing
from odata_query.grammar import ODataLexer, ODataParser
from odata_query.sql import AstToSqlVisitor
from odata_query.sql.athena import AstToAthenaSqlVisitor
from odata_query.sql.sqlite import AstToSqliteSqlVisitor
from odata_query.sqlalchemy.shorthand import apply_odata_core


def parse(text):
    return ODataParser().parse(ODataLexer().tokenize(text))


def tname(t):
    return "unknown" if t is None else t.__name__


reproduced = 0

###############################################################################
# FINDING 1: a field whose name matches a literal keyword only through Unicode
# case folding (U+017F LATIN SMALL LETTER LONG S) is typed as a Boolean literal
###############################################################################
FIELD = "falſe"  # 'falſe' - a valid odataIdentifier (all letters, category Ll)

# 1a. the inferred type of the bare field
node = parse(FIELD)
got = typing.infer_type(node)
control = typing.infer_type(parse("falze"))  # any other field: unknown
if got is not None:
    reproduced += 1
    print(
        f"FINDING 1: infer_type(parse({FIELD!r})) -> {tname(got)}, node={node!r} "
        f"(expected unknown: it is a field name, like 'falze' -> {tname(control)})"
    )

# 1b. a well-typed call on that (string) column is rejected by the type check
md = sa.MetaData()
tbl = sa.Table(
    "item",
    md,
    sa.Column("id", sa.Integer, primary_key=True),
    sa.Column("name", sa.String),
    sa.Column(FIELD, sa.String),
)
eng = sa.create_engine("sqlite://")
md.create_all(eng)
with eng.begin() as conn:
    conn.execute(tbl.insert().values({"id": 1, "name": "abc", FIELD: "abc"}))

for query in (f"contains({FIELD}, 'b')", f"startswith(tolower({FIELD}), 'a')"):
    with eng.connect() as conn:
        ctl_query = query.replace(FIELD, "name")
        ctl = conn.execute(apply_odata_core(sa.select(tbl.c.id), ctl_query)).fetchall()
        try:
            rows = conn.execute(apply_odata_core(sa.select(tbl.c.id), query)).fetchall()
            observed = f"rows {rows}"
            bad = rows != ctl
        except ex.ArgumentTypeException as e:
            observed = f"ArgumentTypeException({e})"
            bad = True
    if bad:
        reproduced += 1
        print(
            f"FINDING 1: SQLAlchemy core, String column {FIELD!r}: {query} -> {observed} "
            f"(expected rows {ctl}, as for the identical column 'name': a type check "
            f"never rejects a well-typed call)"
        )

# 1c. same through the SQL visitors: the column silently becomes the constant 0
sql = AstToSqliteSqlVisitor().visit(parse(f"contains({FIELD}, 'b')"))
if FIELD not in sql:
    reproduced += 1
    print(
        f"FINDING 1: SQLite visitor: contains({FIELD}, 'b') -> {sql!r} "
        f"(expected '\"{FIELD}\" LIKE ...': the first argument is a field, not the literal false)"
    )

# 1d. and through the Django backend
import django
from django.conf import settings

settings.configure(
    DATABASES={"default": {"ENGINE": "django.db.backends.sqlite3", "NAME": ":memory:"}},
    INSTALLED_APPS=["django.contrib.contenttypes"],
)
django.setup()
from django.db import connection, models  # noqa: E402

from odata_query.django.shorthand import apply_odata_query  # noqa: E402


class _Meta:
    app_label = "demo"


Item = type(
    "Item",
    (models.Model,),
    {
        "__module__": "demo",
        "Meta": _Meta,
        "name": models.CharField(max_length=9),
        FIELD: models.CharField(max_length=9),
    },
)
with connection.schema_editor() as editor:
    editor.create_model(Item)
Item.objects.create(**{"name": "abc", FIELD: "abc"})
ctl = [o.pk for o in apply_odata_query(Item.objects.all(), "contains(name, 'b')")]
try:
    rows = [o.pk for o in apply_odata_query(Item.objects.all(), f"contains({FIELD}, 'b')")]
    observed, bad = f"rows {rows}", rows != ctl
except ex.ArgumentTypeException as e:
    observed, bad = f"ArgumentTypeException({e})", True
if bad:
    reproduced += 1
    print(
        f"FINDING 1: Django, CharField {FIELD!r}: contains({FIELD}, 'b') -> {observed} "
        f"(expected rows {ctl}, as for the identical field 'name')"
    )

###############################################################################
# FINDING 2: the type check of the SQL visitors does not reject a literal of a
# kind outside the allowed set as soon as the *other* argument is a string
###############################################################################
CASES = [
    "contains('abc', 1)",
    "contains(1, 'a')",
    "startswith('abc', true)",
    "endswith(2020-01-01, 'a')",
    "contains('abc', ('a', 'b'))",
    "indexof('abc', 1.5) eq 1",
    "indexof(duration'P1D', 'a') eq 1",
]
VISITORS = (AstToSqlVisitor, AstToSqliteSqlVisitor, AstToAthenaSqlVisitor)
# control: the same visitors do reject the literal when it sits next to a field
controls = []
for visitor_cls in VISITORS:
    try:
        visitor_cls().visit(parse("contains(name, 1)"))
        controls.append("accepted")
    except ex.ArgumentTypeException:
        controls.append("ArgumentTypeException")

for query in CASES:
    accepted = []
    for visitor_cls in VISITORS:
        try:
            accepted.append((visitor_cls.__name__, visitor_cls().visit(parse(query))))
        except ex.ODataException:
            pass
    if accepted:
        reproduced += 1
        print(
            f"FINDING 2: {query} -> accepted by {[n for n, _ in accepted]}, "
            f"e.g. SQL {accepted[0][1]!r} (expected ArgumentTypeException, as "
            f"contains(name, 1) gives {sorted(set(controls))}: a literal of a kind "
            f"outside the allowed set must be rejected)"
        )

sys.exit(1 if reproduced else 0)
