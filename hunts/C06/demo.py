"""
Reproduces the violations of property C06 ("every literal and identifier is
recognised as its own kind with its exact value") described in findings.md.

Run:  cd /tmp/sh_C06 && PYTHONPATH=/tmp/sh_C06 /venv/bin/python OUT/demo.py
"""
import datetime as dt
import sys

from odata_query import ast
from odata_query.grammar import ODataLexer, ODataParser


def parse(src):
    return ODataParser().parse(ODataLexer().tokenize(src))


def attempt(src):
    """Returns (ast, None) or (None, 'ExceptionName')."""
    try:
        return parse(src), None
    except Exception as e:  # noqa
        return None, type(e).__name__


reproduced = 0


def report(n, src, observed, expected, is_violation):
    global reproduced
    if is_violation:
        reproduced += 1
        print(f"FINDING {n}: {src!r} -> {observed} (expected {expected})")
    else:
        print(f"finding {n} not reproduced: {src!r} -> {observed}")


# ---------------------------------------------------------------------------
# 1. Dates / date-times whose year is 0001..0999 are not recognised
# ---------------------------------------------------------------------------
for src, cls, exp in [
    ("x eq 0001-01-01", ast.Date, dt.date(1, 1, 1)),
    ("x eq 0999-12-31", ast.Date, dt.date(999, 12, 31)),
    (
        "x eq 0001-01-01T00:00:00Z",
        ast.DateTime,
        dt.datetime(1, 1, 1, tzinfo=dt.timezone.utc),
    ),
]:
    tree, err = attempt(src)
    ok = (
        tree is not None
        and type(tree.right) is cls
        and tree.right.py_val == exp
    )
    report(
        1,
        src,
        err or repr(tree),
        f"{cls.__name__} literal with py_val {exp!r}",
        not ok,
    )

# ---------------------------------------------------------------------------
# 2. Namespace of a non-root path segment is silently dropped
# ---------------------------------------------------------------------------
for qualified, plain in [
    ("a/ns.b eq 1", "a/b eq 1"),
    ("a/ns.T/c eq 1", "a/T/c eq 1"),
    ("a/my.ns.b/any(v:v/other.d eq 1)", "a/b/any(v:v/d eq 1)"),
]:
    t1, e1 = attempt(qualified)
    t2, e2 = attempt(plain)
    same = t1 is not None and t1 == t2
    report(
        2,
        qualified,
        f"AST identical to that of {plain!r}: {t1!r}" if same else (e1 or repr(t1)),
        "the namespace of the qualified segment split off and kept, "
        "as it is for the root segment",
        same,
    )

# ---------------------------------------------------------------------------
# 3. Identifiers spelled like a keyword in positions where only a name can be
# ---------------------------------------------------------------------------
a = ast.Identifier("a")
one = ast.Integer("1")
cases3 = [
    ("a/null eq 1", ast.Compare(ast.Eq(), ast.Attribute(a, "null"), one)),
    ("a/true eq 1", ast.Compare(ast.Eq(), ast.Attribute(a, "true"), one)),
    ("a/false/b eq 1",
     ast.Compare(ast.Eq(), ast.Attribute(ast.Attribute(a, "false"), "b"), one)),
    ("null/a eq 1",
     ast.Compare(ast.Eq(), ast.Attribute(ast.Identifier("null"), "a"), one)),
    ("ns.f(null=1)",
     ast.Call(ast.Identifier("f", ("ns",)),
              [ast.NamedParam(ast.Identifier("null"), one)])),
    ("a/any(true:true/b eq 1)",
     ast.CollectionLambda(
         a, ast.Any(),
         ast.Lambda(ast.Identifier("true"),
                    ast.Compare(ast.Eq(),
                                ast.Attribute(ast.Identifier("true"), "b"),
                                one)))),
    ("not eq 1", ast.Compare(ast.Eq(), ast.Identifier("not"), one)),
    ("a add not eq 1",
     ast.Compare(ast.Eq(), ast.BinOp(ast.Add(), a, ast.Identifier("not")), one)),
]
for src, exp in cases3:
    tree, err = attempt(src)
    report(3, src, err or repr(tree), repr(exp), tree != exp)

# ---------------------------------------------------------------------------
# 4. Qualified name whose parts are each within 128 chars but whose total
#    number of word characters exceeds 128
# ---------------------------------------------------------------------------
for ns, name in [("ns", "a" * 128), ("n" * 100, "a" * 100)]:
    src = f"{ns}.{name} eq 1"
    tree, err = attempt(src)
    exp = ast.Compare(ast.Eq(), ast.Identifier(name, (ns,)), one)
    shown = f"{ns[:3]}..({len(ns)}).{name[:3]}..({len(name)}) eq 1"
    report(
        4,
        shown,
        err or "different AST",
        f"Identifier(name=<{len(name)} chars>, namespace=(<{len(ns)} chars>,))",
        tree != exp,
    )

# ---------------------------------------------------------------------------
# 5. Identifier 'falſe' (LATIN SMALL LETTER LONG S) is lexed as a boolean
# ---------------------------------------------------------------------------
for src, get in [
    ("falſe eq 1", lambda t: t.left),
    ("x eq falſe", lambda t: t.right),
    ("a/any(v:v/b eq FALſE)", lambda t: t.lambda_.expression.right),
]:
    tree, err = attempt(src)
    node = get(tree) if tree is not None else None
    name = src.split()[0] if src.startswith("fal") else (
        "FALſE" if "FAL" in src else "falſe")
    report(
        5,
        src,
        err or repr(node),
        f"Identifier(name={name!r}, namespace=())",
        node != ast.Identifier(name),
    )

sys.exit(1 if reproduced else 0)
