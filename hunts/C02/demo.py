"""
Reproduces violations of

    "Django apply_odata_query returns exactly the objects the filter denotes"

Run as:  cd /tmp/sh_C02 && PYTHONPATH=/tmp/sh_C02 /venv/bin/python OUT/demo.py

Every check goes through the public shorthand
``odata_query.django.apply_odata_query(queryset, filter_text)`` on an
in-memory SQLite database.  Rows are identified by their ``k`` label.
Exit code 1 if at least one finding reproduces, 0 otherwise.
"""
import datetime as dt
import decimal
import sys
import types
import warnings

warnings.simplefilter("ignore")
sys.path.insert(0, "/tmp/sh_C02")

import django
from django.conf import settings

app = types.ModuleType("demoapp")
app.__file__ = __file__
app.__path__ = []
sys.modules["demoapp"] = app

settings.configure(
    DATABASES={"default": {"ENGINE": "django.db.backends.sqlite3", "NAME": ":memory:"}},
    INSTALLED_APPS=["demoapp"],
    USE_TZ=True,
    TIME_ZONE="UTC",
    DEFAULT_AUTO_FIELD="django.db.models.AutoField",
)
django.setup()

from django.db import connection, models  # noqa: E402

from odata_query.django import apply_odata_query  # noqa: E402


class Row(models.Model):
    k = models.CharField(max_length=10)
    i = models.IntegerField(null=True)
    j = models.IntegerField(null=True)
    f = models.FloatField(null=True)
    d = models.DecimalField(null=True, max_digits=12, decimal_places=4)
    s = models.CharField(null=True, max_length=100)
    x = models.TextField(null=True)
    b = models.BooleanField(null=True)
    c = models.BooleanField(null=True)
    dt = models.DateTimeField(null=True)
    ti = models.TimeField(null=True)
    du = models.DurationField(null=True)
    up = models.ForeignKey("self", null=True, on_delete=models.CASCADE)

    class Meta:
        app_label = "demoapp"


class Flags(models.Model):
    """A model with (perfectly legal) boolean columns called _negated / _connector."""

    k = models.CharField(max_length=10)
    _negated = models.BooleanField(null=True)
    _connector = models.BooleanField(null=True)

    class Meta:
        app_label = "demoapp"


assert not Flags.check(), Flags.check()

with connection.schema_editor() as editor:
    editor.create_model(Row)
    editor.create_model(Flags)
# Judge LIKE-based functions case-sensitively (not needed by any finding below).
connection.cursor().execute("PRAGMA case_sensitive_like=ON")

UTC = dt.timezone.utc
r1 = Row.objects.create(
    k="r1", i=1, j=2, f=2.5, d=decimal.Decimal("0.1"), s="abc", x="abc", b=True, c=True,
    dt=dt.datetime(2020, 1, 1, 0, 0, 0, 123456, tzinfo=UTC), ti=dt.time(12, 30, 0, 123456),
    du=dt.timedelta(0),
)
r2 = Row.objects.create(
    k="r2", i=3, j=2, f=5.5, d=decimal.Decimal("0.3"), s="ÀB", x="a\x00b", b=False, c=False,
    dt=dt.datetime(2020, 1, 1, 0, 0, 0, tzinfo=UTC), ti=dt.time(12, 30, 0),
    du=dt.timedelta(seconds=99999999999), up=r1,
)
r3 = Row.objects.create(
    k="r3", i=5, j=7, f=-2.5, d=decimal.Decimal("2.5"), s="\ta\n", x="", b=None, c=None,
    dt=dt.datetime(2019, 12, 31, 23, 0, 0, tzinfo=UTC), ti=dt.time(1, 0, 0),
    du=dt.timedelta(seconds=99999999999, microseconds=1), up=None,
)
ALL = ["r1", "r2", "r3"]

Flags.objects.create(k="t", _negated=True, _connector=True)
Flags.objects.create(k="f", _negated=False, _connector=False)
Flags.objects.create(k="n", _negated=None, _connector=None)

found = 0


def observe(model, flt):
    try:
        qs = apply_odata_query(model.objects.all(), flt)
        return sorted(qs.values_list("k", flat=True))
    except Exception as e:  # noqa
        return "%s: %s" % (type(e).__name__, str(e)[:70])


def check(n, flt, expected, model=Row, note="", control=False):
    """expected: list of labels, or the string 'error' if the filter denotes nothing."""
    global found
    got = observe(model, flt)
    if expected == "error":
        bad = isinstance(got, list)
    else:
        bad = got != sorted(expected)
    shown = ascii(flt)[1:-1]
    if len(shown) > 100:
        shown = shown[:45] + " ...[%d chars]... " % len(shown) + shown[-25:]
    if control:
        print("   (control %s: %s -> %s, %s)" % (n, flt, got, "as expected" if not bad else "UNEXPECTED"))
    elif bad:
        found += 1
        print(
            "FINDING %s: %s -> %s (expected %s)%s"
            % (n, shown, got, expected, " " + note if note else "")
        )
    else:
        print("   (not reproduced %s: %s -> %s)" % (n, flt, got))


# 1. A comparison whose *both* operands are comparisons: Django's "does the rhs SQL start
#    with '('" heuristic leaves the right comparison unparenthesised.
check("1a", "(i gt 1) ne ((i add 1) eq 2)", ALL)
check("1b", "(i gt 1) ne (concat(s, 'x') eq 'abcx')", ALL)
check("1c", "contains(s, 'a') eq (length(s) sub 1 eq 2)", ALL)
check("1d", "(i gt 1) eq ((i add 1) eq null)", ["r1"])
check("1e", "(j eq 2) ne (indexof(s, 'c') eq 2)", ["r2"])

# 2. Null test of a literal used as a comparison operand: Django answers IsNull(Value) with
#    EmptyResultSet / FullResultSet, which swallows the enclosing comparison.
check("2a", "(1 eq null) eq false", ALL)
check("2b", "(1 ne null) eq false", [])
check("2c", "(i eq 1) eq ('a' eq null)", ["r2", "r3"])
check("2d", "b ne (1 ne null)", ["r2"])

# 3. Null test of a negation: rendered as  NOT (...) IS NULL  ==  NOT ((...) IS NULL).
check("3a", "(not (c eq true)) eq null", ["r3"],
      note="[r3 under 3-valued logic, [] under strict 4.01 eq; never the rows where c is not null]")
check("3b", "(not (c eq true)) ne null", ["r1", "r2"])
check("3c", "null eq (not (i gt 1))", [])

# 4. A boolean column called _negated / _connector used as a bare boolean filter is passed to
#    Q(**{name: True}) and hits Q's own keyword arguments.
check("4a", "_negated", ["t"], model=Flags)
check("4b", "not _negated", ["f"], model=Flags)
check("4c", "_connector", ["t"], model=Flags)
check("4d", "_negated eq true", ["t"], model=Flags, control=True)

# 5. Negated bare boolean field: NULL rows are returned (not null is null, not true);
#    inconsistent with `not (b eq true)` and `b eq false`.
check("5a", "not b", ["r2"])
check("5b", "not (b eq true)", ["r2"], control=True)
check("5c", "not up/b", [], note="[r1/r3 have no parent, r2's parent has b=true]")

# 6. Temporal literals finer than a microsecond are silently truncated / rounded, and
#    durations go through a float.
check("6a", "dt eq 2020-01-01T00:00:00.1234567Z", [])
check("6b", "dt lt 2020-01-01T00:00:00.1234567Z", ALL)
check("6c", "ti eq 12:30:00.1234567", [])
check("6d", "ti ge 12:30:00.0000001", ["r1"])
check("6e", "du eq duration'PT0.0000004S'", [])
check("6f", "du eq duration'PT99999999999.000001S'", ["r3"])
check("6g", "du lt duration'PT99999999999.000001S'", ["r1", "r2"])

# 7. mod on non-integers: SQLite's % casts both operands to INTEGER.
check("7a", "f mod 2 eq 0.5", ["r1"])
check("7b", "f mod 2 eq 1.5", ["r2"])
check("7c", "f mod 2 eq 0", [])
check("7d", "i mod 1.5 eq 0.5", ["r3"])
check("7e", "5.5 mod 2 eq 1.5", ALL)

# 8. String functions inherit SQLite's ASCII-only / NUL-terminated behaviour.
check("8a", "tolower(s) eq 'àb'", ["r2"])
check("8c", "trim(s) eq 'a'", ["r3"])
check("8d", "length(x) eq 3", ["r1", "r2"])
check("8e", "substring(x, 1) eq '\x00b'", ["r2"])

# 9. Well-typed filters that raise instead of returning a QuerySet.
check("9a", "i lt 9223372036854775808", ALL)
check("9b", "concat(x, 'z') eq 'abcz'", ["r1"])
check("9c", "d add 0.2 lt 0.4", ["r1"])
check("9d", "du mul 2 eq duration'PT0S'", ["r1"])
check("9e", "dt lt 9999-12-31T23:59:59-01:00", ALL)
check("9f", " or ".join("i eq %d" % n for n in range(400)), ALL)

# 10. Names that do not denote a property of the model are silently resolved to something else.
check("10a", "no.such.namespace.i eq 1", "error")
check("10b", "s/length eq 3", "error")
check("10c", "dt/year eq 2020", "error")
check("10d", "_negated eq true or i eq 1", "error", control=True)  # Row has no _negated -> FieldError
check("10e", "_negated", "error", note="[Row has no field _negated at all]")

print("%d finding line(s) reproduced" % found)
sys.exit(1 if found else 0)
