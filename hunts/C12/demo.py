"""
Reproduces the violations of the property
"A backend that cannot express a construct refuses it instead of mistranslating"
described in OUT/findings.md.

Run as:  cd /tmp/sh_C12 && PYTHONPATH=/tmp/sh_C12 /venv/bin/python OUT/demo.py
Prints one line per finding; exit code 1 if at least one finding reproduces.
"""
import sqlite3
import sys
import types
import warnings

sys.path.insert(0, "/tmp/sh_C12")
warnings.simplefilter("ignore")

###############################################################################
# Django set-up (in-memory SQLite, models registered in a synthetic app "h")
###############################################################################
import django
from django.apps import AppConfig
from django.conf import settings

_mod = types.ModuleType("h")
_mod.__path__ = []
_mod.__file__ = "/tmp/sh_C12/OUT/h/__init__.py"
sys.modules["h"] = _mod


class HConfig(AppConfig):
    name = "h"
    path = "/tmp/sh_C12/OUT"
    default_auto_field = "django.db.models.AutoField"


_mod.HConfig = HConfig
settings.configure(
    DATABASES={"default": {"ENGINE": "django.db.backends.sqlite3", "NAME": ":memory:"}},
    INSTALLED_APPS=["django.contrib.contenttypes", "h.HConfig"],
    USE_TZ=False,
)
django.setup()
from django.db import connection, models


class Author(models.Model):
    name = models.CharField(max_length=128)
    age = models.IntegerField(null=True)

    class Meta:
        app_label = "h"


class BlogPost(models.Model):
    published_at = models.DateTimeField(null=True)
    title = models.CharField(max_length=128)
    content = models.TextField(null=True)
    rating = models.FloatField(null=True)
    is_live = models.BooleanField(default=False)
    authors = models.ManyToManyField(Author, related_name="blogposts")

    class Meta:
        app_label = "h"


class Comment(models.Model):
    content = models.TextField()
    author = models.ForeignKey(
        Author, on_delete=models.CASCADE, related_name="comments", null=True
    )
    blogpost = models.ForeignKey(
        BlogPost, on_delete=models.CASCADE, related_name="comments"
    )

    class Meta:
        app_label = "h"


with connection.schema_editor() as se:
    for m in (Author, BlogPost, Comment):
        se.create_model(m)

d_alice = Author.objects.create(id=1, name="alice")
d_bob = Author.objects.create(id=2, name="bob")
d_p1 = BlogPost.objects.create(id=1, title="p1", content="c", rating=1.0)
d_p2 = BlogPost.objects.create(id=2, title="p2", content="c", rating=2.0)
# comment 7 on post 1 written by alice; nobody commented on post 2
Comment.objects.create(id=7, content="hello", author=d_alice, blogpost=d_p1)

###############################################################################
# SQLAlchemy set-up (in-memory SQLite)
###############################################################################
import sqlalchemy as sa
from sqlalchemy.orm import Session, declarative_base, relationship

Base = declarative_base()
author_blogpost = sa.Table(
    "author_blogpost",
    Base.metadata,
    sa.Column("author_id", sa.Integer, sa.ForeignKey("author.id")),
    sa.Column("blogpost_id", sa.Integer, sa.ForeignKey("blogpost.id")),
)


class SAuthor(Base):
    __tablename__ = "author"
    id = sa.Column(sa.Integer, primary_key=True)
    name = sa.Column(sa.String, nullable=False)
    age = sa.Column(sa.Integer)
    blogposts = relationship(
        "SBlogPost", back_populates="authors", secondary=author_blogpost
    )
    comments = relationship("SComment", back_populates="author")


class SBlogPost(Base):
    __tablename__ = "blogpost"
    id = sa.Column(sa.Integer, primary_key=True)
    published_at = sa.Column(sa.DateTime)
    title = sa.Column(sa.String, nullable=False)
    content = sa.Column(sa.Text)
    rating = sa.Column(sa.Float)
    is_live = sa.Column(sa.Boolean)
    authors = relationship(
        "SAuthor", back_populates="blogposts", secondary=author_blogpost
    )
    comments = relationship("SComment", back_populates="blogpost")


class SComment(Base):
    __tablename__ = "comment"
    id = sa.Column(sa.Integer, primary_key=True)
    content = sa.Column(sa.Text)
    author_id = sa.Column(sa.Integer, sa.ForeignKey("author.id"))
    author = relationship("SAuthor", back_populates="comments")
    blogpost_id = sa.Column(sa.Integer, sa.ForeignKey("blogpost.id"))
    blogpost = relationship("SBlogPost", back_populates="comments")


class SPerson(Base):
    __tablename__ = "person"
    id = sa.Column(sa.Integer, primary_key=True)
    name = sa.Column(sa.String)
    manager_id = sa.Column(sa.Integer, sa.ForeignKey("person.id"))
    manager = relationship("SPerson", remote_side=[id], back_populates="reports")
    reports = relationship("SPerson", back_populates="manager")


class SDoc(Base):
    __tablename__ = "doc"
    id = sa.Column(sa.Integer, primary_key=True)
    title = sa.Column(sa.String)
    author_id = sa.Column(sa.Integer, sa.ForeignKey("person.id"))
    reviewer_id = sa.Column(sa.Integer, sa.ForeignKey("person.id"))
    author = relationship("SPerson", foreign_keys=[author_id])
    reviewer = relationship("SPerson", foreign_keys=[reviewer_id])


engine = sa.create_engine("sqlite://")
Base.metadata.create_all(engine)
session = Session(engine)
session.add_all(
    [
        SAuthor(id=1, name="alice"),
        SAuthor(id=2, name="bob"),
        SBlogPost(id=1, title="p1", content="c", rating=1.0),
        SBlogPost(id=2, title="p2", content="c", rating=2.0),
        SComment(id=7, content="hello", author_id=1, blogpost_id=1),
        SPerson(id=1, name="boss"),
        SPerson(id=2, name="alice", manager_id=1),
        SPerson(id=3, name="bob", manager_id=1),
        SDoc(id=1, title="d1", author_id=2, reviewer_id=3),
    ]
)
session.commit()

###############################################################################
# Library
###############################################################################
from odata_query import exceptions as ex
from odata_query.django.django_q import AstToDjangoQVisitor
from odata_query.django.shorthand import apply_odata_query as dj_apply
from odata_query.grammar import ODataLexer, ODataParser
from odata_query.roundtrip import AstToODataVisitor
from odata_query.sql import AstToSqlVisitor
from odata_query.sql.athena import AstToAthenaSqlVisitor
from odata_query.sql.sqlite import AstToSqliteSqlVisitor
from odata_query.sqlalchemy.core import AstToSqlAlchemyCoreVisitor
from odata_query.sqlalchemy.orm import AstToSqlAlchemyOrmVisitor
from odata_query.sqlalchemy.shorthand import (
    apply_odata_core as sa_core_apply,
    apply_odata_query as sa_apply,
)

_lexer = ODataLexer()


def parse(s):
    return ODataParser().parse(_lexer.tokenize(s))


def outcome(fn):
    """Returns ('ok', value) | ('lib', exc) | ('leak', exc)."""
    try:
        return "ok", fn()
    except ex.ODataException as e:
        return "lib", e
    except Exception as e:  # noqa
        return "leak", e


def describe(kind, val):
    if kind == "ok":
        return "returns " + " ".join(str(val).split())[:160]
    return "%s %s: %s" % (
        "raises library" if kind == "lib" else "LEAKS",
        type(val).__name__,
        " ".join(str(val).split())[:110],
    )


def where(compiled):
    s = " ".join(str(compiled).split())
    return s.split(" WHERE ", 1)[1] if " WHERE " in s else "<no WHERE clause>"


def orm_rows(model, flt):
    q = sa_apply(sa.select(model), flt)
    sql = where(q.compile(engine, compile_kwargs={"literal_binds": True}))
    rows = [getattr(r[0], "title", None) or r[0].name for r in session.execute(q).all()]
    return sql, rows


def orm_clause(model, flt):
    w = AstToSqlAlchemyOrmVisitor(model).visit(parse(flt))
    return where(sa.select(model.id).filter(w).compile(engine, compile_kwargs={"literal_binds": True}))


def core_clause(table, flt):
    q = sa_core_apply(sa.select(table.c.id), flt)
    return where(q.compile(engine, compile_kwargs={"literal_binds": True}))


def dj_rows(model, flt):
    qs = dj_apply(model.objects.all(), flt)
    sql = where(qs.query)
    return sql, [o.title for o in qs]


FOUND = []


def finding(n, inp, observed, expected, reproduced):
    if reproduced:
        FOUND.append(n)
    print(
        "FINDING %s%s: %s -> %s (expected %s)"
        % (n, "" if reproduced else " [NOT REPRODUCED]", inp, observed, expected)
    )


###############################################################################
# 1. ORM: path hops inside a lambda body are dropped (sub-visitor joins discarded)
###############################################################################
flt = "comments/any(c: c/author/name eq 'bob')"
k, v = outcome(lambda: orm_rows(SBlogPost, flt))
finding(
    "1a",
    "SQLAlchemy ORM " + flt + " [bob wrote no comment at all]",
    "WHERE %s ; rows=%s" % v if k == "ok" else describe(k, v),
    "rows=[] (a join comment.author_id = author.id) or a refusal",
    k == "ok" and v[1] == ["p1"] and "author_id" not in v[0],
)
flt = "reports/any(r: r/manager/name eq 'boss')"
k, v = outcome(lambda: orm_rows(SPerson, flt))
finding(
    "1b",
    "SQLAlchemy ORM " + flt + " [boss manages alice and bob]",
    "WHERE %s ; rows=%s" % v if k == "ok" else describe(k, v),
    "rows=['boss'] (hop r/manager represented) or a refusal",
    k == "ok" and v[1] == [] and "person_1.name = 'boss'" in v[0],
)

###############################################################################
# 2. List-typed operands outside `in` (SQLAlchemy ORM/Core and Django)
###############################################################################
for n, flt, marker in (
    ("2a", "(1,2) eq (1,2)", "0 = 1"),
    ("2b", "(1,2) ne (1,2)", "1 = 1"),
    ("2c", "(1,2) lt (1,3)", "1 < 1"),
    ("2d", "title eq 'zzz' or (1,2) eq (1,2)", "blogpost.title = 'zzz'"),
):
    k, v = outcome(lambda: core_clause(SBlogPost.__table__, flt))
    k2, v2 = outcome(lambda: orm_clause(SBlogPost, flt))
    finding(
        n,
        "SQLAlchemy Core+ORM " + flt,
        "core: %s ; orm: %s" % (describe(k, v), describe(k2, v2)),
        "a clause containing every literal of both lists, or a library exception",
        k == "ok" and k2 == "ok" and v == marker and v2 == marker,
    )
flt = "length((1,2)) eq 2"


def _len_params():
    w = AstToSqlAlchemyCoreVisitor(SBlogPost.__table__).visit(parse(flt))
    c = sa.select(SBlogPost.__table__.c.id).filter(w).compile(engine)
    return where(c) + " params=" + repr(c.params)


k, v = outcome(_len_params)
finding(
    "2e",
    "SQLAlchemy Core " + flt,
    describe(k, v),
    "a collection length or a library exception (the bind value is a Python list of BindParameter objects)",
    k == "ok" and "[BindParameter(" in v,
)
k, v = outcome(lambda: AstToSqlAlchemyCoreVisitor(SBlogPost.__table__).visit(parse("not ((1,2) eq (1,2))")))
finding(
    "2f",
    "SQLAlchemy Core not ((1,2) eq (1,2))",
    describe(k, v),
    "a complete clause or a library exception",
    k == "ok" and v == -1,
)
flt = "(1,2) ne (1,2)"


def _dj_list():
    q = AstToDjangoQVisitor(BlogPost).visit(parse(flt))
    sql, params = BlogPost.objects.filter(q).query.sql_with_params()
    return "Q=%s ; SQL=%s params=%r" % (q, sql.split("WHERE")[-1].strip(), params)


k, v = outcome(_dj_list)
finding(
    "2g",
    "Django " + flt,
    describe(k, v),
    "a library exception (the SQL parameter is a Python list of Value objects, not a collection literal)",
    k == "ok" and "[Value(1), Value(2)]" in v,
)
k, v = outcome(lambda: dj_rows(BlogPost, "(1,2) eq (1,2)"))
finding(
    "2h",
    "Django (1,2) eq (1,2)",
    describe(k, v),
    "a complete translation or a library exception",
    k == "leak",
)

###############################################################################
# 3. Namespace qualifiers are dropped
###############################################################################
k, v = outcome(lambda: AstToODataVisitor().visit(parse("a/ns.b/c eq 1")))
finding(
    "3a",
    "roundtrip a/ns.b/c eq 1",
    describe(k, v),
    "'a/ns.b/c eq 1' (qualifier kept) or a refusal",
    k == "ok" and v == "a/b/c eq 1",
)
k, v = outcome(lambda: AstToSqlVisitor().visit(parse("ns.title eq other.title")))
finding(
    "3b",
    "SQL (all three dialects) ns.title eq other.title",
    describe(k, v),
    "both qualifiers represented, or a refusal",
    k == "ok" and v == '"title" = "title"',
)
k, v = outcome(lambda: orm_rows(SBlogPost, "nosuch.title eq 'p1'"))
k2, v2 = outcome(lambda: core_clause(SBlogPost.__table__, "nosuch.title eq 'p1'"))
finding(
    "3c",
    "SQLAlchemy ORM+Core nosuch.title eq 'p1' [no field is called nosuch.title]",
    "orm: %s ; core: %s" % (describe(k, v), describe(k2, v2)),
    "InvalidFieldException",
    k == "ok" and k2 == "ok",
)
k, v = outcome(lambda: dj_rows(BlogPost, "nosuch.title eq 'p1'"))
finding(
    "3d",
    "Django nosuch.title eq 'p1'",
    describe(k, v),
    "qualifier represented, or a refusal",
    k == "ok" and v[1] == ["p1"],
)

###############################################################################
# 4. Lambda body: names not rooted at the range variable are bound to the
#    collection's model
###############################################################################
flt = "comments/any(c: c/id eq id)"
k, v = outcome(lambda: orm_rows(SBlogPost, flt))
finding(
    "4a",
    "SQLAlchemy ORM " + flt + " [post 1 has comment 7 only]",
    "WHERE %s ; rows=%s" % v if k == "ok" else describe(k, v),
    "rows=[] (comment.id = blogpost.id) or a refusal",
    k == "ok" and v[1] == ["p1"] and "comment.id = comment.id" in v[0],
)
k, v = outcome(lambda: dj_rows(BlogPost, flt))
finding(
    "4b",
    "Django " + flt + " [post 1 has comment 7 only]",
    "WHERE %s ; rows=%s" % v if k == "ok" else describe(k, v),
    "rows=[] (comment id compared with the outer post id) or a refusal",
    k == "ok" and v[1] == ["p1"],
)
flt = "comments/any(c: c/content eq title)"
k, v = outcome(lambda: AstToDjangoQVisitor(BlogPost).visit(parse(flt)))
finding(
    "4c",
    "Django visitor " + flt + " [both fields exist]",
    describe(k, v),
    "a complete translation or a library exception",
    k == "leak",
)

###############################################################################
# 5. ORM: different paths that end in the same table are not distinguished
###############################################################################
flt = "author/name eq 'alice' and reviewer/name eq 'bob'"
k, v = outcome(lambda: orm_clause(SDoc, flt))
k2, v2 = outcome(lambda: orm_rows(SDoc, flt))
finding(
    "5a",
    "SQLAlchemy ORM " + flt + " [doc d1: author alice, reviewer bob]",
    "visitor clause: %s ; shorthand: %s" % (describe(k, v), describe(k2, v2)),
    "the hops author/ and reviewer/ told apart (rows=['d1']) or a library exception",
    k == "ok" and v == "person.name = 'alice' AND person.name = 'bob'" and k2 == "leak",
)
flt = "manager/name eq 'boss'"
k, v = outcome(lambda: orm_rows(SPerson, flt))
finding(
    "5b",
    "SQLAlchemy ORM shorthand " + flt + " [self-referential relationship]",
    describe(k, v),
    "rows=['alice','bob'] or a library exception",
    k == "leak",
)

###############################################################################
# 6. The null literal in an operand position other than `x eq/ne null`
###############################################################################
for dialect, V in (("SQL", AstToSqlVisitor), ("SQLite", AstToSqliteSqlVisitor), ("Athena", AstToAthenaSqlVisitor)):
    flt = "contains(tolower(title), null)"
    k, v = outcome(lambda: V().visit(parse(flt)))
    finding(
        "6a/" + dialect,
        dialect + " " + flt,
        describe(k, v),
        "a complete translation or a library exception",
        k == "leak" and isinstance(v, AttributeError),
    )
for flt in ("title in ('a', null)", "null gt rating", "length(null) eq 1"):
    k, v = outcome(lambda: AstToDjangoQVisitor(BlogPost).visit(parse(flt)))
    finding(
        "6b",
        "Django " + flt,
        describe(k, v),
        "a complete translation or a library exception",
        k == "leak",
    )
flt = "rating gt null"
k, v = outcome(lambda: core_clause(SBlogPost.__table__, flt))
k2, v2 = outcome(lambda: orm_clause(SBlogPost, flt))
finding(
    "6c",
    "SQLAlchemy Core+ORM " + flt,
    "core: %s ; orm: %s" % (describe(k, v), describe(k2, v2)),
    "a complete translation or a library exception",
    k == "leak" and k2 == "leak",
)

###############################################################################
# 7. Django: named parameters are splatted into Python keyword arguments
###############################################################################
for flt in ("length(x=title) eq 1", "round(self=rating) eq 1", "contains(a=title, b='x')"):
    k, v = outcome(lambda: AstToDjangoQVisitor(BlogPost).visit(parse(flt)))
    finding(
        "7",
        "Django " + flt,
        describe(k, v),
        "a library exception (as the other backends: TypeException ... 'NamedParam')",
        k == "leak" and isinstance(v, TypeError),
    )

###############################################################################
# 8. Django: a bare identifier becomes a Q keyword argument
###############################################################################
flt = "_negated"
k, v = outcome(lambda: dj_rows(BlogPost, flt))
finding(
    "8a",
    "Django " + flt + " [boolean field called _negated does not exist]",
    "WHERE %s ; rows=%s" % v if k == "ok" else describe(k, v),
    "a condition on the field, or an error (the whole filter vanished)",
    k == "ok" and v[0] == "<no WHERE clause>" and v[1] == ["p1", "p2"],
)
k, v = outcome(lambda: AstToDjangoQVisitor(BlogPost).visit(parse("not _connector")))
finding(
    "8b",
    "Django not _connector",
    describe(k, v),
    "a Q on the field or a library exception",
    k == "leak",
)
k, v = outcome(lambda: dj_rows(BlogPost, "title__in"))
finding(
    "8c",
    "Django title__in",
    describe(k, v),
    "a complete translation or a library exception",
    k == "leak" and isinstance(v, TypeError),
)
k, v = outcome(lambda: dj_rows(BlogPost, "title__contains"))
finding(
    "8d",
    "Django title__contains",
    "WHERE %s ; rows=%s" % v if k == "ok" else describe(k, v),
    "a condition on a field called title__contains, or an error (not: title LIKE '%True%')",
    k == "ok" and "%True%" in v[0],
)

###############################################################################
# 9. Literal conversions leak Python errors (Django, SQLAlchemy ORM + Core)
###############################################################################
big = "rating eq " + "1" * 4301
for name, fn in (
    ("Django", lambda f: AstToDjangoQVisitor(BlogPost).visit(parse(f))),
    ("SQLAlchemy ORM", lambda f: AstToSqlAlchemyOrmVisitor(SBlogPost).visit(parse(f))),
    ("SQLAlchemy Core", lambda f: AstToSqlAlchemyCoreVisitor(SBlogPost.__table__).visit(parse(f))),
):
    k, v = outcome(lambda: fn(big))
    finding(
        "9a",
        name + " rating eq 111...1 (4301 digits)",
        describe(k, v),
        "a complete translation (like the SQL dialects) or ValueException",
        k == "leak",
    )
    flt = "published_at add duration'P1000000000D' gt now()"
    k, v = outcome(lambda: fn(flt))
    finding(
        "9b",
        name + " " + flt,
        describe(k, v),
        "a complete translation (like the SQL dialects) or ValueException",
        k == "leak",
    )

###############################################################################
# 10. SQLite dialect: duration literals are emitted as INTERVAL '..' UNIT
###############################################################################
flt = "published_at add duration'PT1H' gt now()"


def _sqlite_exec():
    w = AstToSqliteSqlVisitor().visit(parse(flt))
    con = sqlite3.connect(":memory:")
    con.execute("create table t (published_at text)")
    try:
        con.execute("select * from t where " + w).fetchall()
        return w, None
    except sqlite3.Error as e:
        return w, e


k, v = outcome(_sqlite_exec)
finding(
    "10",
    "SQLite dialect " + flt,
    "returns %s ; sqlite3 says: %s" % v if k == "ok" else describe(k, v),
    "SQL that SQLite can parse, or a library exception",
    k == "ok" and v[1] is not None and "syntax error" in str(v[1]),
)

###############################################################################
# 11. Athena: characters outside [a-z0-9_] in a field name become "_"
###############################################################################
k, v = outcome(lambda: AstToAthenaSqlVisitor().visit(parse("é eq è")))
finding(
    "11",
    "Athena é eq è",
    describe(k, v),
    "two different columns, or a refusal",
    k == "ok" and v == '"_" = "_"',
)

###############################################################################
# 12. Django: a visitor that raised once returns unfinished objects afterwards
###############################################################################
def _reuse():
    vis = AstToDjangoQVisitor(BlogPost)
    first = vis.visit(parse("is_live"))
    try:
        vis.visit(parse("hassubset(title, (1,))"))
    except ex.UnsupportedFunctionException:
        pass
    second = vis.visit(parse("is_live"))
    k, v = outcome(lambda: list(BlogPost.objects.filter(second)))
    return "first visit -> %r ; after a refused filter -> %r ; filter(): %s" % (first, second, describe(k, v)), second


k, v = outcome(_reuse)
finding(
    "12",
    "Django one visitor instance: is_live ; hassubset(title,(1,)) ; is_live",
    v[0] if k == "ok" else describe(k, v),
    "the same Q(is_live=True) both times",
    k == "ok" and not isinstance(v[1], models.Q),
)

###############################################################################
# 13. Subclassed visitors are re-instantiated with one positional argument
###############################################################################
class TenantDjangoVisitor(AstToDjangoQVisitor):
    def __init__(self, root_model, tenant):
        super().__init__(root_model)
        self.tenant = tenant


class TenantOrmVisitor(AstToSqlAlchemyOrmVisitor):
    def __init__(self, root_model, tenant):
        super().__init__(root_model)
        self.tenant = tenant


flt = "authors/any(a: a/name eq 'x')"
k, v = outcome(lambda: TenantDjangoVisitor(BlogPost, 1).visit(parse(flt)))
k2, v2 = outcome(lambda: TenantOrmVisitor(SBlogPost, 1).visit(parse(flt)))
finding(
    "13",
    "subclass with __init__(root_model, tenant): " + flt,
    "django: %s ; orm: %s" % (describe(k, v), describe(k2, v2)),
    "a complete translation or a library exception",
    k == "leak" and k2 == "leak",
)

###############################################################################
# 14. (borderline: not well-typed) lambda / path on a plain column
###############################################################################
flt = "title/any(t: t eq 'x')"
k, v = outcome(lambda: AstToDjangoQVisitor(BlogPost).visit(parse(flt)))
k2, v2 = outcome(lambda: AstToSqlAlchemyOrmVisitor(SBlogPost).visit(parse(flt)))
finding(
    "14a",
    flt,
    "django: %s ; orm: %s" % (describe(k, v), describe(k2, v2)),
    "a library exception",
    k == "leak" and k2 == "leak",
)
flt = "title/nosuch eq 'x'"
k2, v2 = outcome(lambda: AstToSqlAlchemyOrmVisitor(SBlogPost).visit(parse(flt)))
finding(
    "14b",
    "SQLAlchemy ORM " + flt,
    describe(k2, v2),
    "InvalidFieldException",
    k2 == "leak",
)

###############################################################################
# 15. Django: concat over CharField + TextField (error surfaces in .filter())
###############################################################################
flt = "concat(content, 'x') eq 'cx'"
k, v = outcome(lambda: dj_rows(BlogPost, flt))
finding(
    "15",
    "Django shorthand " + flt + " [content is a TextField]",
    describe(k, v),
    "rows=['p1','p2'] or a library exception",
    k == "leak",
)

print("\n%d finding lines reproduced: %s" % (len(FOUND), ", ".join(FOUND)))
sys.exit(1 if FOUND else 0)
