"""
Property C17: making a lambda body relative strips exactly the lambda
variable's prefix.

Result of the hunt: no input inside the property's quantifier was found for
which odata_query.utils.expression_relative_to_identifier deviates from the
statement.  This script re-runs a compact version of the checks (so a future
regression would show up as a FINDING) and prints, as NOTE lines, the one
string-level oddity that was seen; the NOTE is caused by the parser, not by the
function under test, and is therefore not counted.

Run: cd /tmp/sh_C17 && PYTHONPATH=/tmp/sh_C17 /venv/bin/python OUT/demo.py
"""
import copy
import itertools
import random
import sys
from dataclasses import fields

from odata_query import ast
from odata_query.grammar import ODataLexer, ODataParser
from odata_query.utils import expression_relative_to_identifier as rel

lexer, parser = ODataLexer(), ODataParser()


def parse(s):
    return parser.parse(lexer.tokenize(s))


def ref(node, var):
    """Independent model of the statement."""
    if isinstance(node, ast.Attribute):
        segs, n = [], node
        while isinstance(n, ast.Attribute):
            segs.append(n.attr)
            n = n.owner
        segs.reverse()
        if n == var:
            new, segs = ast.Identifier(segs[0]), segs[1:]
        elif isinstance(n, ast.Identifier):
            new = n
        else:
            new = ref(n, var)
        for s in segs:
            new = ast.Attribute(new, s)
        return new
    if isinstance(node, ast.Identifier):
        return node
    kw = {}
    for f in fields(node):
        v = getattr(node, f.name)
        if isinstance(v, list):
            v = [ref(i, var) if isinstance(i, ast._Node) else i for i in v]
        elif isinstance(v, ast._Node):
            v = ref(v, var)
        kw[f.name] = v
    return type(node)(**kw)


findings = []


def check(var_src, src):
    var = parse(var_src)
    e = parse(src)
    before = copy.deepcopy(e)
    got, exp = rel(var, e), ref(e, var)
    if got != exp or e != before:
        findings.append((f"rel({var_src!r}, {src!r})", got, exp))


VARS = ["x", "a", "not", "in", "any", "ns.x", "x.x", "length", "name__in",
        "__class__", "é", "X", "_", "e1"]
SEGS = ["a", "x", "not", "in", "any", "y", "ns.x"]
TEMPLATES = [
    "{p} eq 1", "1 eq {p}", "{p}", "-{p}", "not {p}", "{p} add {q} eq {p}",
    "contains({p}, 'a')", "concat({p}, {q}) eq 'a'",
    "substring({p}, 1, 2) eq {q}", "{p} in ({q}, 1)", "{p} in ({q},)",
    "ns.f(k={p}, x={q})", "ns.f(x={p}, a={q}, not={p})", "ns.f(({p}, {q}))",
    "ns.f(({p},), {q})", "{p}/any(y: y/q eq {q})",
    "{p}/all(y: y/q eq {q} and y/x eq 1)", "{p}/any()",
    "c/any(y: {p}/any(z: z/a eq {q} and y/b eq z/x))",
    "(({p}, {q}), 1) eq 1", "{p} mul -{q} eq 0",
]
random.seed(17)
for var in VARS:
    roots = [var, "a", "x", "y", "ns." + var.split(".")[-1]]
    paths = []
    for r in roots:
        for d in range(0, 5):
            for tail in itertools.product(SEGS, repeat=d):
                paths.append("/".join((r,) + tail))
    for t in TEMPLATES:
        for _ in range(25):
            check(var, t.format(p=random.choice(paths), q=random.choice(paths)))

for n, (inp, got, exp) in enumerate(findings[:20], 1):
    print(f"FINDING {n}: {inp} -> {got} (expected {exp})")

# String-level note (parser drops the namespace of a non-root path segment, so
# the AST handed to the function no longer contains it):
e = parse("x/ns.a eq 1")
print("NOTE (not counted, parser-level): parse('x/ns.a eq 1') =", e)
print("NOTE (not counted, parser-level): relative to x ->", rel(parse("x"), e),
      "| parse('ns.a eq 1') =", parse("ns.a eq 1"))

if not findings:
    print("no violation found")
sys.exit(1 if findings else 0)
