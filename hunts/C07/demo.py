"""
Reproduces the C07 findings ("no filter string can inject SQL through the raw
SQL dialects") through the public API.

Run as:  cd /tmp/sh_C07 && PYTHONPATH=/tmp/sh_C07 /venv/bin/python OUT/demo.py
Exit code 1 if at least one finding reproduces, 0 otherwise.
"""
import re
import sqlite3
import sys

from odata_query.grammar import ODataLexer, ODataParser
from odata_query.sql import (
    AstToAthenaSqlVisitor,
    AstToSqliteSqlVisitor,
    AstToSqlVisitor,
)

DIALECTS = {
    "standard": AstToSqlVisitor,
    "sqlite": AstToSqliteSqlVisitor,
    "athena": AstToAthenaSqlVisitor,
}

_lexer = ODataLexer()
_parser = ODataParser()


def to_sql(dialect: str, odata_filter: str) -> str:
    tree = _parser.parse(_lexer.tokenize(odata_filter))
    return DIALECTS[dialect]().visit(tree)


# A plain SQL-92 style tokenizer: '...' with '' escape, "..." with "" escape.
_TOK = re.compile(
    r"""
   (?P<str>'(?:[^']|'')*')
 | (?P<qid>"(?:[^"]|"")*")
 | (?P<ws>\s+)
 | (?P<num>\d+(?:\.\d+)?)
 | (?P<word>[A-Za-z_][A-Za-z0-9_]*)
 | (?P<op>\|\||<=|>=|!=|<>|[-+*/%(),.=<>;])
 | (?P<bad>.)
""",
    re.X | re.S,
)


def tokens(sql: str):
    "-> list of (kind, text)"
    return [(m.lastgroup, m.group()) for m in _TOK.finditer(sql) if m.lastgroup != "ws"]


def skeleton(sql: str):
    "Token sequence with the contents of literals / quoted identifiers blanked."
    return [
        (k,) if k in ("str", "qid") else (k, t.upper()) for k, t in tokens(sql)
    ]


found = 0


def report(n, inp, observed, expected):
    global found
    found += 1
    print(f"FINDING {n}: {inp} -> {observed} (expected {expected})")


# ------------------------------------------------------------------------------
# 1. A list as the pattern operand of contains/startswith/endswith: the Python
#    repr() of the AST nodes is pasted into ONE string literal. Field names in
#    the list end up inside a string literal instead of a quoted identifier, and
#    the strings of the list are not SQL literals of their own.
# ------------------------------------------------------------------------------
for dialect in DIALECTS:
    flt = "contains('abc', (name, 'b'))"
    sql = to_sql(dialect, flt)
    toks = tokens(sql)
    qids = [t for k, t in toks if k == "qid"]
    strs = [t for k, t in toks if k == "str"]
    leaked = [s for s in strs if "Identifier(name=" in s]
    if not any("name" in q for q in qids) and leaked:
        report(
            1,
            f"[{dialect}] {flt}",
            f"{sql!r}: field `name` is in 0 quoted identifiers and inside the "
            f"string literal {leaked[0]!r}",
            "field name inside exactly one quoted identifier, each string in "
            "its own literal (or the filter refused, like contains(name, ('a','b')))",
        )

# ------------------------------------------------------------------------------
# 2. Standard dialect floor()/ceiling(): the operand is rendered 4 / 5 times, so
#    a field name lands in 4-5 quoted identifiers and a string in 4-5 literals
#    (property: "exactly one"). floor() also emits an unbalanced ')'.
# ------------------------------------------------------------------------------
for flt, kind, needle in [
    ("floor(price) eq 1", "qid", '"price"'),
    ("ceiling(price) eq 1", "qid", '"price"'),
    ("floor('a''b') eq 1", "str", "'a''b'"),
    ("ceiling(tolower('a''b')) eq 1", "str", "'a''b'"),
]:
    sql = to_sql("standard", flt)
    n = sum(1 for k, t in tokens(sql) if k == kind and t == needle)
    extra = ""
    if sql.count("(") != sql.count(")"):
        extra = f"; parentheses unbalanced: {sql.count('(')} '(' vs {sql.count(')')} ')'"
    if n != 1:
        report(
            2,
            f"[standard] {flt}",
            f"{needle} occurs in {n} separate tokens{extra}",
            "exactly 1 token (sqlite/athena dialects emit FLOOR(x)/CEILING(x) once)",
        )

# ------------------------------------------------------------------------------
# 3. SQLite dialect + NUL inside a string: the NUL is copied verbatim. SQLite's
#    tokenizer stops at the first NUL, so the literal is never closed and all
#    SQL after it is dropped: the string is not "inside one string-literal
#    token" for that engine, and the tokens after the literal depend on the
#    literal's content. (Fails closed: always a syntax error.)
# ------------------------------------------------------------------------------
con = sqlite3.connect(":memory:")
con.execute("CREATE TABLE t (name TEXT, tenant INT)")
con.execute("INSERT INTO t VALUES ('a', 1)")
base = "SELECT name FROM t WHERE ({}) AND tenant = 1"
ok_sql = base.format(to_sql("sqlite", "name eq 'a'"))
nul_flt = "name eq 'a\x00'"
nul_sql = base.format(to_sql("sqlite", nul_flt))
ok_rows = con.execute(ok_sql).fetchall()
try:
    con.execute(nul_sql).fetchall()
    nul_outcome = None
except Exception as exc:  # sqlite3.ProgrammingError on py>=3.12, else OperationalError
    nul_outcome = f"{type(exc).__name__}: {exc}"

c_outcome = ""
try:  # show what the SQLite C tokenizer itself does with that text
    import ctypes
    import ctypes.util

    lib = ctypes.CDLL(ctypes.util.find_library("sqlite3"))
    lib.sqlite3_errmsg.restype = ctypes.c_char_p
    db = ctypes.c_void_p()
    lib.sqlite3_open(b":memory:", ctypes.byref(db))
    stmt = ctypes.c_void_p()
    raw = nul_sql.encode()
    rc = lib.sqlite3_prepare_v2(db, raw, len(raw), ctypes.byref(stmt), None)
    c_outcome = f"; sqlite3_prepare_v2 rc={rc} {lib.sqlite3_errmsg(db).decode()!r}"
except Exception:
    pass

if "\x00" in nul_sql and nul_outcome and ok_rows == [("a",)]:
    report(
        3,
        f"[sqlite] {nul_flt!r}",
        f"SQL text {to_sql('sqlite', nul_flt)!r} carries a raw NUL; engine: {nul_outcome}{c_outcome}",
        "a literal SQLite tokenizes as one string token, e.g. ('a' || CHAR(0)), "
        "with the same tokens after it as for name eq 'a'",
    )

# ------------------------------------------------------------------------------
# 4. LIKE patterns: an  ESCAPE '\'  clause (2 extra tokens) is appended only
#    when the literal contains %, _ or \ . The token sequence outside the
#    literal therefore depends on the literal's content, and the extra clause
#    re-associates what follows it.
# ------------------------------------------------------------------------------
for dialect in DIALECTS:
    for tpl in ("contains(name, {})", "startswith(name, {})", "endswith(name, {})"):
        a, b = tpl.format("'a'"), tpl.format("'%'")
        sa, sb = to_sql(dialect, a), to_sql(dialect, b)
        if skeleton(sa) != skeleton(sb):
            report(
                4,
                f"[{dialect}] {a}  vs  {b}",
                f"{sa!r}  vs  {sb!r}: {len(skeleton(sa))} vs {len(skeleton(sb))} tokens",
                "identical token sequence outside the literal (e.g. always emit ESCAPE)",
            )

# 4b. consequence in a real engine: the same filter shape parses differently.
con2 = sqlite3.connect(":memory:")
con2.execute("CREATE TABLE t (a TEXT)")
con2.execute("INSERT INTO t VALUES ('x')")
outcomes = []
for lit in ("'x'", "'%'"):
    flt = f"concat(contains(a, {lit}), 'b') eq 'q'"
    sql = to_sql("sqlite", flt)
    try:
        outcomes.append((flt, sql, "ok " + repr(con2.execute("SELECT a FROM t WHERE " + sql).fetchall())))
    except Exception as exc:
        outcomes.append((flt, sql, f"{type(exc).__name__}: {exc}"))
if outcomes[0][2].startswith("ok") and not outcomes[1][2].startswith("ok"):
    report(
        4,
        f"[sqlite] {outcomes[0][0]}  vs  {outcomes[1][0]}",
        f"{outcomes[0][1]!r} {outcomes[0][2]}  vs  {outcomes[1][1]!r} {outcomes[1][2]}",
        "same statement structure for both literals",
    )

# ------------------------------------------------------------------------------
# Notes (outside the strict quantifier, not counted): trusted inputs that are
# pasted unescaped into a quoted identifier.
# ------------------------------------------------------------------------------
from odata_query import ast  # noqa: E402

print(
    "NOTE A: table_alias='t\"x' ->",
    AstToSqlVisitor(table_alias='t"x').visit(_parser.parse(_lexer.tokenize("name eq 'a'"))),
    "(alias is not escaped; '\"' not doubled)",
)
print(
    "NOTE B: hand-built ast.Identifier('a\" = \"a\" OR \"b') ->",
    AstToSqlVisitor().visit(
        ast.Compare(ast.Eq(), ast.Identifier('a" = "a" OR "b'), ast.Integer("1"))
    ),
    "(not reachable through the parser: identifiers are \\w only)",
)

sys.exit(1 if found else 0)
