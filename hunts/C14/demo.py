"""
Reproduces the AliasRewriter findings described in OUT/findings.md.

Run as:  cd /tmp/sh_C14 && PYTHONPATH=/tmp/sh_C14 /venv/bin/python OUT/demo.py
Exit code 1 if at least one finding reproduces, 0 otherwise.
"""
import sys
import threading
import time

sys.path.insert(0, "/tmp/sh_C14")

from odata_query.grammar import ODataLexer, ODataParser  # noqa: E402
from odata_query.rewrite import AliasRewriter  # noqa: E402
from odata_query.roundtrip import AstToODataVisitor  # noqa: E402

LEXER = ODataLexer()
PARSER = ODataParser()


def parse(text):
    return PARSER.parse(LEXER.tokenize(text))


def show(tree):
    try:
        return AstToODataVisitor().visit(tree)
    except Exception:  # trees the roundtrip visitor cannot print
        return repr(tree)


reproduced = 0


def report(n, inp, observed, expected, is_violation):
    global reproduced
    if is_violation:
        reproduced += 1
        print(f"FINDING {n}: {inp} -> {observed} (expected {expected})")
    else:
        print(f"finding {n} did not reproduce: {inp} -> {observed}")


# ---------------------------------------------------------------------------
# 1. One AliasRewriter instance used by two threads: the lambda-variable stack
#    is instance state, so a lambda being rewritten in thread A shadows the
#    alias in thread B.
# ---------------------------------------------------------------------------
def finding_1():
    big = parse(
        "items/any(x: " + " and ".join(f"x/p{i} eq {i}" for i in range(200)) + ")"
    )
    small = parse("x eq 1")
    want = parse("y eq 1")
    rewriter = AliasRewriter({"x": "y"})

    old = sys.getswitchinterval()
    sys.setswitchinterval(1e-6)
    stop = threading.Event()

    def worker():
        while not stop.is_set():
            rewriter.visit(big)

    th = threading.Thread(target=worker, daemon=True)
    th.start()
    wrong = None
    runs = 0
    deadline = time.time() + 10
    try:
        while time.time() < deadline and wrong is None:
            runs += 1
            got = rewriter.visit(small)
            if got != want:
                wrong = got
    finally:
        stop.set()
        th.join()
        sys.setswitchinterval(old)

    report(
        1,
        "shared AliasRewriter({'x': 'y'}); thread A rewrites 'items/any(x: x/p0 eq 0 and ...)' "
        "while thread B rewrites 'x eq 1'",
        f"thread B got '{show(wrong)}' (alias not applied, after {runs} call(s))"
        if wrong is not None
        else f"always 'y eq 1' in {runs} calls",
        "'y eq 1' on every call",
        wrong is not None,
    )


# ---------------------------------------------------------------------------
# 2. Rewriting a tree that an earlier AliasRewriter produced: an alias with a
#    call target used as the owner prefix of a longer path yields
#    Attribute(Call(...), 'b'); any further rewrite (even with an empty map)
#    raises TypeError because the node is looked up in a dict.
# ---------------------------------------------------------------------------
def finding_2():
    first = AliasRewriter({"a": "tolower(a)"}).visit(parse("a/b eq 1"))
    for label, aliases in (("{}", {}), ("{'zz': 'y'}", {"zz": "y"})):
        try:
            second = AliasRewriter(aliases).visit(first)
            observed = "identity" if second == first else repr(second)
            bad = second != first
        except Exception as exc:  # noqa: BLE001
            observed = f"{type(exc).__name__}: {exc}"
            bad = True
        report(
            2,
            f"AliasRewriter({label}).visit(AliasRewriter({{'a': 'tolower(a)'}}).visit('a/b eq 1'))",
            observed,
            "the tree unchanged (empty / non-matching map is the identity)",
            bad,
        )


# ---------------------------------------------------------------------------
# 3. Namespace-qualified path segments: the namespace of every non-root
#    segment is dropped when keys and filters are parsed, so distinct alias
#    keys collapse into one dict entry and aliases hit non-matching fields.
# ---------------------------------------------------------------------------
def finding_3():
    aliases = {"a/n1.b": "X", "a/n2.b": "Y"}
    rewriter = AliasRewriter(aliases)
    got = rewriter.visit(parse("a/n1.b eq 1"))
    report(
        3,
        f"AliasRewriter({aliases}) on 'a/n1.b eq 1' ({len(rewriter.replacements)} replacement(s) kept)",
        f"'{show(got)}'",
        "'X eq 1'",
        got != parse("X eq 1"),
    )
    got = AliasRewriter({"a/n1.b": "X"}).visit(parse("a/b eq a/n2.b"))
    report(
        3,
        "AliasRewriter({'a/n1.b': 'X'}) on 'a/b eq a/n2.b'",
        f"'{show(got)}'",
        "unchanged, neither field is a/n1.b",
        got == parse("X eq X"),
    )


# ---------------------------------------------------------------------------
# 4. Long paths: a path of 499 segments parses, but the rewriter raises
#    RecursionError even with an empty alias map.
# ---------------------------------------------------------------------------
def finding_4():
    n = 499
    tree = parse("/".join(f"s{i}" for i in range(n)) + " eq 1")
    try:
        out = AliasRewriter({}).visit(tree)
        try:
            same = out == tree
        except RecursionError:
            same = True
        observed, bad = ("identity" if same else "different tree"), not same
    except RecursionError as exc:
        observed, bad = f"RecursionError: {exc}", True
    report(
        4,
        f"AliasRewriter({{}}) on 's0/s1/.../s{n - 1} eq 1' ({n} segments, parses fine)",
        observed,
        "the tree unchanged",
        bad,
    )


for fn in (finding_1, finding_2, finding_3, finding_4):
    try:
        fn()
    except Exception as exc:  # noqa: BLE001
        print(f"{fn.__name__} crashed: {type(exc).__name__}: {exc}")

sys.exit(1 if reproduced else 0)
