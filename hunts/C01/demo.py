"""
Reproduces the violations of property C01
("SQLite WHERE clause selects exactly the rows the OData filter denotes").

Run as:  cd /tmp/sh_C01 && PYTHONPATH=/tmp/sh_C01 /venv/bin/python OUT/demo.py
Exit code 1 if at least one finding reproduces, 0 otherwise.
"""
import sqlite3
import sys

sys.path.insert(0, "/tmp/sh_C01")
sys.setrecursionlimit(1000)  # CPython default, made explicit for finding 13

from odata_query.grammar import ODataLexer, ODataParser  # noqa: E402
from odata_query.sql import AstToSqliteSqlVisitor  # noqa: E402

lexer, parser = ODataLexer(), ODataParser()


def to_sql(flt, **kw):
    return AstToSqliteSqlVisitor(**kw).visit(parser.parse(lexer.tokenize(flt)))


conn = sqlite3.connect(":memory:")  # stock SQLite, no pragmas
conn.execute(
    'CREATE TABLE t (rid INTEGER PRIMARY KEY, x INTEGER, f REAL, s TEXT, '
    'dt TEXT, "b" INTEGER, "a.b" INTEGER, "falſe" INTEGER)'
)
ROWS = [
    # rid, x,    f,    s,        dt,                    b, a.b, falſe
    (0, None, None, None, None, 1, 2, 1),
    (1, 1, 1.5, "a", "2020-01-01 10:00:00", 1, 2, 1),
    (2, 2, 2.5, "A", "2020-01-01 10:00:01", 2, 1, 0),
    (3, 3, -0.5, "\ta", "2020-01-01 09:59:59", 1, 1, 1),
    (4, -1, 3.0, "É", "2019-12-31 23:30:00", 0, 0, 0),
    (5, 0, 0.0, "a\x00b", "2020-06-01 00:00:00", 0, 0, 1),
]
conn.executemany("INSERT INTO t VALUES (?,?,?,?,?,?,?,?)", ROWS)
ALL = [r[0] for r in ROWS]

reproduced = 0


def check(n, flt, expected, shown=None, control=False, **kw):
    """Runs `flt` through the library + SQLite and compares with `expected`
    (a list of rids, or the name of an exception class that would be fine)."""
    global reproduced
    shown = shown or flt
    try:
        where = to_sql(flt, **kw)
    except BaseException as e:  # noqa: BLE001
        observed = f"{type(e).__name__} while building SQL"
    else:
        try:
            observed = sorted(
                r[0] for r in conn.execute(f"SELECT rid FROM t WHERE {where}")
            )
        except Exception as e:  # noqa: BLE001
            observed = f"sqlite3 {type(e).__name__}: {e}"
    if control:
        print(f"  (control {n}: {shown} -> rows {observed}, expected rows {expected})")
    elif observed != expected:
        reproduced += 1
        obs = f"rows {observed}" if isinstance(observed, list) else observed
        exp = f"rows {expected}" if isinstance(expected, list) else expected
        print(f"FINDING {n}: {shown} -> {obs} (expected {exp})")
    else:
        print(f"finding {n} not reproduced: {shown} -> {observed}")


# 1. `mod` with a non-integer operand: SQLite's % casts both sides to INTEGER
check("1a", "5.5 mod 2 eq 1.5", ALL)
check("1b", "f mod 1 eq 0.5", [1, 2])  # 1.5 and 2.5 (and -0.5 -> -0.5, so not 3)
check("1c", "x mod 1.5 eq 0.5", [2])  # 2 mod 1.5 = 0.5
check("1d", "x mod 0.5 eq 0", [1, 2, 3, 4, 5])  # every integer; SQLite: x % 0 -> NULL

# 2. fractional seconds of a DateTimeOffset literal are dropped by DATETIME()
check("2a", "dt lt 2020-01-01T10:00:00.5Z", [1, 3, 4])  # 10:00:00 < 10:00:00.5
check("2b", "dt eq 2020-01-01T10:00:00.5Z", [])  # no row holds that instant
check("2c", "2020-01-01T10:00:00Z lt 2020-01-01T10:00:00.5Z", ALL)

# 3. date/time parts of a literal with an offset are computed in UTC
check("3a", "hour(2020-01-01T10:00:00+02:00) eq 10", ALL)
check("3b", "day(2020-01-01T00:30:00+02:00) eq 1", ALL)
check("3c", "year(2020-01-01T00:30:00+02:00) eq 2020", ALL)
check("3d", "minute(2020-01-01T10:30:00+05:30) eq 30", ALL)
check("3e", "date(2020-01-01T00:30:00+02:00) eq 2020-01-01", ALL)

# 4. `in` with a null member is not the `eq`/`or` chain it abbreviates
check("4a", "x in (1, null)", [0, 1])  # same as: x eq 1 or x eq null
check("4b", "x eq 1 or x eq null", [0, 1], control=True)  # (control, passes)
check("4c", "not (x in (1, null))", [2, 3, 4, 5])  # same as not (x eq 1 or x eq null)
check("4d", "not (x eq 1 or x eq null)", [2, 3, 4, 5], control=True)  # (control, passes)

# 5. tolower / toupper only fold ASCII
check("5a", "tolower(s) eq 'é'", [4])
check("5b", "toupper('é') eq 'É'", ALL)

# 6. trim only strips U+0020
check("6a", "trim(s) eq 'a'", [1, 3], shown="trim(s) eq 'a'  [row 3: s = TAB+'a']")
check("6b", "trim('a\n') eq 'a'", ALL, shown=r"trim('a<LF>') eq 'a'")

# 7. contains/startswith/endswith with a *literal* pattern are ASCII case-insensitive
check("7a", "contains(s, 'A')", [2])  # control: indexof(s,'A') ge 0 -> [2]
check("7b", "startswith(s, 'A')", [2])
check("7c", "endswith('abc', 'BC')", [])
check("7d", "indexof(s, 'A') ge 0", [2], control=True)  # (control, passes)

# 8. floor/ceiling of an integer stay INTEGER, so `div` becomes integer division
check("8a", "floor(x) div 2 eq 1.5", [3])  # round(x) div 2 eq 1.5 -> [3]
check("8b", "ceiling(3) div 2 eq 1.5", ALL)
check("8c", "round(x) div 2 eq 1.5", [3], control=True)  # (control, passes)

# 9. NUL inside a string literal: the generated SQL cannot be executed
check("9a", "s eq 'a\x00b'", [5], shown=r"s eq 'a<NUL>b'")
check("9b", "length('a\x00b') eq 3", ALL, shown=r"length('a<NUL>b') eq 3")

# 10. the namespace part of a dotted field name is silently dropped
check("10a", "a.b eq 2", [0, 1], shown='a.b eq 2  [columns "a.b" and "b" both exist]')
check("10b", "zzz.x eq 1", "an exception: the table has no field `zzz.x`")

# 11. INF / NaN literals become (non-existent) column names -> SQLite string fallback
check("11a", "x gt -INF", [1, 2, 3, 4, 5])
check("11b", "x ne NaN", [1, 2, 3, 4, 5], control=True)

# 12. re.I + Unicode folding: a column called `falſe` (long s) is read as `false`
check("12", "falſe eq 1", [0, 1, 3, 5])

# 13. nesting depth / size limits ("any nesting depth ... any literal contents")
check("13a", " or ".join(f"x eq {i}" for i in range(500)), [1, 2, 3, 5],
      shown="x eq 0 or x eq 1 or ... (500 terms)")
check("13b", "not " * 92 + "(x eq 1)", [1], shown="'not ' * 92 + '(x eq 1)'")
check("13c", "tolower(" * 31 + "s" + ")" * 31 + " eq 'a'", [1, 2],
      shown="tolower( x31 (s) eq 'a'")
check("13d", "contains(s, '" + "a" * 49999 + "')", [],
      shown="contains(s, 'a' * 49999)")

# 14. Int64 overflow silently switches to floating point
check("14", "9223372036854775807 add 2 eq 9223372036854775808", [])

# 15. known x+0.5 rendering of round() is also wrong for non-negative inputs
check("15a", "round(0.49999999999999994) eq 0", ALL)
check("15b", "round(9007199254740993) eq 9007199254740993", ALL)

# 16. null as LIKE pattern crashes with a non-library exception
check("16", "contains('abc', null)", [])

# 17. table alias is not quoted
conn.execute('CREATE TABLE u (rid INTEGER, x INTEGER)')
conn.execute("INSERT INTO u VALUES (1, 1)")
try:
    w = to_sql("x eq 1", table_alias='we"ird')
    got = conn.execute(f'SELECT rid FROM u AS "we""ird" WHERE {w}').fetchall()
    print(f"finding 17 not reproduced: {got}")
except Exception as e:  # noqa: BLE001
    reproduced += 1
    print(f"FINDING 17: x eq 1 with table_alias='we\"ird' -> sqlite3 {type(e).__name__}: {e} "
          f"(expected rows [1])")

sys.exit(1 if reproduced else 0)
