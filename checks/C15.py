"""C15 - Shorthands conjoin the filter with the incoming query and leave the host intact."""
import json
import os
import subprocess
import sys
from itertools import product

import sqlalchemy as sa
from sqlalchemy.dialects import sqlite as sa_sqlite
from sqlalchemy.orm import Session

from vt import relational as RL, sqllex, terms as T
from vt.dbs import django_h, rel_load, sa_h
from vt.refprint import to_odata
from vt.runner import Acc

RULE = ("layer queries: base-query menu (SQLAlchemy ORM select and legacy Query: plain, pre-filtered, joined on a relationship the "
        "filter uses / does not use, by attribute and by entity, outer-joined, ordered, joined+filtered; Core: plain, pre-filtered, "
        "ordered; Django: Manager, all(), filter(), exclude(), annotate(), order_by(), chained, pre-joined filter, select_related) x "
        "filters (scalar, one to-one path, the same relationship twice, two relationships, depth-2 path, lambda) x database instances "
        "(product instance + small instances incl. empty tables): result (as an ordered list when the base is ordered, as a multiset "
        "otherwise) must equal the base query's own result restricted to the rows relational R-EVAL makes true; each relationship "
        "table occurs at most once in the FROM/JOIN clause. layer registry: in fresh subprocesses every history of length <=3 over "
        "{import odata_query.sqlalchemy, host uses func.lower / func.round / func.strpos} plus the canonical histories for every name "
        "the backend defines: each host call must compile to the same SQL and type as in a process that never imports the backend. "
        "non-trivial = (base, filter, instance) triples where the base result and the filtered result differ.")
ASSUMPTIONS = ["the base query's own result (executed unmodified) is the reference for 'rows of the base query'",
               "relational R-EVAL for the filter part"]

FILTERS = [
    ("scalar", T.binop("Gt", T.I("score"), T.Int(1))),
    ("path", T.binop("Eq", T.path("blog", "title"), T.Str("b1"))),
    ("same-rel-twice", T.binop("Or", T.binop("Eq", T.path("blog", "title"), T.Str("b1")), T.binop("Eq", T.path("blog", "title"), T.Str("b2")))),
    ("two-rels", T.binop("And", T.binop("NotEq", T.path("blog", "title"), T.Str("b0")), T.binop("Eq", T.path("author", "name"), T.Str("p1")))),
    ("path2", T.binop("Eq", T.path("blog", "owner", "name"), T.Str("p1"))),
    ("path-null", T.binop("Eq", T.path("blog", "title"), T.NULL)),
    # nullable hop (Post.author) followed by a NOT NULL hop (Person.city); true for posts WITHOUT an author as well
    ("path-notnull-hop", T.binop("Or", T.binop("Eq", T.path("author", "city", "name"), T.Str("c1")), T.binop("Eq", T.path("author", "city", "name"), T.NULL))),
    # a to-one relationship compared as a value (its key): no join needed, the foreign key column of the ROOT row source is compared
    ("rel-null", T.binop("Eq", T.I("blog"), T.NULL)),
    ("rel-key", T.binop("And", T.binop("NotEq", T.I("author"), T.NULL), T.binop("Eq", T.I("blog"), T.Int(1)))),
    ("lambda", T.lam(T.I("comments"), "Any", "c", T.binop("Gt", T.path("c", "score"), T.Int(1)))),
    ("lambda-and-path", T.binop("And", T.lam(T.I("comments"), "All", "c", T.binop("Gt", T.path("c", "score"), T.Int(1))),
                                T.binop("NotEq", T.path("author", "name"), T.Str("zz")))),
]

# which table each pre-joined base query joins, and through which to-one path
BASE_JOINS = {"join-blog": {"Blog": ("blog",)}, "join-author": {"Person": ("author",)}, "outerjoin-blog": {"Blog": ("blog",)},
              "join-blog-where": {"Blog": ("blog",)}, "join-both-order": {"Blog": ("blog",), "Person": ("author",)},
              "join-owner": {"City": ("owner",)}, "outerjoin-owner-where": {"City": ("owner",)}}
_SES = None


def session():
    global _SES
    if _SES is None:
        _SES = Session(sa_h.engine())
    return _SES


def sa_bases(R, legacy):
    Post, Blog, Person = R["Post"], R["Blog"], R["Person"]
    ses = session()
    start = (lambda: ses.query(Post)) if legacy else (lambda: sa.select(Post))
    w = "filter" if legacy else "where"
    bases = [
        ("plain", False, lambda: start()),
        ("where", False, lambda: getattr(start(), w)(Post.score >= 2)),
        ("where-title", False, lambda: getattr(start(), w)(Post.title != "t1")),
        ("join-blog", False, lambda: start().join(Post.blog)),
        ("join-author", False, lambda: start().join(Post.author)),
        ("join-blog-entity", False, lambda: start().join(Blog)),
        # Post.owner (-> City) shares its attribute name with Blog.owner (-> Person), which the path2 filter navigates
        ("join-owner", False, lambda: start().join(Post.owner)),
        # two-argument join onto an ALIAS of the related entity: the un-aliased table is not joined yet
        ("join-aliased-blog", False, lambda: start().join(sa.orm.aliased(Blog), Post.blog)),
        # the relationship is joined, but onto an ALIAS / with an extra ON criterion: it is NOT the join a filter over blog/... needs
        ("join-of-type-alias", False, lambda: start().join(Post.blog.of_type(sa.orm.aliased(Blog)))),
        ("outerjoin-blog-and", False, lambda: start().join(Post.blog.and_(Blog.title == "b2"), isouter=True)),
        ("outerjoin-owner-where", False, lambda: getattr(start().outerjoin(Post.owner), w)(Post.score >= 0)),
        ("outerjoin-blog", False, lambda: start().outerjoin(Post.blog)),
        ("order-by", True, lambda: start().order_by(Post.title.desc(), Post.id)),
        # the root entity itself is an ALIAS: the filter's columns must bind to that alias, not to the plain table
        ("aliased-root", False, lambda: (ses.query(sa.orm.aliased(Post, name="p_root")) if legacy else sa.select(sa.orm.aliased(Post, name="p_root")))),
        ("aliased-root-where", False, lambda: (lambda P_: getattr(ses.query(P_) if legacy else sa.select(P_), w)(P_.score >= 1))(sa.orm.aliased(Post, name="p_root"))),
        ("join-blog-where", False, lambda: getattr(start().join(Post.blog), w)(Blog.title != "b2")),
        ("join-both-order", True, lambda: start().join(Post.blog).join(Post.author).order_by(Post.id.desc())),
    ]
    return bases


def core_bases(R):
    tbl = R["Post"].__table__
    return [("plain", False, lambda: sa.select(tbl)), ("where", False, lambda: sa.select(tbl).where(tbl.c.score >= 2)),
            ("order-by", True, lambda: sa.select(tbl).order_by(tbl.c.title.desc(), tbl.c.id))]


def django_bases(M):
    from django.db.models import Count
    P = M.Post
    return [
        ("manager", False, lambda: P.objects),
        ("all", False, lambda: P.objects.all()),
        ("filter", False, lambda: P.objects.filter(score__gte=2)),
        ("exclude", False, lambda: P.objects.exclude(title="t1")),
        ("annotate", False, lambda: P.objects.annotate(ncom=Count("comments"))),
        ("order-by", True, lambda: P.objects.order_by("-title", "id")),
        ("chained", True, lambda: P.objects.filter(score__gte=0).exclude(title="zz").order_by("-id")),
        ("prejoined-filter", False, lambda: P.objects.filter(blog__title__in=["b1", "b2", "b0"])),
        # a Manager (not a QuerySet) that is not the default one, and a related manager: their own conditions must survive
        ("narrowing-manager", False, lambda: P.high),
        ("related-manager", False, lambda: (M.Blog.objects.order_by("id").first().posts if M.Blog.objects.exists() else P.high)),
        ("select-related", False, lambda: P.objects.select_related("blog")),
        ("annotate-filter", False, lambda: P.objects.annotate(ncom=Count("comments")).filter(ncom__gte=1)),
    ]


def exec_sa(q, legacy, core=False):
    ses = session()
    if legacy:
        return [r.id for r in q.all()]
    if core:
        return [r.id for r in ses.execute(q)]
    return [r.id for r in ses.execute(q).scalars()]


def from_tables(sql):
    """correlation names in FROM / JOIN position of the OUTER query (subqueries skipped), via the independent lexer;
    `tbl AS alias` counts as `alias` (an aliased join is a different row source than the plain table)"""
    toks = sqllex.lex(sql)
    out = []
    depth = 0
    in_from = False
    expect_name = False
    i = 0
    while i < len(toks):
        t = toks[i]
        if t.kind == "op" and t.value == "(":
            depth += 1
        elif t.kind == "op" and t.value == ")":
            depth -= 1
        elif depth == 0 and t.kind == "word" and t.value in ("FROM", "JOIN"):
            in_from, expect_name = True, True
        elif depth == 0 and t.kind == "word" and t.value in ("WHERE", "ORDER", "GROUP", "HAVING", "LIMIT"):
            in_from = False
        elif depth == 0 and in_from and t.kind == "op" and t.value == ",":
            expect_name = True
        elif depth == 0 and in_from and expect_name and t.kind in ("word", "qid"):
            name = t.value.lower() if t.kind == "word" else t.value
            if i + 2 < len(toks) and toks[i + 1].kind == "word" and toks[i + 1].value == "AS" and toks[i + 2].kind in ("word", "qid"):
                name = toks[i + 2].value.lower() if toks[i + 2].kind == "word" else toks[i + 2].value
                i += 2
            out.append(name)
            expect_name = False
        i += 1
    return out


def check_instance(acc, fam, db):
    import warnings
    warnings.simplefilter("ignore")
    M = rel_load.load_django(db)
    R = rel_load.load_sa(db)
    session().expire_all()
    ev = RL.RelEval(db)
    from odata_query.django import apply_odata_query as dj_apply
    from odata_query.sqlalchemy import apply_odata_core, apply_odata_query as sa_apply
    acc.count("states")
    truth = {}
    for fk, term in FILTERS:
        rt = ev.rows_true("Post", term)
        if rt is None:
            raise RuntimeError("oracle undefined for %s" % to_odata(term))
        truth[fk] = set(rt)
    plans = [("sa-select", sa_bases(R, False), False, False), ("sa-query", sa_bases(R, True), True, False),
             ("sa-core", core_bases(R), False, True), ("django", django_bases(M), False, False)]
    for backend, bases, legacy, core in plans:
        for bname, ordered, mk in bases:
            try:
                if backend == "django":
                    base_ids = list(mk().values_list("id", flat=True)) if bname != "manager" else list(mk().all().values_list("id", flat=True))
                else:
                    base_ids = exec_sa(mk(), legacy, core)
            except Exception as e:  # noqa
                raise RuntimeError("base query %s/%s failed by itself: %r" % (backend, bname, e))
            for fk, term in FILTERS:
                if core and fk != "scalar":
                    continue
                text = to_odata(term)
                acc.count("executions")
                acc.count("transitions")
                exp = [i for i in base_ids if i in truth[fk]]
                if exp != base_ids:
                    acc.count("nontrivial")
                info = {"backend": backend, "base": bname, "filter": text, "filter_kind": fk, "family": fam,
                        "instance": db.describe() if db.size() < 40 else "product"}
                try:
                    if backend == "django":
                        q = dj_apply(mk(), text)
                        got = list(q.values_list("id", flat=True))
                        sql = str(q.query)
                    else:
                        q = (apply_odata_core if core else sa_apply)(mk(), text)
                        got = exec_sa(q, legacy, core)
                        stmt = q.statement if legacy else q
                        sql = str(stmt.compile(dialect=sa_sqlite.dialect()))
                except Exception as e:  # noqa
                    if backend != "django":
                        session().rollback()
                    finding = None
                    if backend.startswith("sa") and bname == "join-blog-entity" and "ambiguous column name: sa_blog" in str(e) and fk != "scalar":
                        finding = "sa:prejoined-by-entity-joined-again"
                    if backend.startswith("sa") and "ambiguous column name" in str(e):
                        # base joins table T through one relationship, the filter reaches T through a different to-one path
                        from checks.C04 import joined_prefixes
                        base_joins = BASE_JOINS.get(bname, {})
                        for prefix, tbl in joined_prefixes("Post", term).items():
                            if tbl in base_joins and base_joins[tbl] != prefix:
                                finding = "sa:same-table-joined-via-two-paths"
                    acc.violation("%s:exception:%s:%s:%s" % (backend, type(e).__name__, bname, fk), dict(info, error=str(e)[:200].replace("\n", " ")), finding=finding)
                    continue
                same = (got == exp) if ordered else (sorted(got) == sorted(exp))
                if not same:
                    finding = None
                    if backend.startswith("sa") and bname in ("join-of-type-alias", "outerjoin-blog-and"):
                        from checks.C04 import joined_prefixes
                        if ("blog",) in joined_prefixes("Post", term):
                            # the base joins Post.blog in its own way (alias / extra ON criterion); the shorthand compares only the
                            # relationship's name, skips the join the filter needs and the filter's columns bind to the wrong row source
                            finding = "sa:base-join-of-same-relationship-taken-for-the-filters-join"
                    acc.violation("%s:rows:%s:%s" % (backend, bname, fk), dict(info, expected=exp[:30], observed=got[:30], base_result=base_ids[:30]), finding=finding)
                    continue
                tabs = from_tables(sql)
                dup = sorted({t for t in tabs if tabs.count(t) > 1})
                if dup:
                    acc.violation("%s:joined-twice:%s:%s" % (backend, bname, fk), dict(info, sql=sql[:400], tables=tabs))
                    continue
                acc.outcome((backend, bname, fk))


def _unit(unit):
    django_h.setup()
    acc = Acc()
    inst = RL.small_instances()
    for i in unit:
        if i == "product":
            members = [inst[j] for j in range(0, len(inst), 9)] + [x for x in inst if x[0] in ("E",)]
            check_instance(acc, "product", RL.product_instance(members))
        else:
            fam, db = inst[i]
            check_instance(acc, fam, db)
    acc.sample({"base": "select(Post).join(Post.blog).where(Blog.title != 'b2')", "filter": to_odata(FILTERS[2][1])}, cap=1)
    return acc


# ---------------------------------------------------------------- registry histories
REG_SCRIPT = r'''
import sys, json
hist = json.loads(sys.argv[1])
import sqlalchemy as sa
from sqlalchemy import func, literal_column
from sqlalchemy.dialects import sqlite
obs = []
for op in hist:
    if op == "import":
        import odata_query.sqlalchemy  # noqa
        obs.append(["import", "ok"])
        continue
    kind, name = op.split(":")
    try:
        f = getattr(func.odata, name) if kind == "use-odata" else getattr(func, name)
        e = f(literal_column("x"))
        obs.append([op, str(e.compile(dialect=sqlite.dialect())), type(e.type).__name__, type(e).__name__])
    except Exception as ex:
        obs.append([op, "EXC", type(ex).__name__, str(ex)[:80]])
print(json.dumps(obs))
'''
EXT_NAMES = ["strpos", "substr", "lower", "upper", "ltrim", "rtrim", "ceil", "floor", "round"]


def run_history(hist):
    env = dict(os.environ, PYTHONPATH=os.environ.get("VERIF_REPO", "/repo"))
    out = subprocess.run([sys.executable, "-c", REG_SCRIPT, json.dumps(hist)], env=env, capture_output=True, text=True, timeout=120)
    if out.returncode != 0:
        raise RuntimeError("registry subprocess failed: %s" % out.stderr[-300:])
    return json.loads(out.stdout.strip().splitlines()[-1])


def _reg_unit(hists):
    acc = Acc()
    for hist, baseline in hists:
        obs = run_history(hist)
        acc.count("executions")
        acc.count("transitions", len(hist))
        acc.count("states")
        for op, o in zip(hist, obs):
            if op == "import" or op.startswith("use-odata"):
                continue
            if o != baseline[op]:
                acc.violation("registry:%s" % op, {"layer": "registry", "history": hist, "op": op, "expected": baseline[op], "observed": o})
                break
        else:
            acc.outcome(("registry-ok", "import" in hist))
    return acc


SWEEP_SCRIPT = r'''
import sys, json
mode = sys.argv[1]
import sqlalchemy as sa
from sqlalchemy import func, literal_column
from sqlalchemy.sql import functions as F
from sqlalchemy.dialects import sqlite, postgresql, mysql
names = sorted(set(F._registry["_default"]) | {"concat", "coalesce", "lower", "upper", "length", "char_length", "substr", "substring", "strpos", "instr",
               "round", "floor", "ceil", "ceiling", "trunc", "ltrim", "rtrim", "trim", "replace", "now", "current_timestamp", "date", "time", "year",
               "extract", "cast", "abs", "mod", "max", "min", "sum", "count", "random", "nullif", "like", "contains", "startswith", "endswith", "indexof"})
dialects = {"default": None, "sqlite": sqlite.dialect(), "postgresql": postgresql.dialect(), "mysql": mysql.dialect()}
x, y = literal_column("x"), literal_column("y")
def observe():
    out = {}
    for nm in names:
        for shape, args in (("1", (x,)), ("2", (x, y)), ("0", ())):
            try:
                e = getattr(func, nm)(*args)
            except Exception as ex:
                out["%s/%s" % (nm, shape)] = ["EXC", type(ex).__name__]
                continue
            for dn, d in dialects.items():
                try:
                    txt = str(e.compile(dialect=d)) if d is not None else str(e)
                    txt = __import__("re").sub(r" at 0x[0-9a-f]+", "", txt)      # object addresses differ between processes
                    out["%s/%s/%s" % (nm, shape, dn)] = [txt, type(e.type).__name__, type(e).__name__]
                except Exception as ex:
                    out["%s/%s/%s" % (nm, shape, dn)] = ["EXC", type(ex).__name__]
    return out
res = {}
if mode == "never":
    res["use"] = observe()
elif mode == "import-first":
    import odata_query.sqlalchemy  # noqa
    res["use"] = observe()
else:
    res["before"] = observe()
    import odata_query.sqlalchemy  # noqa
    res["use"] = observe()
print(json.dumps(res))
'''


def run_sweep(mode):
    env = dict(os.environ, PYTHONPATH=os.environ.get("VERIF_REPO", "/repo"))
    out = subprocess.run([sys.executable, "-c", SWEEP_SCRIPT, mode], env=env, capture_output=True, text=True, timeout=600)
    if out.returncode != 0:
        raise RuntimeError("registry sweep subprocess failed: %s" % out.stderr[-300:])
    return json.loads(out.stdout.strip().splitlines()[-1])


def registry_sweep(ctx):
    """every function name SQLAlchemy registers (plus common ones) x 0/1/2 arguments x 4 dialects: what the host's func.<name>(...) compiles
    to in a process that never imports the backend, in one that imports it first, and before / after the import in one process"""
    base = run_sweep("never")["use"]
    n = 0
    for mode in ("import-first", "use-import-use"):
        res = run_sweep(mode)
        for phase, obs in res.items():
            for key, want in base.items():
                n += 1
                ctx.count("executions")
                if obs.get(key) != want:
                    ctx.violation("registry-sweep:%s" % key.split("/")[0], {"layer": "registry-sweep", "mode": mode, "phase": phase, "key": key, "expected": want, "observed": obs.get(key)})
                    break
            else:
                ctx.outcome(("sweep-ok", mode, phase))
    ctx.count("states", len(base))
    return len(base)


def registry_layer(ctx):
    core = ["import", "use:lower", "use:round", "use:strpos"]
    hists = []
    for n in (1, 2, 3):
        for h in product(core, repeat=n):
            hists.append(list(h))
    for name in EXT_NAMES:
        hists += [["use:" + name, "import", "use:" + name], ["import", "use:" + name], ["import", "use-odata:" + name, "use:" + name]]
    if ctx.quick:
        hists = [h for i, h in enumerate(hists) if len(h) < 3 or i % 2 == ctx.seed % 2 or "import" not in h[:1]]
    # baseline: a process that never imports the backend
    baseline = {}
    for name in EXT_NAMES:
        baseline["use:" + name] = run_history(["use:" + name])[0]
    work = [(h, baseline) for h in hists]
    ctx.pmap(_reg_unit, [work[i::32] for i in range(32) if work[i::32]])
    return len(hists)


# ---- base queries over the alternate schema of C04 (foreign key on a non-primary-key column, manager `rows`, reverse one-to-one)
def alt_bases(bk, M, R):
    """-> [(name, query, keep(db, j) -> bool, ordered ids or None)] over Item"""
    has_node = lambda db, j: db["items"][j][1] is not None          # noqa
    i1 = lambda db, j: db["items"][j][0] == "i1"                     # noqa
    every = lambda db, j: True                                       # noqa
    Item, Node = R["Item"], R["Node"]
    if bk == "django":
        return [("plain", M.Item.rows.all(), every), ("where", M.Item.rows.filter(name="i1"), i1),
                ("select-related", M.Item.rows.select_related("node"), every), ("filter-node", M.Item.rows.filter(node__isnull=False), has_node),
                ("exclude", M.Item.rows.exclude(name="i1"), lambda db, j: not i1(db, j)), ("ordered", M.Item.rows.order_by("-id"), every)]
    mk = (lambda: session().query(Item)) if bk == "sa-query" else (lambda: sa.select(Item))
    return [("plain", mk(), every), ("where", mk().where(Item.name == "i1"), i1), ("join-node", mk().join(Item.node), has_node),
            ("outerjoin-node", mk().outerjoin(Item.node), every), ("join-node-where", mk().join(Item.node).where(Node.code != "zz"), has_node),
            ("ordered", mk().order_by(Item.id.desc()), every)]


def _alt_bases_unit(dbs):
    from checks import C04
    django_h.setup()
    acc = Acc()
    for db in dbs:
        M, R = C04._alt_load(db)
        acc.count("states")
        for bk in ("django", "sa-select", "sa-query"):
            for bname, q, keep in alt_bases(bk, M, R):
                for text, pred in C04.ALT_FILTERS["Item"].items():
                    want = [j + 1 for j in range(2) if keep(db, j) and pred(db, j)]
                    if bname == "ordered":
                        want = want[::-1]
                    acc.count("executions")
                    acc.count("transitions")
                    try:
                        if bk == "django":
                            from odata_query.django import apply_odata_query
                            got = list(apply_odata_query(q, text).values_list("id", flat=True))
                        else:
                            from odata_query.sqlalchemy import apply_odata_query
                            q2 = apply_odata_query(q, text)
                            got = [r.id for r in (q2.all() if bk == "sa-query" else session().execute(q2).scalars())]
                        if bname != "ordered":
                            got = sorted(got)
                    except Exception as e:  # noqa
                        if bk != "django":
                            session().rollback()
                        got = ("EXC", type(e).__name__, str(e)[:160].replace("\n", " "))
                    if got != want:
                        kind = "exc:" + got[1] if isinstance(got, tuple) else "rows"
                        acc.violation("alt-bases:%s:%s:%s" % (bk, bname, kind),
                                      {"layer": "alt-bases", "backend": bk, "base": bname, "filter": text, "db": {"items": db["items"], "extras": list(db["extras"])},
                                       "expected": want, "observed": list(got) if isinstance(got, tuple) else got})
                    else:
                        acc.outcome(("alt-bases", bk, bname, len(want)))
    return acc


def run(ctx):
    django_h.setup()
    inst = RL.small_instances()
    fam_idx = {}
    for i, (fam, _) in enumerate(inst):
        fam_idx.setdefault(fam, []).append(i)
    if ctx.quick:
        B = 12
        chosen = fam_idx["E"] + fam_idx["F"] + fam_idx["C"][::8] + [i for fam in ("A", "B", "D") for j, i in enumerate(fam_idx[fam]) if j % B == ctx.seed % B]
    else:
        chosen = list(range(len(inst)))
    units = [["product"]] + [chosen[i::40] for i in range(40) if chosen[i::40]]
    ctx.pmap(_unit, units)
    ctx.layer("queries", instances=len(chosen) + 1, of=len(inst) + 1, filters=len(FILTERS), exhaustive=not ctx.quick,
              bases={"sa-select": 13, "sa-query": 13, "sa-core": 3, "django": 12})
    from checks import C04
    alt = C04.alt_instances()
    ctx.pmap(_alt_bases_unit, [alt[i::32] for i in range(32)])
    ctx.layer("alternate-schema-bases", instances=len(alt), filters=len(C04.ALT_FILTERS["Item"]), bases=6, backends=3, exhaustive=True,
              note="Item queries (plain, filtered, joined / outer-joined on the filter's own relationship, ordered) over the schema whose foreign key references a non-primary-key column")
    n = registry_layer(ctx)
    ctx.layer("registry", histories=n, names=EXT_NAMES, exhaustive=not ctx.quick)
    ns = registry_sweep(ctx)
    ctx.layer("registry-sweep", observations=ns, exhaustive=True,
              note="every registered SQLAlchemy function name x 0/1/2 arguments x {default, sqlite, postgresql, mysql}: never imported / imported first / used-imported-used")


def replay(ctx, case):
    django_h.setup()
    if case.get("layer") == "alt-bases":
        acc = _alt_bases_unit([{"items": [tuple(x) for x in case["db"]["items"]], "extras": tuple(case["db"]["extras"])}])
        mine = [v for v in acc.violations if all(v["case"][k] == case[k] for k in ("backend", "base", "filter"))]
        return {"violations": mine, "ok": not mine}
    if case.get("layer") == "registry-sweep":
        base = run_sweep("never")["use"].get(case["key"])
        res = run_sweep(case["mode"])[case["phase"]].get(case["key"])
        return {"key": case["key"], "expected": base, "observed": res, "ok": base == res}
    if case.get("layer") == "registry":
        obs = run_history(case["history"])
        base = run_history([case["op"]])[0]
        idx = case["history"].index(case["op"])
        return {"history": case["history"], "expected": base, "observed": obs, "ok": all(o == base for h, o in zip(case["history"], obs) if h == case["op"])}
    if case["instance"] == "product":
        return {"ok": False, "note": "product-instance case: rerun ./check C15"}
    db = RL.DB()
    for t, rows in case["instance"].items():
        if t == "post_tags":
            db.links = [tuple(l) for l in rows]
        else:
            db.rows[t] = rows
    acc = Acc()
    check_instance(acc, case["family"], db)
    mine = [v for v in acc.violations if v["case"]["backend"] == case["backend"] and v["case"]["base"] == case["base"] and v["case"]["filter"] == case["filter"]]
    return {"violations": mine, "ok": not mine}
