"""C11 - Function calls are accepted iff name and argument count match the OData table."""
from odata_query import exceptions
from odata_query.grammar import ODataLexer, ODataParser

from vt import lrx, refparse, terms as T
from vt.decode import decode
from vt.refparse import REF_FUNCTIONS, check_call
from vt.refprint import Printer, to_odata
from vt.runner import Acc, chunked

RULE = ("layer matrix: (name x argument count 0..5 x rotation of 24 argument kinds x 3 call layouts) over the 33 built-in "
        "names, case/prefix/extension/namespace near misses and custom namespaces, plus 1..5 named parameters and mixed forms; "
        "expected verdict and exception fields from a pinned copy of the OData function table. layer lr: BFS over real LR "
        "configurations with 6 identifier variants; whenever the independent reference parser finds the input syntactically "
        "fine, the function-table verdict (first offending call in reduction order, exception class and fields) must agree. "
        "non-trivial = distinct (name, count) pairs / LR inputs containing at least one call.")
ASSUMPTIONS = ["REF_FUNCTIONS is a faithful copy of the OData 4.01 built-in function table as listed by the library's documentation"]

_lx, _ps = ODataLexer(), ODataParser()

BUILTINS = sorted(REF_FUNCTIONS)
NEAR = []
for n in ("length", "substring", "now", "contains", "matchesPattern", "geo.length", "geo.distance"):
    base = n.split(".")[-1]
    NEAR += [n.upper(), n.capitalize() if "." not in n else "Geo." + base, n[:-1], n + "s", n + "_", "_" + base, "ns." + base,
             "a.b." + base, "geo.x." + base]
NEAR += ["matchespattern", "geo.now", "geo.contains", "distance", "intersects", "geo.zz", "zz", "not", "and", "in", "eq", "anyx",
         "cast", "isof", "exists", "has", "nullx", "truex", "mod1", "geo", "geo.geo.length", "ns.f", "ns.length", "n1.n2.f", "x.geo.length"]
# Unicode compatibility look-alikes (\w matches them): full-width / math-bold letters and digits are NOT the ASCII names
NEAR += ["\uff43oncat", "con\uff43at", "\uff4eow", "\uff47eo.distance", "geo.distance\uff12", "\U0001d427\U0001d428\U0001d430", "len\u0261th", "\uff4cength",
         "\uff47eo.length", "lengt\u02b0", "\u017fubstring", "\u212aontains"]
# the lambda keywords are keywords only at the end of a path; anywhere else `any(` / `all(` start a call of an unknown function
NEAR += ["any", "all", "ANY", "All", "geo.any", "ns.all", "anything", "allx"]
NEAR += ["geo." + n for n in REF_FUNCTIONS if "." not in n]      # every bare built-in moved into the geo namespace
# a namespace whose first segment is spelled like a literal keyword is still a namespace
NEAR += ["true.f", "false.f", "null.f", "Null.length", "null.x.f", "TRUE.f", "true.length", "nullx.f", "x.true", "x.null.f"]
NAMES = BUILTINS + sorted(set(NEAR) - set(BUILTINS))

a, b, one = T.I("a"), T.I("b"), T.Int(1)
ARG_KINDS = [
    a, one, T.Str("s"), T.path("a", "b"), T.NULL, T.Bool(True), T.Flt("1.5"), ("Date", "2020-02-29"), ("Time", "10:30:00"),
    ("DateTime", "2020-02-29T10:30:00Z"), ("Duration", "P1D"), ("GUID", "123e4567-e89b-12d3-a456-426614174000"),
    ("Geography", "POINT(1 2)"), T.lst(one, T.Int(2)), T.lst(one), T.call("tolower", a), T.call("f", one, ns=("ns",)),
    T.lam(T.I("xs"), "Any", "v", T.binop("Eq", T.path("v", "p"), one)), T.binop("Add", a, one), T.binop("Eq", a, one),
    T.binop("And", a, b), T.unop("Not", a), T.unop("USub", a), T.binop("In", a, T.lst(one, T.Int(2))),
]

LAYOUTS = {
    "tight": Printer(comma=","),
    "std": Printer(comma=", "),
    "loose": Printer(comma=" , "),
}


def ident_of(name):
    parts = name.split(".")
    return T.I(parts[-1], tuple(parts[:-1]))


def expected(ident, args):
    err = check_call(ident, args)
    if err is None:
        return ("accept", ("Call", ident, ("[]",) + tuple(args)))
    if err.kind == "unknown":
        return ("unknown", err.name)
    return ("argcount", (err.name, err.lo, err.hi, err.given))


def observe(text):
    try:
        r = _ps.parse(_lx.tokenize(text))
        return ("accept", decode(r))
    except exceptions.UnknownFunctionException as e:
        return ("unknown", e.function_name)
    except exceptions.ArgumentCountException as e:
        return ("argcount", (e.function_name, e.exp_min_args, e.exp_max_args, e.n_args_given))
    except exceptions.ODataException as e:
        return ("lib-other", type(e).__name__)
    except Exception as e:  # noqa
        return ("foreign", type(e).__name__)


def call_text(name, args, layout, inner_ws=False):
    pr = LAYOUTS[layout]
    body = pr.comma.join(pr.p(x) for x in args)
    if inner_ws and args:
        body = " " + body + " "
    return name + "(" + body + ")"


def _matrix_unit(names):
    acc = Acc()
    K = len(ARG_KINDS)
    for name in names:
        ident = ident_of(name)
        for n in range(0, 6):
            acc.count("states")
            acc.count("nontrivial")
            rots = range(K) if n else [0]
            for r in rots:
                args = [ARG_KINDS[(r + i * 5) % K] for i in range(n)]
                exp = expected(ident, args)
                for layout in LAYOUTS:
                    for inner in (False, True):
                        if inner and not args:
                            continue
                        text = call_text(name, args, layout, inner)
                        # embed in two contexts: alone and as a comparison operand
                        for ctxname, full, wrap in (("alone", text, lambda t: t),
                                                   ("cmp", text + " eq 1", lambda t: T.binop("Eq", t, one))):
                            got = observe(full)
                            acc.count("executions")
                            acc.count("transitions")
                            e = exp if exp[0] != "accept" else ("accept", wrap(exp[1]))
                            acc.outcome((e[0], got[0]))
                            if got != e:
                                acc.violation("matrix:%s:%s->%s" % (_nameclass(name), e[0], got[0]),
                                              {"layer": "matrix", "text": full, "expected": e, "observed": got})
        acc.sample({"layer": "matrix", "text": call_text(name, [ARG_KINDS[3], ARG_KINDS[1]], "std")}, cap=1)
    return acc


def _nameclass(name):
    if name in REF_FUNCTIONS:
        return "builtin"
    parts = name.split(".")
    if len(parts) == 1:
        return "bare-unknown"
    if parts[:-1] == ["geo"]:
        return "geo-unknown"
    return "custom-ns"


REPEATED = ["a", "b", "a", "c", "a"]     # the same parameter name more than once: every argument is kept, in source order


def _named_unit(names):
    acc = Acc()
    K = len(ARG_KINDS)
    pnames = ["to", "from", "Beta", "alpha", "_z9"]     # deliberately not in any sorted order: source order is kept
    for name in names:
        ident = ident_of(name)
        for n in range(1, 6):
            acc.count("states")
            for r in range(0, K, 3):
                for pn in (pnames, REPEATED):
                    args = [T.named(pn[i], ARG_KINDS[(r + i * 7) % K]) for i in range(n)]
                    exp = expected(ident, args)
                    for layout in LAYOUTS:
                        text = call_text(name, args, layout)
                        got = observe(text)
                        acc.count("executions")
                        acc.count("transitions")
                        acc.outcome(("named", exp[0], got[0]))
                        if got != exp:
                            acc.violation("named:%s:%d:%s->%s" % (_nameclass(name), min(n, 3), exp[0], got[0]),
                                          {"layer": "named", "text": text, "expected": exp, "observed": got})
            # mixed positional/named: not "all positional or all named" -> must be refused by a library error
            for mixed in ("%s(1, p=2)" % name, "%s(p=1, 2)" % name, "%s(p=1, 2, q=3)" % name):
                got = observe(mixed)
                acc.count("executions")
                acc.outcome(("mixed", got[0]))
                if got[0] in ("accept", "foreign"):
                    acc.violation("mixed:%s" % got[0], {"layer": "mixed", "text": mixed, "expected": "library error", "observed": got})
    return acc


def history_layer(ctx):
    """the (name x count) matrix once more, serially in ONE process on ONE shared lexer/parser pair: in enumeration
    order, in reverse order, and interleaved by bare name (X, geo.X, ns.X, X.upper() adjacent).  A verdict must not
    depend on which calls were parsed before (memo tables keyed by a part of the name, registries, ...)."""
    cases = []
    for name in NAMES:
        ident = ident_of(name)
        for n in range(0, 4):
            args = [ARG_KINDS[(i * 5 + 1) % len(ARG_KINDS)] for i in range(n)]
            cases.append((name, call_text(name, args, "std"), expected(ident, args)))
    by_bare = sorted(cases, key=lambda c: (c[0].split(".")[-1].lower(), len(c[1]), c[0]))
    for order_name, seq in (("forward", cases), ("reverse", cases[::-1]), ("by-bare-name", by_bare), ("by-bare-name-reverse", by_bare[::-1])):
        poison = ["zz9(1) eq", "substring(a) and #", "length(a, b) eq (", "geo.zz(1) )", "a eq eq 1"]
        for i, (name, text, exp) in enumerate(seq):
            if order_name == "forward":
                observe(poison[i % len(poison)])      # a rejected input (bad call reduced before a syntax error) on the same parser
            got = observe(text)
            ctx.count("executions")
            ctx.count("transitions")
            if got != exp:
                ctx.violation("history:%s:%s:%s->%s" % (order_name, _nameclass(name), exp[0], got[0]),
                              {"layer": "history", "order": order_name, "text": text, "expected": exp, "observed": got})
            else:
                ctx.outcome(("history", order_name, exp[0]))
    return len(cases)


def judge_lr(entries, config, out, acc):
    toks = lrx.ref_tokens(entries)
    if not any(t[0] == "(" for t in toks):
        return
    try:
        ref = ("accept", refparse.ref_parse(toks))
    except refparse.RefReject:
        return
    except refparse.RefFunctionError as e:
        ref = ("unknown", e.name) if e.kind == "unknown" else ("argcount", (e.name, e.lo, e.hi, e.given))
    if out[0] == "ok":
        got = ("accept", decode(out[1]))
    else:
        e = out[1]
        if isinstance(e, exceptions.UnknownFunctionException):
            got = ("unknown", e.function_name)
        elif isinstance(e, exceptions.ArgumentCountException):
            got = ("argcount", (e.function_name, e.exp_min_args, e.exp_max_args, e.n_args_given))
        else:
            got = ("other", type(e).__name__)
    acc.count("lr_compared")
    acc.count("nontrivial")
    if got != ref:
        acc.violation("lr:%s->%s" % (ref[0], got[0]), {"layer": "lr", "tokens": [e[1] for e in entries], "text": lrx.text_of(entries),
                                                       "expected": ref, "observed": got})


def run(ctx):
    ctx.pmap(_matrix_unit, list(chunked(NAMES, 4)))
    ctx.layer("matrix", names=len(NAMES), builtins=len(BUILTINS), counts="0..5", arg_kinds=len(ARG_KINDS), layouts=len(LAYOUTS) * 2,
              exhaustive=True)
    named_heads = ["ns.f", "n1.n2.f", "length", "substring", "now", "geo.length", "geo.zz", "zz", "Geo.length"]
    ctx.pmap(_named_unit, [[n] for n in named_heads])
    ctx.layer("named", heads=len(named_heads), counts="1..5", exhaustive=True)
    nh = history_layer(ctx)
    ctx.layer("history", cases=nh, orders=4, exhaustive=True)
    depth = 5 if ctx.quick else 7
    st = lrx.bfs(ctx, judge_lr, depth)
    ctx.layer("lr", bfs_depth=st["depth_completed"], exhaustive=st["complete_to_depth"], configurations=st["configs"],
              compared=int(ctx.counts["lr_compared"]))


def _untuple(x):
    if isinstance(x, list):
        return tuple(_untuple(e) for e in x)
    return x


def replay(ctx, case):
    if case["layer"] == "lr":
        entries = [next(e for e in lrx.ALPHABET if e[1] == t) for t in case["tokens"]]
        acc = Acc()
        config, out = lrx.run_prefix(ODataParser(), entries)
        judge_lr(entries, config, out, acc)
        return {"text": case["text"], "violations": acc.violations, "ok": not acc.violations}
    if case["layer"] == "history":
        acc = Acc()
        history_layer(acc)
        return {"violations": acc.violations[:5], "ok": not acc.violations}
    got = observe(case["text"])
    exp = _untuple(case["expected"])
    ok = (got == exp) if case["layer"] != "mixed" else got[0] not in ("accept", "foreign")
    return {"text": case["text"], "expected": exp, "observed": got, "ok": ok}
