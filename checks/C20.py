"""C20 - Lexer and parser instances are reusable and deterministic."""
import hashlib
import json
import os
import subprocess
import sys
from itertools import product

from odata_query import ast, exceptions, grammar
from odata_query.grammar import ODataLexer, ODataParser
from odata_query.rewrite import AliasRewriter

from vt import lrx, sched
from vt.decode import decode, digest_ast
from vt.runner import Acc, chunked

RULE = ("layer histories: every sequence of <=k parse calls (menu of 16 inputs: valid filters, syntax errors at first/middle/last "
        "token and at end of input, tokenizing errors, unknown function, wrong arity, empty/blank, a 2000-token input) on one shared "
        "(lexer, parser) pair and on one lexer shared by two parsers; after every call the outcome must equal the outcome on fresh "
        "instances. layer states: BFS over the same operations deduplicated by a canonical snapshot of all instance attributes plus "
        "mutable module/class state. layer schedules: 2-3 concurrent parses as greenlets switching before every token pull, all "
        "schedules with <=p preemptions (separate lexers and one shared lexer). layer processes: outcome digest of a corpus in fresh "
        "subprocesses for 6 hash seeds x 3 import orders. layer rewriter: AliasRewriter with instances taken from every history state. "
        "layer finalisers: the suspended token generator of a parse that raised is closed at every line-event placement during the next parse. "
        "non-trivial = distinct (history, probe) pairs whose history contains a raising call or whose schedule has >=1 preemption.")
ASSUMPTIONS = ["token pulls are the only points where two pure-python parses can interleave on one thread",
               "hash seeds {0,1,2,3,4,random} and 3 import orders stand for 'any'"]

LONG = " and ".join("a%d eq %d" % (i, i) for i in range(500))
MENU = [
    "a eq 1", "a in (1, 2, 3)", "contains(tolower(name), 'x') eq true", "xs/any(x: x/p gt 1) and not (b lt 2)", "a/b/c/d eq null",
    "ns.f(p=1, q='s', r=(1, 2))", "eq a", "a eq eq 1", "a eq 1 )", "a eq", "$a eq 1", "a eq 1 $", "zz(1)", "length(a, b)", "", "   ",
    LONG, "(1, 2,", "a/b/c/any(", "'unterminated",
    # the same function first valid, then with a wrong argument count / in another namespace (per-instance memo tables)
    "zz(1) eq eq 2", "substring(a) and", "length(a, b) eq (1",
    # equal after collapsing whitespace, different inside a quoted literal (text-keyed token caches)
    "a eq 'big  data'", "a eq 'big data'", "a  eq 'big data'",
    "length(a) eq 1", "substring(a, 1) eq 'x'", "substring(a) eq 'x'", "geo.length(a, b)", "ns.length(a, b, c) eq 1",
]

_fresh_cache = {}


def outcome_of(lexer, parser, text):
    try:
        r = parser.parse(lexer.tokenize(text))
    except BaseException as e:  # noqa
        if isinstance(e, (KeyboardInterrupt, SystemExit)):
            raise
        return ("exc", type(e).__name__, str(e)[:300])
    if r is None:
        return ("none",)
    return ("ok", digest_ast(r))


def _fresh_in_new_process(text):
    return outcome_of(ODataLexer(), ODataParser(), text)


def prime_fresh_outcomes(texts):
    """reference outcomes: every text parsed by fresh instances in a process of its OWN (maxtasksperchild=1), so that
    class-/module-level state left behind by other inputs cannot leak into the reference"""
    import multiprocessing as mp
    with mp.get_context("fork").Pool(8, maxtasksperchild=1) as pool:
        for t, o in zip(texts, pool.map(_fresh_in_new_process, texts, chunksize=1)):
            _fresh_cache[t] = o


def fresh_outcome(text):
    if text not in _fresh_cache:
        _fresh_cache[text] = outcome_of(ODataLexer(), ODataParser(), text)
    return _fresh_cache[text]


def _gen_state(g):
    if g is None:
        return None
    fr = getattr(g, "gi_frame", None)
    if fr is None:
        return "gen:done"
    return "gen:live@%d" % fr.f_lasti


def _module_state():
    """digest of every mutable module-level / class-level object the grammar can reach"""
    parts = []
    for mod in (grammar, ast, exceptions):
        for k, v in sorted(vars(mod).items()):
            if isinstance(v, (list, dict, set)) and not k.startswith("__"):
                parts.append((mod.__name__, k, repr(v)))
    lt = ODataParser._lrtable
    parts.append(("lr_action", repr(sorted((s, sorted(r.items())) for s, r in lt.lr_action.items()))))
    parts.append(("lr_goto", repr(sorted((s, sorted(r.items())) for s, r in lt.lr_goto.items()))))
    parts.append(("master_re", ODataLexer._master_re.pattern))
    parts.append(("prods", repr([str(p) for p in ODataParser._grammar.Productions])))
    for cls in (ODataLexer, ODataParser):
        for k, v in sorted(vars(cls).items()):
            if isinstance(v, (list, dict, set)) and not k.startswith("__"):
                parts.append((cls.__name__, k, hashlib.sha1(repr(v).encode()).hexdigest()))
    return hashlib.sha1(repr(parts).encode()).hexdigest()[:12]


def snapshot(lexer, parsers):
    lx = {k: v for k, v in vars(lexer).items() if not callable(v)}
    ps = []
    for p in parsers:
        d = {}
        for k, v in vars(p).items():
            if k == "tokens":
                d[k] = _gen_state(v)
            elif k == "symstack":
                d[k] = [(getattr(s, "type", None), repr(lrx.alpha(getattr(s, "value", None), getattr(s, "type", None)))) for s in v]
            elif k == "_lrtable":
                d[k] = "proxy"
            else:
                d[k] = repr(v)[:200]
        ps.append(sorted(d.items()))
    return json.dumps([sorted((k, repr(v)[:3000]) for k, v in lx.items()), ps, _module_state()], sort_keys=True)


def play(hist, nparsers=1):
    """replay a history on fresh shared objects; returns (lexer, parsers, outcomes)"""
    lexer = ODataLexer()
    parsers = [ODataParser() for _ in range(nparsers)]
    outs = []
    for pid, mi in hist:
        outs.append(outcome_of(lexer, parsers[pid], MENU[mi]))
    return lexer, parsers, outs


def _hist_unit(unit):
    hists, nparsers = unit
    acc = Acc()
    for hist in hists:
        lexer, parsers, outs = play(hist, nparsers)
        acc.count("executions", len(hist))
        acc.count("transitions", len(hist))
        raising = False
        for (pid, mi), o in zip(hist, outs):
            exp = fresh_outcome(MENU[mi])
            if o != exp:
                acc.violation("history:%dp:%s->%s" % (nparsers, exp[0], o[0]),
                              {"layer": "histories", "nparsers": nparsers, "history": [[pid, MENU[m][:60]] for pid, m in hist],
                               "history_idx": [list(h) for h in hist], "probe": MENU[mi][:60], "expected": exp, "observed": o})
                break
            acc.outcome(o[:2])
            raising = raising or o[0] != "ok"
        if raising:
            acc.count("nontrivial")
    return acc


def all_histories(k, nparsers):
    ops = [(pid, mi) for pid in range(nparsers) for mi in range(len(MENU))]
    for n in range(1, k + 1):
        for h in product(ops, repeat=n):
            yield h


def _state_unit(unit):
    hists, nparsers = unit
    acc = Acc()
    ops = [(pid, mi) for pid in range(nparsers) for mi in range(len(MENU))]
    found = []
    for hist in hists:
        for op in ops:
            h = hist + (op,)
            lexer, parsers, outs = play(h, nparsers)
            acc.count("executions", len(h))
            acc.count("transitions")
            exp = fresh_outcome(MENU[op[1]])
            if outs[-1] != exp:
                acc.violation("states:%dp:%s->%s" % (nparsers, exp[0], outs[-1][0]),
                              {"layer": "states", "nparsers": nparsers, "history_idx": [list(x) for x in h],
                               "probe": MENU[op[1]][:60], "expected": exp, "observed": outs[-1]})
            found.append((h, hashlib.sha1(snapshot(lexer, parsers).encode()).hexdigest()))
    acc.found = found
    return acc


def state_bfs(ctx, max_depth, nparsers=1):
    import multiprocessing as mp
    seen = {}
    frontier = [()]
    levels = []
    for depth in range(1, max_depth + 1):
        new = []
        units = [(c, nparsers) for c in chunked(frontier, max(1, len(frontier) // 64 + 1))]
        with mp.get_context("fork").Pool(min(16, len(units))) as pool:
            for acc in pool.imap(_state_unit, units):
                for h, s in acc.found:
                    if s not in seen:
                        seen[s] = h
                        new.append(h)
                acc.found = None
                ctx.merge(acc)
        levels.append({"depth": depth, "new_states": len(new)})
        frontier = new
        if not new:
            break
    ctx.count("states", len(seen))
    return {"states": len(seen), "levels": levels, "converged": not frontier, "witness": seen}


# ---------------------------------------------------------------- schedules
class TokenSource:
    """wraps lexer.tokenize(text): yields to the scheduler before every pull"""

    def __init__(self, s, gen):
        self.s, self.gen = s, gen

    def __iter__(self):
        return self

    def __next__(self):
        self.s.point()
        return next(self.gen)


def make_tasks(texts, shared_lexer):
    def factory():
        lex = ODataLexer() if shared_lexer else None
        tasks = []
        for text in texts:
            def task(s, text=text):
                lexer = lex or ODataLexer()
                parser = ODataParser()
                r = parser.parse(TokenSource(s, lexer.tokenize(text)))
                return None if r is None else digest_ast(r)
            tasks.append(task)
        return tasks
    return factory


def _sched_unit(unit):
    texts, shared, bound, cap = unit
    acc = Acc()
    exp = []
    for t in texts:
        o = fresh_outcome(t)
        exp.append(o)
    seen_orders = set()

    def on_exec(x):
        acc.count("executions")
        acc.count("transitions", len(x.points))
        acc.count("states")
        pre = x.preemptions_before(len(x.points))
        if pre:
            acc.count("nontrivial")
        seen_orders.add(tuple(x.order))
        for tid, t in enumerate(texts):
            kind, v = x.results[tid]
            got = ("ok", v) if kind == "ok" and v is not None else ("none",) if kind == "ok" else ("exc", type(v).__name__, str(v)[:300])
            if got != exp[tid]:
                acc.violation("schedule:%s:%s->%s" % ("shared" if shared else "separate", exp[tid][0], got[0]),
                              {"layer": "schedules", "texts": list(texts), "shared_lexer": shared, "choices": list(x.choices),
                               "order": list(x.order), "task": tid, "expected": exp[tid], "observed": got})
                return
        acc.outcome(("sched-ok", shared, len(texts)))

    n = sched.explore(make_tasks(texts, shared), bound, on_exec, max_executions=cap)
    acc.count("schedules_distinct_orders", len(seen_orders))
    acc.sample({"layer": "schedules", "texts": list(texts), "shared_lexer": shared, "preemption_bound": bound, "schedules": n}, cap=1)
    if cap is not None and n >= cap:
        acc.count("sched_capped")
    return acc


# ---------------------------------------------------------------- processes
PROC_SCRIPT = r'''
import sys, json, hashlib
order = sys.argv[1]
if order == "backends-first":
    try:
        import odata_query.sqlalchemy
    except Exception: pass
    try:
        import django; from django.conf import settings
        settings.configure(INSTALLED_APPS=[], DATABASES={})
        django.setup()
        import odata_query.django
    except Exception: pass
    import odata_query.sql
elif order == "rewrite-first":
    import odata_query.rewrite, odata_query.roundtrip, odata_query.typing
from odata_query.grammar import ODataLexer, ODataParser
sys.path.insert(0, "/verif")
from vt.decode import digest_ast
corpus = json.load(open(sys.argv[2]))
l, p = ODataLexer(), ODataParser()
h = hashlib.sha1()
for t in corpus:
    try:
        r = p.parse(l.tokenize(t)); o = "ok:" + (digest_ast(r) if r is not None else "none")
    except Exception as e:
        o = "exc:%s:%s" % (type(e).__name__, str(e)[:200])
    h.update(o.encode("utf8", "replace") + b"\n")
lt = ODataParser._lrtable
th = hashlib.sha1(repr(sorted((s, sorted(r.items())) for s, r in lt.lr_action.items())).encode()).hexdigest()[:12]
print(json.dumps({"outcomes": h.hexdigest(), "table": th, "re": hashlib.sha1(ODataLexer._master_re.pattern.encode()).hexdigest()[:12]}))
'''


# ---------------------------------------------------------------- deferred finalisers
# A parse that raises in the parser leaves its token generator suspended. Whoever still holds the exception (a caller's local, a
# logging record, a traceback cycle waiting for the cyclic collector) decides WHEN that generator is finalised, and finalisation
# runs lexer code (generator.close() -> the tokenizer's cleanup). The moment is an environment choice: this layer owns it and
# enumerates every placement - before every line event executed while the next text is tokenised and parsed on the same instances.
FIN_HISTORIES = ["x in 1 or y eq 2", "a eq eq 1", "a eq 1 )", "x eq 1 and zz(y) and z eq 2", "length(a, b) eq (1", "(1, 2,", "a eq 1 $"]
FIN_PROBES = ["a eq 1 and b eq 2", "a in 1 or b in (1,2,3)", "xs/any(x: x/p gt 1) and not (b lt 2)", "contains(tolower(name), 'x') eq true", "a eq", "$a eq 1"]


def _raise_and_keep(lexer, parser, text):
    """parse text on the shared instances; return the (possibly still suspended) token generator"""
    gen = lexer.tokenize(text)
    try:
        parser.parse(gen)
    except exceptions.ODataException:
        pass
    return gen


def _probe_with_finaliser(hist, probe, at):
    """at=None: count the placements; at=n: finalise the pending generator just before the n-th line event of the probe"""
    lexer, parser = ODataLexer(), ODataParser()
    pending = _raise_and_keep(lexer, parser, hist)
    n = [0]

    def tracer(frame, event, arg):
        if event == "line":
            if n[0] == at:
                sys.settrace(None)
                pending.close()
                n[0] += 1
                sys.settrace(tracer)
                return tracer
            n[0] += 1
        return tracer

    sys.settrace(tracer)
    try:
        oc = outcome_of(lexer, parser, probe)
    finally:
        sys.settrace(None)
    if at is not None and n[0] <= at:
        pending.close()
    return oc, n[0]


def _finaliser_unit(unit):
    acc = Acc()
    for hist, probe in unit:
        want = fresh_outcome(probe)
        base, total = _probe_with_finaliser(hist, probe, None)
        acc.count("states")
        if base != want:
            acc.violation("finaliser:never-run:" + want[0], {"layer": "finalisers", "history": hist, "probe": probe, "at": None,
                                                             "expected": want, "observed": base})
            continue
        for at in range(total):
            oc, _ = _probe_with_finaliser(hist, probe, at)
            acc.count("executions")
            acc.count("transitions")
            acc.count("nontrivial")
            acc.outcome(("finaliser", oc[0]))
            if oc != want:
                acc.violation("finaliser:%s->%s" % (want[0], oc[0]), {"layer": "finalisers", "history": hist, "probe": probe, "at": at,
                                                                       "placements": total, "expected": want, "observed": oc})
                break
        acc.sample({"layer": "finalisers", "history": hist, "probe": probe, "placements": total}, cap=1)
    return acc



def build_corpus():
    from checks.C10 import ATOMS, corpus
    out = list(corpus())
    for a, b in product(ATOMS, repeat=2):
        out.append(a + b)
    out += MENU
    out = out[:3000]
    # inputs whose tree would expose a set/dict iteration order (strings hash differently in every process)
    out += ["name in ('a','b','c','d','e','f','a')", "name in ('x1','x2','x3','x4','x5','x6','x7','x8','x1','x2')", "ns.f(zeta=1, alpha=2, mid=3, alpha2=4, Beta=5)",
            "ns.f('q','w','e','r','t','y','q')", "a in (b, c, d, e, f, b)", "('k3','k1','k2','k1') eq ('k1','k2','k3')", "n in (3, 1, 2, 1, 3)"]
    return out


def run_processes(ctx):
    import tempfile
    tmp = tempfile.mkdtemp(prefix="c20_")
    cpath = os.path.join(tmp, "corpus.json")
    spath = os.path.join(tmp, "proc.py")
    corp = build_corpus()
    json.dump(corp, open(cpath, "w"))
    open(spath, "w").write(PROC_SCRIPT)
    jobs = []
    seeds = ["0", "1", "2", "3", "4", "random"]
    orders = ["grammar-first", "backends-first", "rewrite-first"]
    if ctx.quick:
        combos = [(s, "grammar-first") for s in seeds] + [("0", o) for o in orders[1:]] + [(str(1 + ctx.seed % 4), orders[1 + ctx.seed % 2])]
    else:
        combos = list(product(seeds, orders))
    procs = []
    for seed, order in combos:
        env = dict(os.environ, PYTHONHASHSEED=seed, PYTHONPATH=os.environ.get("VERIF_REPO", "/repo"))
        procs.append(((seed, order), subprocess.Popen([sys.executable, spath, order, cpath], env=env, stdout=subprocess.PIPE,
                                                      stderr=subprocess.PIPE, text=True)))
    results = {}
    for key, p in procs:
        out, err = p.communicate(timeout=600)
        ctx.count("executions", len(corp))
        ctx.count("transitions")
        if p.returncode != 0:
            raise RuntimeError("subprocess failed %r: %s" % (key, err[-500:]))
        results[key] = json.loads(out.strip().splitlines()[-1])
    import shutil
    shutil.rmtree(tmp, ignore_errors=True)
    ref = results[combos[0]]
    for key, r in results.items():
        if r["outcomes"] != ref["outcomes"]:
            ctx.violation("process:outcomes", {"layer": "processes", "config": list(key), "reference_config": list(combos[0]),
                                               "expected": ref, "observed": r})
        ctx.outcome(("proc", r["outcomes"]))
    tables = {r["table"] for r in results.values()}
    ctx.layer("processes", subprocesses=len(combos), corpus=len(corp), distinct_outcome_digests=len({r["outcomes"] for r in results.values()}),
              distinct_lr_table_digests=len(tables), exhaustive=True)


# ---------------------------------------------------------------- rewriter
ALIAS_MAPS = [{"a": "b/c"}, {"x/y": "length(z)", "q": "r"}, {"n": "ns.f(p=1)"}]


def rewriter_check(ctx, witness):
    fresh = [AliasRewriter(m).replacements for m in ALIAS_MAPS]
    n = 0
    for snap, hist in witness.items():
        lexer, parsers, _ = play(hist)
        for m, exp in zip(ALIAS_MAPS, fresh):
            try:
                got = AliasRewriter(m, lexer, parsers[0]).replacements
            except Exception as e:  # noqa
                got = repr(e)
            ctx.count("executions")
            n += 1
            if got != exp:
                ctx.violation("rewriter", {"layer": "rewriter", "history_idx": [list(h) for h in hist], "map": m,
                                           "expected": repr(exp)[:300], "observed": repr(got)[:300]})
    return n


def run(ctx):
    sched_texts = ["a eq 1", "b in (1, 2)", "a eq", "xs/any(x: x/p gt 1)", "zz(1) eq 2", "a add 1 eq 2", "$a", "not (a eq 1)", "length(a, b)",
                   "a/b/c eq 'x'", "b lt 2", "c/d ge 3", "zz(1)", "(1, 2)"]
    prime_fresh_outcomes(list(dict.fromkeys(MENU + sched_texts + FIN_PROBES)))
    # 1. all histories (no dedup)
    k = 3 if ctx.quick else 4
    hs = list(all_histories(k, 1))
    ctx.pmap(_hist_unit, [(hs[i::64], 1) for i in range(64)])
    k2 = 2 if ctx.quick else 3
    hs2 = list(all_histories(k2, 2))
    ctx.pmap(_hist_unit, [(hs2[i::64], 2) for i in range(64)])
    ctx.layer("histories", menu=len(MENU), max_len_one_parser=k, histories_one_parser=len(hs),
              max_len_two_parsers_shared_lexer=k2, histories_two_parsers=len(hs2), exhaustive=True)

    # 2. state BFS with canonical snapshots
    st = state_bfs(ctx, 4 if ctx.quick else 6, 1)
    wit = st.pop("witness")
    st2 = state_bfs(ctx, 2 if ctx.quick else 3, 2)
    st2.pop("witness")
    ctx.layer("states", one_parser=st, two_parsers_shared_lexer=st2, exhaustive=True)

    # 3. rewriter from every reachable state
    n = rewriter_check(ctx, wit)
    ctx.layer("rewriter", states=len(wit), constructions=n, exhaustive=True)

    # 4. schedules
    pairs = [("a eq 1", "b in (1, 2)"), ("a eq", "xs/any(x: x/p gt 1)"), ("zz(1) eq 2", "a add 1 eq 2"),
             ("$a", "not (a eq 1)"), ("length(a, b)", "a/b/c eq 'x'")]
    triples = [("a eq 1", "b lt 2", "c/d ge 3"), ("a eq", "zz(1)", "(1, 2)")]
    units = []
    for shared in (False, True):
        for p in pairs:
            units.append((p, shared, None if not ctx.quick else 2, 20000))      # pairs: thorough = all schedules
        for t in triples:
            units.append((t, shared, 2 if ctx.quick else 3, 60000))
    ctx.pmap(_sched_unit, units)
    ctx.layer("schedules", pairs=len(pairs), triples=len(triples), preemption_bound_pairs=2 if ctx.quick else "unbounded",
              preemption_bound_triples=2 if ctx.quick else 3, exhaustive=not ctx.counts.get("sched_capped"),
              schedules=int(ctx.counts["states"]))
    # determinism of the harness: replay one schedule twice
    fac = make_tasks(pairs[0], True)
    s1 = sched.Scheduler().run(fac(), [0, 1, 0, 1, 1])
    s2 = sched.Scheduler().run(fac(), [0, 1, 0, 1, 1])
    if (s1.order, s1.results) != (s2.order, s2.results):
        raise RuntimeError("scheduler replay is not deterministic")

    # 5. deferred finalisers
    combos = [(h, p_) for h in FIN_HISTORIES for p_ in FIN_PROBES]
    ctx.pmap(_finaliser_unit, [combos[i::32] for i in range(32)])
    ctx.layer("finalisers", histories=len(FIN_HISTORIES), probes=len(FIN_PROBES), exhaustive=True,
              note="the token generator of a parse that raised is finalised before every line event of the next parse on the same instances")

    # 6. processes
    run_processes(ctx)


def replay(ctx, case):
    layer = case["layer"]
    if layer == "finalisers":
        prime_fresh_outcomes([case["probe"]])
        oc, _ = _probe_with_finaliser(case["history"], case["probe"], case["at"])
        want = fresh_outcome(case["probe"])
        return {"history": case["history"], "probe": case["probe"], "at": case["at"], "expected": want, "observed": oc, "ok": oc == want}
    if layer in ("histories", "states", "rewriter"):
        hist = [tuple(h) for h in case["history_idx"]]
        if layer == "rewriter":
            lexer, parsers, _ = play(hist)
            got = repr(AliasRewriter(case["map"], lexer, parsers[0]).replacements)[:300]
            return {"expected": case["expected"], "observed": got, "ok": got == case["expected"]}
        _, _, outs = play(hist, case.get("nparsers", 1))
        exp = fresh_outcome(MENU[hist[-1][1]])
        # find first divergence
        for (pid, mi), o in zip(hist, outs):
            if o != fresh_outcome(MENU[mi]):
                return {"history": case["history_idx"], "expected": fresh_outcome(MENU[mi]), "observed": o, "ok": False}
        return {"history": case["history_idx"], "expected": exp, "observed": outs[-1], "ok": True}
    if layer == "schedules":
        x = sched.Scheduler().run(make_tasks(case["texts"], case["shared_lexer"])(), case["choices"])
        res = {}
        ok = True
        for tid, t in enumerate(case["texts"]):
            kind, v = x.results[tid]
            got = ("ok", v) if kind == "ok" and v is not None else ("none",) if kind == "ok" else ("exc", type(v).__name__, str(v)[:300])
            res[t] = {"expected": fresh_outcome(t), "observed": got}
            ok = ok and got == fresh_outcome(t)
        return {"order": x.order, "results": res, "ok": ok}
    return {"ok": False, "note": "process-level case: rerun the check"}
