"""C10 - Parsing any string terminates with an AST or a library syntax/function error."""
import signal
import sys
from itertools import product

from odata_query import ast, exceptions
from odata_query.grammar import ODataLexer, ODataParser

from vt import closure, lrx, terms as T
from vt.decode import decode, digest_ast, malformed
from vt.refprint import to_odata
from vt.runner import Acc, chunked

RULE = ("layer strings: every concatenation of <=k atoms from a 50-atom lexical alphabet; layer lr: BFS over real LR "
        "configurations (token prefixes, dedup by (state stack, alpha)) each closed with end-of-input; layer closure: "
        "fixpoint of every grammar construct over abstract AST shapes with multi-witness abstraction check; layer pump: "
        "every cycle family unrolled to 10..10^4 repetitions / 64KB; layer junk: every BMP code point in 4 contexts; "
        "layer edits: every single (thorough: double) token edit of a corpus of valid filters. Outcome must be an AST node or "
        "an ODataException subclass, identical when repeated. non-trivial = distinct inputs whose outcome is not a plain "
        "ParsingException at the first token.")
ASSUMPTIONS = ["alpha/beta abstractions keep everything grammar actions can observe (checked by the multi-witness rule)",
               "10 s of CPU time per input (ITIMER_VIRTUAL) stands for 'terminates'; the slowest input of the unchanged tree needs 0.6 s (quick) / 4 s (thorough)"]

ATOMS = ["a", "length", "ns.f", "geo.length", "1", "1.5", "'s'", "''", "true", "null", "2020-02-29", "10:30:00",
         "2020-02-29T10:30:00Z", "duration'P1D'", "geography'P'", "123e4567-e89b-12d3-a456-426614174000",
         " add ", " eq ", " and ", " or ", " in ", " mul ", "not ", "-", "any", "all", "(", ")", ",", "/", ":", "=", " ",
         "e", ".", "'", "T", "Z", "+", ":00", "\t", "\n", "é", "$", "\x00", '"', ";", "%", "_", "0"]


CPU_LIMIT_S = 10.0


class Timeout(BaseException):
    pass


def _alarm(signum, frame):
    raise Timeout()


_lx, _ps = ODataLexer(), ODataParser()


def run_one(text, lx=None, ps=None):
    """-> (class, detail)"""
    lx = lx or _lx
    ps = ps or _ps
    # CPU time of this process, not wall time: a loaded machine must not turn a slow-but-terminating parse into an alarm
    signal.signal(signal.SIGVTALRM, _alarm)
    signal.setitimer(signal.ITIMER_VIRTUAL, CPU_LIMIT_S)
    try:
        try:
            r = ps.parse(lx.tokenize(text))
        finally:
            signal.setitimer(signal.ITIMER_VIRTUAL, 0)
    except Timeout:
        return ("timeout", "")
    except exceptions.ODataException as e:
        return ("lib:" + type(e).__name__, str(e)[:160])
    except RecursionError:
        return ("foreign:RecursionError", "")
    except Exception as e:  # noqa
        return ("foreign:" + type(e).__name__, str(e)[:160])
    if isinstance(r, ast._Node):
        bad = malformed(r)
        if bad:
            return ("non-node:malformed AST", bad)
        return ("node", digest_ast(r))
    return ("non-node:" + type(r).__name__, repr(r)[:100])


def judge_text(acc, layer, text, twice=True, short=None):
    oc = run_one(text)
    acc.count("executions")
    acc.count("transitions")
    acc.outcome(oc[0])
    bad = None
    if not (oc[0] == "node" or oc[0].startswith("lib:")):
        bad = oc[0]
    elif twice:
        oc2 = run_one(text)
        acc.count("executions")
        if oc2 != oc:
            bad = "nondeterministic"
    if bad:
        shown = text if len(text) <= 300 else None
        acc.violation("%s:%s" % (layer, bad), {"layer": layer, "text": shown, "gen": short, "outcome": oc[0], "detail": oc[1]})
    elif not (oc[0] == "lib:ParsingException" and "index=0" in oc[1]):
        acc.count("nontrivial")
    return oc


# ---------------------------------------------------------------- strings
def _string_unit(unit):
    k, first = unit
    acc = Acc()
    for rest in product(ATOMS, repeat=k - 1):
        text = first + "".join(rest)
        judge_text(acc, "strings", text, twice=(k <= 3))
        acc.count("states")
    acc.sample({"layer": "strings", "text": first + "".join(rest)}, cap=1)
    return acc


# ---------------------------------------------------------------- lr
def judge_lr(entries, config, out, acc):
    oc = lrx.outcome_class(out)
    if not (oc == "node" or oc.startswith("lib:")):
        acc.violation("lr:" + oc, {"layer": "lr", "tokens": [e[1] for e in entries], "text": lrx.text_of(entries), "outcome": oc})
    else:
        acc.count("nontrivial")


# ---------------------------------------------------------------- pump
def pump_families():
    F = []
    F.append(("path", lambda n: "/".join(["a"] * n) + " eq 1"))
    F.append(("path-lambda", lambda n: "/".join(["a"] * n) + "/any(x: x/b eq 1)"))
    F.append(("add-chain", lambda n: " add ".join(["a"] * n)))
    F.append(("and-chain", lambda n: " and ".join(["a eq 1"] * n)))
    F.append(("mixed-chain", lambda n: "a" + "".join([" add 1 mul 2 eq 3 or b"] * (n // 4 + 1))))
    F.append(("parens", lambda n: "(" * n + "a" + ")" * n))
    F.append(("parens-ws", lambda n: "( " * n + "a" + " )" * n))
    F.append(("open-parens", lambda n: "(" * n))
    F.append(("close-parens", lambda n: "a" + ")" * n))
    F.append(("not-chain", lambda n: "not " * n + "a"))
    F.append(("neg-chain", lambda n: "-" * n + "a"))
    F.append(("neg-ws-chain", lambda n: "- " * n + "1"))
    F.append(("call-nest", lambda n: "tolower(" * n + "a" + ")" * n))
    F.append(("custom-call-nest", lambda n: "ns.f(" * n + "a" + ")" * n))
    F.append(("list-flat", lambda n: "a in (" + ", ".join(["1"] * max(n, 2)) + ")"))
    F.append(("list-nest", lambda n: "(" * n + "1," + ",)" * (n - 1) + ")"))
    F.append(("args-flat", lambda n: "ns.f(" + ", ".join(["1"] * n) + ")"))
    F.append(("named-flat", lambda n: "ns.f(" + ", ".join("p%d=1" % i for i in range(n)) + ")"))
    F.append(("lambda-nest", lambda n: "".join("x%d/ys/any(x%d: " % (i, i + 1) for i in range(n)) + "true" + ")" * n))
    F.append(("string-long", lambda n: "a eq '" + "x" * n + "'"))
    F.append(("string-quotes", lambda n: "a eq '" + "''" * n + "'"))
    F.append(("string-unterminated", lambda n: "a eq '" + "x" * n))
    F.append(("ident-long", lambda n: "a" * n))
    F.append(("ident-dots", lambda n: ".".join(["a"] * n)))
    F.append(("digits", lambda n: "1" * n))
    F.append(("decimal-digits", lambda n: "1." + "0" * n + "e" + "9" * min(n, 300)))
    F.append(("whitespace", lambda n: "a" + " " * n + "eq" + "\t" * n + "1"))
    F.append(("ws-only", lambda n: " " * n))
    F.append(("slashes", lambda n: "a" + "/" * n))
    F.append(("commas", lambda n: "(" + "," * n + ")"))
    F.append(("duration-digits", lambda n: "duration'P" + "9" * n + "D'"))
    F.append(("in-chain", lambda n: "a" + " in (1,)" * n))
    F.append(("eq-null-chain", lambda n: "a" + " eq null" * n))
    return F


def _pump_unit(unit):
    name, n = unit
    acc = Acc()
    fn = dict(pump_families())[name]
    lim = sys.getrecursionlimit()
    text = fn(n)
    if len(text) > 65536:
        acc.count("pump_skipped_over_64k")
        return acc
    judge_text(acc, "pump", text, twice=False, short={"family": name, "n": n, "bytes": len(text)})
    acc.count("states")
    acc.sample({"layer": "pump", "family": name, "n": n, "bytes": len(text)}, cap=1)
    return acc


# ---------------------------------------------------------------- junk
def _junk_unit(rng):
    acc = Acc()
    lo, hi = rng
    for cp in range(lo, hi):
        if 0xD800 <= cp <= 0xDFFF:
            continue
        c = chr(cp)
        for text in (c, "a" + c + "b eq 1", "a eq '" + c + "'", "a eq 1 " + c + " b"):
            judge_text(acc, "junk", text, twice=False)
        acc.count("states")
    return acc


# ---------------------------------------------------------------- edits
def corpus():
    out = []
    for n in (1, 2):
        for i, t in enumerate(T.op_trees(n)):
            if n == 1 or i % 7 == 0:
                out.append(to_odata(t))
    from checks.C13 import compound_leaves
    for leaf in compound_leaves():
        if leaf[0] == "String" and len(leaf[1]) > 1:
            continue
        out.append(to_odata(T.binop("Eq", T.I("x"), leaf)))
    seen, res = set(), []
    for s in out:
        if s not in seen and run_one(s)[0] == "node":
            seen.add(s)
            res.append(s)
    return res


def pieces(text):
    lx = ODataLexer()
    toks = list(lx.tokenize(text))
    idx = [t.index for t in toks] + [len(text)]
    return [text[idx[i]:idx[i + 1]] for i in range(len(toks))]


def single_edits(ps):
    n = len(ps)
    for i in range(n):
        yield ps[:i] + ps[i + 1:]
        yield ps[:i] + [ps[i], ps[i]] + ps[i + 1:]
        if i + 1 < n:
            yield ps[:i] + [ps[i + 1], ps[i]] + ps[i + 2:]
    for i in range(n + 1):
        for a in ATOMS:
            yield ps[:i] + [a] + ps[i:]


def _edit_unit(unit):
    texts, double = unit
    acc = Acc()
    for text in texts:
        ps = pieces(text)
        acc.count("states")
        for e in single_edits(ps):
            judge_text(acc, "edits", "".join(e), twice=False)
            if double:
                for j, e2 in enumerate(single_edits(e)):
                    if j % 5 == 0:
                        judge_text(acc, "edits2", "".join(e2), twice=False)
    return acc


def _history_texts():
    from vt.refparse import REF_FUNCTIONS
    texts = [a + b for a in ATOMS for b in ATOMS]
    for name in REF_FUNCTIONS:
        bare = name.split(".")[-1]
        for head in (name, bare, "geo." + bare, "ns." + bare):
            for args in ("()", "(a)", "(a, b)", "(a, b, c)"):
                texts.append(head + args)
    texts += corpus()
    seen, out = set(), []
    for t in texts:
        if t not in seen:
            seen.add(t)
            out.append(t)
    return out


def _history_pass(order):
    """runs in a FRESH forked child: outcomes of all texts, parsed in the given order, fresh lexer/parser per text"""
    texts = _history_texts()
    if order == "reverse":
        texts = texts[::-1]
    return {t: run_one(t, ODataLexer(), ODataParser()) for t in texts}


def history_layer(ctx):
    """two fresh processes parse the same texts (every atom pair, every built-in / near-miss call shape, the edit corpus), one
    in enumeration order and one in reverse order; every text must have the same outcome in both: for any two texts, each is
    parsed once before and once after the other (module-level state such as a function table that is written to, memo tables)."""
    import multiprocessing as mp
    res = {}
    for order in ("forward", "reverse"):
        with mp.get_context("fork").Pool(1) as pool:
            res[order] = pool.apply(_history_pass, (order,))
    n = 0
    for t, oc in res["forward"].items():
        ctx.count("executions", 2)
        n += 1
        if res["reverse"][t] != oc:
            ctx.violation("history:outcome-depends-on-order:%s->%s" % (oc[0], res["reverse"][t][0]),
                          {"layer": "history", "text": t, "forward_pass": list(oc), "reverse_pass": list(res["reverse"][t]), "outcome": res["reverse"][t][0],
                           "detail": "same string, different outcome depending on what the process parsed before"})
    return n


def keyword_lookalikes():
    """filters in which one letter of a keyword is replaced by a non-ASCII character that the regex engine treats as the same
    letter under IGNORECASE (U+017F long s, U+0130/U+0131 dotted/dotless i, U+212A Kelvin sign ...)"""
    import re
    import string
    eq = {}
    for cp in range(0x80, 0x10000):
        c = chr(cp)
        for L in string.ascii_lowercase:
            if re.fullmatch(L, c, re.I):
                eq.setdefault(L, []).append(c)
    templates = ["a %s 1", "a %s b", "a %s (1, 2)", "%s a", "a eq %s", "xs/%s(x: x/p eq 1)", "a eq %s'P1D'", "a gt 2020-01-01%s10:00:00Z",
                 "a gt 2020-01-01T10:00:00%s", "a eq 1%s3"]
    words = ["add", "sub", "mul", "div", "mod", "and", "or", "eq", "ne", "lt", "le", "gt", "ge", "in", "not ", "any", "all", "true", "false", "null",
             "duration", "geography", "T", "Z", "e"]
    out = []
    for w in words:
        for i, ch in enumerate(w):
            for alt in eq.get(ch.lower(), []):
                v = w[:i] + alt + w[i + 1:]
                for tpl in templates:
                    out.append(tpl % v)
    return out


def _lookalike_unit(texts):
    acc = Acc()
    for t in texts:
        judge_text(acc, "keyword-lookalikes", t, twice=False)
        acc.count("states")
    return acc


def run(ctx):
    # 1. strings
    k = 3 if ctx.quick else 4
    for kk in range(1, k + 1):
        ctx.pmap(_string_unit, [(kk, a) for a in ATOMS] if kk > 1 else [(1, a) for a in ATOMS])
    ctx.layer("strings", atoms=len(ATOMS), max_atoms=k, inputs=sum(len(ATOMS) ** i for i in range(1, k + 1)), exhaustive=True)

    nh = history_layer(ctx)
    ctx.layer("history", texts=nh, passes=2, exhaustive=True)
    kl = keyword_lookalikes()
    ctx.pmap(_lookalike_unit, [kl[i::16] for i in range(16) if kl[i::16]])
    ctx.layer("keyword-lookalikes", texts=len(kl), exhaustive=True)

    # 2. LR configurations
    depth = 5 if ctx.quick else 7
    st = lrx.bfs(ctx, judge_lr, depth)
    ctx.layer("lr", bfs_depth=st["depth_completed"], exhaustive=st["complete_to_depth"], configurations=st["configs"],
              levels=st["levels"])

    # 3. constructor closure
    cst = closure.explore(ctx, max_rounds=6)
    wit = cst.pop("witnesses")
    ctx.layer("closure", **{k_: v for k_, v in cst.items()}, exhaustive=cst["converged"])
    if cst["n_abstraction_failures"]:
        raise RuntimeError("E-CLOSE abstraction too coarse: %r" % cst["abstraction_failures"][:3])

    # 4. pumping
    sizes = [10, 100, 1000, 3000, 5000] if ctx.quick else [10, 100, 1000, 3000, 10000, 30000, 65000]
    units = []
    for name, _ in pump_families():
        for n in sizes:
            if name in ("path", "path-lambda") and n > (1000 if ctx.quick else 3000):
                n = 1000 if ctx.quick else 3000   # rebuilding the owner chain is quadratic: 0.6 s at 1000 segments, 4 s at 3000
            units.append((name, n))
    units = sorted(set(units), key=lambda u: -u[1])
    ctx.pmap(_pump_unit, units)
    ctx.layer("pump", families=len(pump_families()), sizes=sizes, exhaustive=True,
              note="path families capped at 1000/3000 segments (quadratic re-rooting), everything else up to 64KB")

    # 4b. "the same string always gives the same outcome" also when an earlier failed parse's token generator is finalised late:
    # every placement of that finalisation during the next parse (explorer of C20, a subset of its histories)
    from checks import C20 as _C20
    _C20.prime_fresh_outcomes(_C20.FIN_PROBES)
    combos = [(h, p_) for h in _C20.FIN_HISTORIES[::2] for p_ in _C20.FIN_PROBES[:3]]
    ctx.pmap(_C20._finaliser_unit, [combos[i::12] for i in range(12)])
    ctx.layer("finaliser-placements", histories=len(_C20.FIN_HISTORIES[::2]), probes=3, exhaustive=True, note="see C20 layer finalisers")

    # 5. junk: every BMP code point (quick: seed-selected 1/4 block + ASCII/Latin-1 core)
    if ctx.quick:
        blocks = [(0, 0x800)]
        b = ctx.seed % 4
        blocks.append((0x800 + b * 0x3E00, 0x800 + (b + 1) * 0x3E00))
        units = [r for lo, hi in blocks for r in [(x, min(x + 512, hi)) for x in range(lo, hi, 512)]]
    else:
        units = [(x, x + 1024) for x in range(0, 0x10000, 1024)]
    ctx.pmap(_junk_unit, units)
    ctx.layer("junk", code_points=sum(hi - lo for lo, hi in units), contexts=4, exhaustive=not ctx.quick,
              note="quick: U+0000-07FF plus quarter block VERIF_SEED mod 4 of the rest; thorough: whole BMP")

    # 6. edits
    corp = corpus()
    double_n = 0 if ctx.quick else 12
    units = [([t], False) for t in corp]
    units += [([t], True) for t in corp[:double_n]]
    ctx.pmap(_edit_unit, units)
    ctx.layer("edits", corpus=len(corp), double_edit_filters=double_n, exhaustive=True)


def replay(ctx, case):
    if case.get("layer") == "finalisers":
        from checks import C20 as _C20
        return _C20.replay(ctx, case)
    if case.get("gen"):
        text = dict(pump_families())[case["gen"]["family"]](case["gen"]["n"])
    elif case["layer"] == "lr":
        entries = [next(e for e in lrx.ALPHABET if e[1] == t) for t in case["tokens"]]
        _, out = lrx.run_prefix(ODataParser(), entries)
        oc = lrx.outcome_class(out)
        return {"text": case["text"], "outcome": oc, "ok": oc == "node" or oc.startswith("lib:")}
    elif case["layer"] == "history":
        acc = Acc()
        history_layer(acc)
        return {"violations": acc.violations[:5], "ok": not acc.violations}
    else:
        text = case["text"]
    oc = run_one(text)
    return {"text": text[:200], "outcome": oc[0], "detail": oc[1][:200], "ok": oc[0] == "node" or oc[0].startswith("lib:")}
