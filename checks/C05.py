"""C05 - Parser groups operators exactly as the OData precedence table dictates."""
from odata_query.grammar import ODataLexer, ODataParser

from vt import lrx, refparse, terms as T
from vt.decode import decode
from vt.refprint import to_odata, to_odata_bare
from vt.runner import Acc, chunked

RULE = ("layer trees: every labelled operator tree with <=k operator nodes over the 14 binary + 2 unary operators "
        "(leaves rotated over 22 leaf kinds), printed by R-PRINT minimally / fully / redundantly parenthesised, "
        "parsed by the real parser, decode(parse(text)) == tree. layer table: BFS over real LR configurations "
        "(token prefixes deduplicated by (state stack, alpha(values))), every accepted prefix compared with an "
        "independent precedence-climbing reference parser; action-table entries consulted are recorded. "
        "layer negative: texts printed WITHOUT parentheses must parse to the tree the table prescribes. "
        "non-trivial = distinct trees with >=2 operator nodes (grouping can matter).")
ASSUMPTIONS = ["R-PRINT / reference parser encode OData 4.01 part 2 section 5.1.1.14 correctly",
               "leaf rotation instead of full leaf product: grouping is decided by operators, leaves only need to cover kinds"]

_lx, _ps = ODataLexer(), ODataParser()


def parse_text(s):
    try:
        return decode(_ps.parse(_lx.tokenize(s)))
    except Exception as e:  # noqa
        return ("EXC", type(e).__name__, str(e)[:120])


def _tree_unit(unit):
    n, si, styles = unit
    acc = Acc()
    shape = T.shapes(n)[si]
    for t in T.op_trees_of_shape(shape, offset=si * 7):
        acc.count("states")
        if n >= 2:
            acc.count("nontrivial")
        for st in styles:
            s = to_odata(t, st)
            got = parse_text(s)
            acc.count("executions")
            acc.count("transitions")
            if got != t:
                acc.violation("tree:%s:%s" % (st, _opsig(t)), {"layer": "trees", "style": st, "text": s, "expected": t, "observed": got})
            else:
                acc.outcome(("tree-ok", st, n))
        if si == 0:
            acc.sample({"layer": "trees", "text": to_odata(t, "min"), "full": to_odata(t, "full")}, cap=2)
    return acc


def _tower_unit(trees):
    acc = Acc()
    for t in trees:
        acc.count("states")
        acc.count("nontrivial")
        for st in ("min", "full"):
            s = to_odata(t, st)
            got = parse_text(s)
            acc.count("executions")
            acc.count("transitions")
            if got != t:
                acc.violation("tower:%s:%s" % (st, _opsig(t)), {"layer": "trees", "style": st, "text": s, "expected": t, "observed": got})
    return acc


def _chain_unit(unit):
    """n simple comparisons joined by every pattern of and/or starting with `first`: unparenthesised text, expected tree from the
    independent precedence-climbing parser"""
    from itertools import product as _product
    n, first = unit
    acc = Acc()
    lx = ODataLexer()
    cmps = ["eq", "ne", "gt", "le", "lt", "ge"]
    for pattern in _product(("and", "or"), repeat=n - 2):
        conns = (first,) + pattern
        for with_not in (False, True):
            parts = []
            for i in range(n):
                c = "f%d %s %s" % (i, cmps[i % 6], ("'v%d'" % i) if i % 2 else str(i))
                if with_not and i % 2 == 1:
                    c = "not " + c
                parts.append(c)
            text = parts[0]
            for cn, pt in zip(conns, parts[1:]):
                text += " %s %s" % (cn, pt)
            toks = [(k.type, decode(k.value) if not isinstance(k.value, str) else None) for k in lx.tokenize(text)]
            ref = refparse.ref_parse(toks)
            got = parse_text(text)
            acc.count("executions")
            acc.count("transitions")
            acc.count("states")
            acc.count("nontrivial")
            if got != ref:
                acc.violation("chain:%d:%s" % (n, "-".join(conns[:4])), {"layer": "negative", "text": text, "expected": ref, "observed": got})
            else:
                acc.outcome(("chain-ok", n))
    return acc


def _long_chain_unit(unit):
    """runs of n operands joined by ONE operator, at the root / under not / as one side of the other connective / as arithmetic:
    the tree is the left-deep one of the independent parser however long the run is"""
    n, op = unit
    acc = Acc()
    lx = ODataLexer()
    if op in ("and", "or"):
        parts = ["f%d eq %d" % (i % 7, i) for i in range(n)]
        run = (" %s " % op).join(parts)
        other = "or" if op == "and" else "and"
        texts = [run, "not (%s)" % run, "(%s) %s g eq 1" % (run, other), "g eq 1 %s (%s)" % (other, run), "(%s)" % run]
    else:
        run = (" %s " % op).join("f%d" % (i % 7) for i in range(n))
        texts = [run + " eq 1", "1 eq " + run, "(%s) %s 2 gt 0" % (run, "mul" if op in ("add", "sub") else "add")]
    for text in texts:
        toks = [(k.type, decode(k.value) if not isinstance(k.value, str) else None) for k in lx.tokenize(text)]
        ref = refparse.ref_parse(toks)
        got = parse_text(text)
        acc.count("executions")
        acc.count("transitions")
        acc.count("states")
        acc.count("nontrivial")
        if got != ref:
            acc.violation("long-run:%s" % op, {"layer": "long-runs", "text": text, "n": n, "op": op})
        else:
            acc.outcome(("long-run-ok", op))
    return acc


SIGNED = [T.Int("-5"), T.Flt("-1.5"), T.Int("-0"), T.Flt("-2e3"), T.Int("+5")]


def signed_operand_trees():
    """a unary minus / not / binary operator directly over a literal that carries its own sign"""
    a = T.I("a")
    out = []
    for L in SIGNED:
        out += [T.unop("USub", L), T.unop("USub", T.unop("USub", L)), T.binop("Mult", T.unop("USub", L), a), T.binop("Eq", a, T.unop("USub", L)),
                T.binop("Sub", a, L), T.binop("Sub", T.unop("USub", L), L), T.binop("Eq", T.unop("USub", T.binop("Add", L, a)), L),
                T.binop("In", a, T.lst(T.unop("USub", L), L))]
    return out


def _opsig(t):
    """operator skeleton of a tree (dedup class for violations)"""
    ops = [s[1][0] for s in T.subterms(t) if s[0] in ("BinOp", "Compare", "BoolOp", "UnaryOp")]
    return "-".join(ops[:3])


def _neg_unit(unit):
    n, si = unit
    acc = Acc()
    shape = T.shapes(n)[si]
    lx = ODataLexer()
    for t in T.op_trees_of_shape(shape, offset=si * 5):
        s = to_odata_bare(t)
        try:
            toks = [(k.type, decode(k.value) if not isinstance(k.value, str) else None) for k in lx.tokenize(s)]
            ref = refparse.ref_parse(toks)
        except Exception as e:  # reference rejects: not a grouping question
            acc.count("neg_ref_reject")
            continue
        got = parse_text(s)
        acc.count("executions")
        acc.count("transitions")
        if ref != t:
            acc.count("neg_regrouped")   # the bare text really means another tree
        if got != ref:
            acc.violation("neg:" + _opsig(t), {"layer": "negative", "text": s, "expected": ref, "observed": got})
        else:
            acc.outcome(("neg-ok", ref == t))
    return acc


def judge(entries, config, out, acc):
    if out[0] != "ok":
        return
    try:
        ref = refparse.ref_parse(lrx.ref_tokens(entries))
    except refparse.RefReject:
        acc.count("lr_ref_reject_real_accept")
        acc.sample({"layer": "table", "note": "reference rejects, parser accepts", "text": lrx.text_of(entries)}, cap=8)
        return
    except refparse.RefFunctionError:
        acc.count("lr_ref_funerr_real_accept")
        return
    got = decode(out[1])
    acc.count("lr_accepted")
    if ref != got:
        acc.violation("table:" + _opsig(ref), {"layer": "table", "tokens": [e[1] for e in entries],
                                              "text": lrx.text_of(entries), "expected": ref, "observed": got})


def run(ctx):
    # ---- layer 1: trees ---------------------------------------------
    kmax = 3 if ctx.quick else 4
    styles = ("min", "full", "redundant")
    units = [(n, si, styles) for n in range(0, kmax + 1) for si in range(len(T.shapes(n)))]
    ctx.pmap(_tree_unit, units)
    ctx.layer("trees", max_operator_nodes=kmax, styles=list(styles), exhaustive=True,
              trees=int(ctx.counts["states"]))
    # every single leaf kind on its own (k=0)
    for leaf in T.SIMPLE_LEAVES + T.LIST_LEAVES:
        s = to_odata(leaf)
        got = parse_text(s)
        ctx.count("executions")
        if got != leaf:
            ctx.violation("leaf:" + leaf[0], {"layer": "trees", "style": "min", "text": s, "expected": leaf, "observed": got})

    # ---- pumped towers: every ordered pair of operators alternated 5 / 8 (thorough: 12) times on either spine -------------
    tw = list(T.op_towers((5, 8) if ctx.quick else (5, 8, 12)))
    ctx.pmap(_tower_unit, [tw[i::32] for i in range(32)])
    ctx.layer("towers", trees=len(tw), depths=[5, 8] if ctx.quick else [5, 8, 12], exhaustive=True)

    # ---- flat connective chains: n simple comparisons joined by every pattern of and/or (optionally with not) --------------
    nmax = 6 if ctx.quick else 9
    units = [(n, first) for n in range(2, nmax + 1) for first in ("and", "or")]
    ctx.pmap(_chain_unit, units)
    ctx.layer("connective-chains", max_comparisons=nmax, patterns="all and/or patterns x not on every second term", exhaustive=True)

    # ---- long runs of one operator (a rebalancing / chunking threshold) and signs stacked on signed literals ------------------
    sizes = (63, 64, 65, 66, 100, 128, 129, 200) if ctx.quick else (31, 32, 33, 63, 64, 65, 66, 100, 127, 128, 129, 200, 255, 256, 257, 400)
    ctx.pmap(_long_chain_unit, [(n, op) for n in sizes for op in ("and", "or", "add", "sub", "mul", "div", "mod")])
    ctx.layer("long-runs", sizes=list(sizes), operators=7, exhaustive=True, note="left-deep whatever the length; root, negated, parenthesised, beside the other connective")
    st_trees = signed_operand_trees()
    ctx.merge(_tower_unit(st_trees)) if hasattr(ctx, "merge") else ctx.pmap(_tower_unit, [st_trees])
    ctx.layer("signed-literal-operands", trees=len(st_trees), exhaustive=True, note="a minus over a literal with its own sign stays a unary node")

    # ---- layer 3: negative --------------------------------------------
    kneg = 3 if ctx.quick else 4
    units = [(n, si) for n in range(2, kneg + 1) for si in range(len(T.shapes(n)))]
    ctx.pmap(_neg_unit, units)
    ctx.layer("negative", max_operator_nodes=kneg, exhaustive=True,
              regrouped=int(ctx.counts["neg_regrouped"]))

    # ---- layer 2: LR configurations / action table ----------------------
    depth = 5 if ctx.quick else 7
    st = lrx.bfs(ctx, judge, depth)
    seen = st["table_seen"]
    # phase B: automaton-guided witnesses - a viable prefix for every LR state
    # (shortest path in the shift/goto graph, nonterminals expanded to their
    # shortest derivations), each extended by every alphabet entry
    wit = lrx.state_witnesses()
    starts = sorted(set(wit.values()))
    st2 = lrx.bfs(ctx, judge, 1, start=starts, label="witness_cfgs", deadline_frac=0.99, chunk=4, include_self=True)
    seen |= st2["table_seen"]
    table = ODataParser._lrtable.lr_action
    total = sum(len(r) for r in table.values())
    cov = sum(1 for (s, k) in seen if table[s].get(k) is not None)
    ctx.layer("table", bfs_depth=st["depth_completed"], exhaustive=st["complete_to_depth"],
              configurations=st["configs"], levels=st["levels"],
              state_witnesses=len(starts),
              action_entries_covered=cov, action_entries_total=total,
              error_entries_consulted=len(seen) - cov,
              states_reached=len({s for s, _ in seen}), states_total=len(table))
    ctx.extra["action_table_coverage"] = "%d/%d" % (cov, total)
    uncovered = sorted((s, k) for s, r in table.items() for k in r if (s, k) not in seen)
    ctx.extra["action_entries_uncovered"] = uncovered[:60]


def replay(ctx, case):
    if case["layer"] == "long-runs":
        lx = ODataLexer()
        toks = [(k.type, decode(k.value) if not isinstance(k.value, str) else None) for k in lx.tokenize(case["text"])]
        return {"text": case["text"][:200], "ok": parse_text(case["text"]) == refparse.ref_parse(toks)}
    if case["layer"] == "table":
        entries = []
        for txt in case["tokens"]:
            entries.append(next(e for e in lrx.ALPHABET if e[1] == txt))
        _, out = lrx.run_prefix(ODataParser(), entries)
        got = decode(out[1]) if out[0] == "ok" else ("EXC", type(out[1]).__name__)
    else:
        got = parse_text(case["text"])
    exp = _untuple(case["expected"])
    return {"text": case["text"], "expected": exp, "observed": got, "ok": got == exp}


def _untuple(x):
    if isinstance(x, list):
        return tuple(_untuple(e) for e in x)
    return x
