"""C17 - Making a lambda body relative strips exactly the lambda variable's prefix."""
from odata_query import ast
from odata_query.utils import expression_relative_to_identifier

from vt import refsubst, terms as T
from vt.decode import decode, encode
from vt.refprint import to_odata
from vt.runner import Acc

RULE = ("all trees with <=k operator nodes (14 binary + 2 unary operators, every shape) whose leaves range over paths of depth "
        "1..4 rooted at {x, y, a}, bare x, ns.x, ns.x/a, paths with x as inner segment, calls, named parameters, lists and nested "
        "lambdas binding another name x variable in {x, y, zz, ns.x}; expression_relative_to_identifier must equal R-SUBST "
        "re-rooting, be the identity when the variable does not occur, and leave its input unchanged. non-trivial = distinct "
        "(tree, variable) pairs where re-rooting changes the tree.")
ASSUMPTIONS = ["R-SUBST re-rooting implements the property statement (x/a -> a, x/a/b -> a/b, everything else unchanged)"]

x = T.I("x")
LEAVES = [
    T.path("x", "a"), T.path("x", "a", "b"), T.path("x", "a", "b", "c"), T.path("x", "a", "b", "c", "d"), x, T.I("x", ("ns",)),
    T.A(T.I("x", ("ns",)), "a"), T.path("a", "x"), T.path("a", "x", "b"), T.path("y", "x"), T.path("y", "a", "b"), T.I("a"), T.Int(1),
    T.call("length", T.path("x", "a")), T.call("concat", T.path("x", "a"), T.path("y", "b")), T.call("g", T.named("x", T.path("x", "a")), ns=("f",)),
    T.lst(T.path("x", "a"), T.path("a", "x"), T.Int(2)),
    T.lam(T.path("x", "ys"), "Any", "y", T.binop("Eq", T.path("y", "p"), T.path("x", "q"))),
    T.lam(T.path("x", "ys"), "All", "y", T.lam(T.path("y", "zs"), "Any", "z", T.binop("Gt", T.path("z", "p"), T.path("x", "a", "b")))),
    T.lam(T.path("zz", "ts"), "Any", "z", T.binop("Eq", T.path("z", "name"), T.path("zz", "name"))),
    T.lam(T.path("x", "ts"), "All", "y", T.binop("Eq", T.path("y", "name"), T.path("zz", "name"))),
    T.lam(T.path("a", "ys"), "Any"), T.lam(T.path("x", "a", "ys"), "Any"), T.Str("x/a"), T.path("x", "x"), T.path("x", "x", "x"),
]
# qualified segments directly behind the variable, deeper in the path, and behind another root
LEAVES += [T.A(x, "ns.a"), T.A(T.A(x, "ns.a"), "b"), T.A(T.A(x, "a"), "ns.b"), T.A(T.A(T.I("y"), "ns.a"), "b"), T.A(x, "n1.n2.a"),
           T.lam(T.A(x, "ns.ys"), "Any", "y", T.binop("Eq", T.A(T.I("y"), "m.p"), T.A(x, "m.q")))]
LIST_LEAVES = [T.lst(T.path("x", "a"), T.Int(1)), T.lst(T.path("y", "a")), T.lst(x, T.path("x", "b", "c"))]
VARS = [T.I("x"), T.I("y"), T.I("zz"), T.I("x", ("ns",))]


def check(acc, tree):
    acc.count("states")
    for var in VARS:
        acc.count("executions")
        acc.count("transitions")
        exp = refsubst.reroot(tree, var)
        node = encode(tree)
        before = decode(node)
        try:
            got = decode(expression_relative_to_identifier(encode(var), node))
        except Exception as e:  # noqa
            acc.violation("exception:%s" % type(e).__name__, {"tree": to_odata(tree), "var": to_odata(var), "error": repr(e)[:200]})
            continue
        if decode(node) != before:
            acc.violation("input-mutated", {"tree": to_odata(tree), "var": to_odata(var)})
        if exp != tree:
            acc.count("nontrivial")
        if not refsubst.mentions(tree, var) and got != tree:
            acc.violation("not-identity-when-absent", {"tree": to_odata(tree), "var": to_odata(var), "observed": got, "tree_term": tree, "var_term": var})
        elif got != exp:
            acc.violation("reroot:%s" % _cls(tree, exp, got), {"tree": to_odata(tree), "var": to_odata(var), "expected": exp, "observed": got,
                                                              "tree_term": tree, "var_term": var})
        else:
            acc.outcome(("ok", exp != tree))


def _cls(tree, exp, got):
    kinds = sorted({s[0] for s in T.subterms(tree)} & {"Call", "List", "CollectionLambda", "NamedParam"})
    return "+".join(kinds) or "path"


def _unit(unit):
    n, si = unit
    acc = Acc()
    for i, tree in enumerate(T.op_trees_of_shape(T.shapes(n)[si], offset=si * 5, leaves=LEAVES, listleaves=LIST_LEAVES)):
        check(acc, tree)
        if i == 5:
            acc.sample({"tree": to_odata(tree), "var": "x", "relative": to_odata(refsubst.reroot(tree, x))}, cap=1)
    return acc


def run(ctx):
    for leaf in LEAVES + LIST_LEAVES:
        check(ctx, leaf)
    k = 3 if ctx.quick else 4
    ctx.pmap(_unit, [(n, si) for n in range(1, k + 1) for si in range(len(T.shapes(n)))])
    ctx.layer("trees", max_operator_nodes=k, leaves=len(LEAVES), variables=len(VARS), exhaustive=True)


def _untuple(v):
    return tuple(_untuple(e) for e in v) if isinstance(v, list) else v


def replay(ctx, case):
    tree, var = _untuple(case["tree_term"]), _untuple(case["var_term"])
    exp = refsubst.reroot(tree, var)
    got = decode(expression_relative_to_identifier(encode(var), encode(tree)))
    return {"tree": case["tree"], "var": case["var"], "expected": exp, "observed": got, "ok": got == exp}
