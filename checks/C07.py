"""C07 - No filter string can inject SQL through the raw SQL dialects."""
from itertools import product

from odata_query import exceptions
from odata_query.grammar import ODataLexer, ODataParser
from odata_query.sql import AstToSqlVisitor
from odata_query.sql.athena import AstToAthenaSqlVisitor, clean_athena_identifier
from odata_query.sql.sqlite import AstToSqliteSqlVisitor

from vt import semcheck as SC, sqllex, terms as T, typed
from vt.dbs.domain import colkey
from vt.dbs.sqlite_h import SqliteHarness
from vt.refprint import to_odata
from vt.runner import Acc, chunked

RULE = ("every string-literal position (29 base positions x 8 wrappers: plain, tolower, toupper, trim, substring/2, substring/3, "
        "concat left/right) x every payload string of length <=k over an 18-character adversarial alphabet (quotes, backslash, LIKE "
        "wildcards, comment markers, semicolon, NUL, newline, Unicode quotes, brackets, pipe) plus classic injection strings x "
        "{standard, SQLite, Athena} x alias {absent, present}: the SQL token stream (independent lexer) must equal the stream for "
        "the neutral payload 'x' except for exactly one string-literal token whose value is prefix+payload+suffix (payload possibly "
        "LIKE-escaped); no stray/comment/unterminated token. Field names: every BMP code point c in a{c}b. SQLite outputs are "
        "executed and compared with R-EVAL, a canary table must survive. non-trivial = payloads containing at least one "
        "SQL/LIKE metacharacter.")
ASSUMPTIONS = ["standard SQL lexing (no backslash escapes in string literals) as in SQL-99, SQLite and Trino/Athena",
               "a trailing  ESCAPE '<one character>'  directly after a LIKE pattern literal is treated as an attribute of that literal (a one-character literal cannot carry a payload); the pattern body must stand for the payload under that escape character"]

SIGMA = ["'", '"', "\\", "%", "_", "-", ";", "/", "*", "\x00", "\n", "\u2019", "\u02bc", " ", "a", "(", ")", "|", ","]
# payloads that LOOK like another literal kind (date, date-time, number, GUID, keyword, duration) followed by an attack suffix:
# a translation that re-types "ISO-looking" strings must still keep them inside one string token
LOOKALIKE = [pre + suf for pre in ("2020-01-01", "2020-01-01T10:00:00Z", "12", "1.5e3", "123e4567-e89b-12d3-a456-426614174000", "true", "null",
                                   "P1D", "10:30:00")
             for suf in ("", "' OR '1'='1", "'; --", "\\")]
# placeholders of string templating / DB-API paramstyles: a renderer that fills templates by textual replacement must not
# re-interpret them inside a literal
TEMPLATES = ["$1", "$2", "$3", "$2'", "{0}", "{1}", "{}", "%s", "%(x)s", "%d", "\\1", "\\2", "?", ":p", ":1", "@p", "${x}", "#{x}", "{{", "}}",
             "$2, 1) OR 1=1 OR INSTR(", "{1}' OR '1'='1"]
CLASSICS = ["' OR 1=1 --", "'; DROP TABLE canary; --", "\\'", "%' --", "' UNION SELECT 1 --", "x' AND 'y'='y", "*/ OR 1=1 /*",
            "\\' OR 1=1 --", "''", "' || (SELECT 1) || '", "%_\\%\\_", "\u2019 OR 1=1 --"]
META = set("'\"\\%_-;/*\x00\n\u2019\u02bc()|")


def confusables():
    """every BMP character that some Unicode normalisation form or case mapping turns into a string containing a SQL/LIKE
    metacharacter (e.g. U+FF07 FULLWIDTH APOSTROPHE -> ' under NFKC): a translation that normalises AFTER escaping lets these out"""
    import unicodedata
    targets = set("'\"\\%_-;/*|")
    out = []
    for cp in range(0x80, 0x10000):
        if 0xD800 <= cp <= 0xDFFF:
            continue
        c = chr(cp)
        forms = {unicodedata.normalize(f, c) for f in ("NFC", "NFD", "NFKC", "NFKD")} | {c.lower(), c.upper(), c.casefold()}
        if any(set(f) & targets for f in forms if f != c):
            out.append(c)
    return out

DIALECTS = {"standard": AstToSqlVisitor, "sqlite": AstToSqliteSqlVisitor, "athena": AstToAthenaSqlVisitor}
_lx, _ps = ODataLexer(), ODataParser()
_H = None
CAP = {"indexof": True, "concat": True}


def harness():
    global _H
    if _H is None:
        _H = SqliteHarness()
    return _H


WRAPPERS = [
    ("plain", lambda L: L),
    ("tolower", lambda L: T.call("tolower", L)),
    ("toupper", lambda L: T.call("toupper", L)),
    ("trim", lambda L: T.call("trim", L)),
    ("substring2", lambda L: T.call("substring", L, T.Int(0))),
    ("substring3", lambda L: T.call("substring", L, T.Int(0), T.Int(9))),
    ("concat-l", lambda L: T.call("concat", L, T.Str("k"))),
    ("concat-r", lambda L: T.call("concat", T.Str("k"), L)),
]
MARK = T.Str("\x01MARK\x01")
MARK_K = T.Str("\x01MARK\x01K")     # replaced by 'k' + payload
MARK_J = T.Str("\x01MARK\x01J")     # replaced by 'j' + payload


def extra_positions():
    """positions next to date/number-typed expressions and multi-element lists"""
    d, n, s = T.I("d"), T.I("n"), T.I("s")
    return [T.binop("Eq", T.call("date", d), MARK), T.binop("Gt", T.call("now"), MARK), T.binop("Eq", d, MARK), T.binop("Eq", MARK, T.call("year", d)),
            T.binop("Eq", n, MARK), T.binop("In", T.call("date", d), T.lst(MARK, T.Str("2020-01-01"))),
            T.binop("In", s, T.lst(T.Str("k"), MARK, T.Str("j"), MARK)), T.binop("In", s, T.lst(MARK, T.Str("q, b"), T.Str("a, b"))),
            T.binop("In", s, T.lst(MARK_K, MARK_J)), T.binop("Or", T.binop("Eq", s, MARK_K), T.binop("Eq", T.I("u"), MARK_J)),
            # MIXED lists: the string comes after an element of another kind (a renderer chosen by the first element must not serve the rest)
            T.binop("In", n, T.lst(T.Int(1), MARK)), T.binop("In", s, T.lst(T.Flt("1.5"), MARK, T.Int(2))), T.binop("In", s, T.lst(T.NULL, MARK)),
            T.binop("In", s, T.lst(T.Bool(True), MARK)), T.binop("In", s, T.lst(("GUID", "123e4567-e89b-12d3-a456-426614174000"), MARK)),
            T.binop("In", d, T.lst(("Date", "2020-01-01"), MARK)), T.binop("In", d, T.lst(("DateTime", "2020-01-01T00:00:00Z"), MARK_K, MARK_J)),
            T.binop("In", s, T.lst(s, MARK)), T.binop("In", s, T.lst(T.call("tolower", s), MARK)),
            # a string where a number is expected syntactically: under a unary minus / not, as an arithmetic operand
            T.binop("Eq", n, T.unop("USub", MARK)), T.binop("In", n, T.lst(T.Int(1), T.unop("USub", MARK))), T.binop("Eq", n, T.binop("Add", n, MARK)),
            T.binop("Eq", T.unop("USub", T.unop("USub", MARK)), n)]


def positions():
    out = []
    base = SC.string_position_terms(MARK, CAP)
    for bi, b in enumerate(base):
        for wname, w in WRAPPERS:
            out.append(("p%d:%s" % (bi, wname), b, w))
    for bi, b in enumerate(extra_positions()):
        out.append(("x%d:plain" % bi, b, WRAPPERS[0][1]))
    return out


def instantiate(base, wrap, payload):
    lit = wrap(T.Str(payload))
    return T.replace(base, lambda node: lit if node == MARK else T.Str("k" + payload) if node == MARK_K else T.Str("j" + payload) if node == MARK_J else node)


def translate(text, dialect, alias):
    try:
        tree = _ps.parse(_lx.tokenize(text))
        return ("sql", DIALECTS[dialect](alias).visit(tree))
    except exceptions.ODataException as e:
        return ("lib", type(e).__name__)
    except Exception as e:  # noqa
        return ("foreign", type(e).__name__ + ":" + str(e)[:80])


def fold_escape(toks, escs=None):
    """fold  <str> ESCAPE '<one character>'  into the pattern literal (see ASSUMPTIONS); escs (optional dict) receives
    {index of the pattern literal in the folded list: its escape character}"""
    out = []
    i = 0
    while i < len(toks):
        t = toks[i]
        if (t.kind == "word" and t.value.upper() == "ESCAPE" and out and out[-1][0] == "str" and i + 1 < len(toks)
                and toks[i + 1].kind == "str" and len(toks[i + 1].value) == 1):
            if escs is not None:
                escs[len(out) - 1] = toks[i + 1].value
            i += 2
            continue
        out.append(t)
        i += 1
    return out


def like_unescape(p, esc):
    """the text a LIKE pattern body stands for when esc-X means a literal X; None when the body ends in a dangling escape"""
    out, i = [], 0
    while i < len(p):
        if p[i] == esc:
            if i + 1 >= len(p):
                return None
            out.append(p[i + 1])
            i += 2
        else:
            out.append(p[i])
            i += 1
    return "".join(out)


def like_escape(p):
    return p.replace("\\", "\\\\").replace("%", "\\%").replace("_", "\\_")


def judge_pair(acc, pos, payload, dialect, alias, text_p, res_p, res_x, nocc=1):
    acc.count("executions")
    acc.count("transitions")
    info = {"layer": "payload", "position": pos, "payload": payload, "dialect": dialect, "alias": alias, "filter": text_p}
    if res_p[0] != "sql" or res_x[0] != "sql":
        if res_p[0] == "foreign":
            acc.violation("foreign-exc:%s" % dialect, dict(info, observed=res_p))
        elif res_p != res_x:
            acc.violation("payload-dependent-outcome:%s" % dialect, dict(info, observed=res_p, neutral=res_x))
        else:
            acc.outcome(("refused", dialect, res_p[1]))
        return
    escs = {}
    tp = fold_escape(sqllex.lex(res_p[1]), escs)
    tx = fold_escape(sqllex.lex(res_x[1]))
    bad = sqllex.bad_tokens(tp)
    if bad:
        acc.violation("bad-token:%s:%s" % (dialect, bad[0].kind), dict(info, sql=res_p[1], bad=[b.text[:40] for b in bad[:3]]))
        return
    if len(tp) != len(tx):
        acc.violation("token-count:%s" % dialect, dict(info, sql=res_p[1], neutral_sql=res_x[1]))
        return
    diff = [i for i, (a, b) in enumerate(zip(tp, tx)) if a != b]
    if not diff or len(diff) > nocc or any(tp[i].kind != "str" or tx[i].kind != "str" for i in diff):
        acc.violation("tokens-outside-literal-changed:%s" % dialect, dict(info, sql=res_p[1], neutral_sql=res_x[1], diff=diff[:5]))
        return
    for i in diff:
        vx, vp = tx[i].value, tp[i].value
        k = vx.find("x")
        pre, suf = vx[:k], vx[k + 1:]
        inner = vp[len(pre):len(vp) - len(suf)] if len(suf) else vp[len(pre):]
        # the literal carries the payload itself, or - when an ESCAPE clause follows - a pattern body that stands for the payload
        ok = inner == payload or (i in escs and like_unescape(inner, escs[i]) == payload)
        if k < 0 or not (vp.startswith(pre) and vp.endswith(suf) and ok):
            acc.violation("literal-value:%s" % dialect, dict(info, sql=res_p[1], literal=vp, expected_inner=[payload, like_escape(payload)]))
            return
    acc.outcome(("ok", dialect, len(diff)))


def _payload_unit(unit):
    payloads, execute = unit
    acc = Acc()
    poss = positions()
    neutral = {}
    occ = {pos: sum(1 for st in T.subterms(base) if st in (MARK, MARK_K, MARK_J)) for pos, base, wrap in poss}
    for pos, base, wrap in poss:
        tx = to_odata(instantiate(base, wrap, "x"))
        for d in DIALECTS:
            for al in (None, "al"):
                neutral[(pos, d, al)] = translate(tx, d, al)
    for payload in payloads:
        acc.count("states")
        if set(payload) & META:
            acc.count("nontrivial")
        for pos, base, wrap in poss:
            term = instantiate(base, wrap, payload)
            text_p = to_odata(term)
            for d in DIALECTS:
                for al in (None, "al"):
                    res = translate(text_p, d, al)
                    judge_pair(acc, pos, payload, d, al, text_p, res, neutral[(pos, d, al)], nocc=occ[pos])
                    if execute and d == "sqlite" and res[0] == "sql" and "\x00" not in payload and al is None:
                        cols = colkey(typed.fields_of(term))
                        try:
                            got = set(harness().select_ids(cols, res[1]))
                        except Exception as e:  # noqa
                            got = ("EXC", type(e).__name__, str(e)[:200])
                        sub = Acc()
                        try:
                            SC.judge(sub, "sqlite-exec", term, text_p, cols, got, ["like-field-wildcards"],
                                     {"layer": "execute", "sql": res[1], "payload": payload})
                        except KeyError:
                            # a literal kind the reference evaluator does not model (GUID, date in a mixed list): token-level judgement only
                            acc.count("exec_positions_outside_reference_evaluator")
                        for v in sub.violations:
                            if v["finding"] == "sqlite-exec:like-field-wildcards":
                                acc.count("exec_rows_explained_by_C01_finding_like_field_wildcards", v["n"])
                            else:
                                acc.violation(v["cls"], v["case"])
                        acc.count("executions")
                        if not harness().canary_ok():
                            acc.violation("canary-destroyed", {"layer": "execute", "filter": text_p, "sql": res[1]})
    acc.sample({"payload": payloads[0], "filter": to_odata(instantiate(poss[0][1], poss[0][2], payloads[0]))}, cap=1)
    return acc


def _field_unit(rng):
    acc = Acc()
    lo, hi = rng
    for cp in range(lo, hi):
        if 0xD800 <= cp <= 0xDFFF:
            continue
        name = "a" + chr(cp) + "b"
        text = name + " eq 1"
        try:
            tree = _ps.parse(_lx.tokenize(text))
        except exceptions.ODataException:
            acc.count("field_rejected_by_lexer")
            continue
        except Exception as e:  # noqa
            acc.violation("field-foreign-exc", {"layer": "field", "codepoint": cp, "error": repr(e)[:100]})
            continue
        from odata_query import ast as A
        if not (isinstance(tree, A.Compare) and isinstance(tree.left, A.Identifier) and tree.left.full_name() == name):
            acc.count("field_not_single_identifier")
            continue
        acc.count("states")
        for d, V in DIALECTS.items():
            for al in (None, "al"):
                sql = V(al).visit(tree)
                acc.count("executions")
                toks = sqllex.lex(sql)
                qids = [t for t in toks if t.kind == "qid"]
                want = name.split(".")[-1]
                if d == "athena":
                    want = sqllex.athena_identifier_ref(want)
                names = [q.value for q in qids if q.value != "al"]
                if sqllex.bad_tokens(toks) or names != [want] or len(toks) != (3 if not al else 5):
                    acc.violation("field:%s" % d, {"layer": "field", "codepoint": cp, "dialect": d, "alias": al, "sql": sql, "expected_qid": want})
                else:
                    acc.outcome(("field-ok", d))
    return acc


# ---- payload combinations: several string slots, a DIFFERENT payload in each ------------------------------------------------
COMBO_SIGMA = ["a", "'", "\\", "q\\", "/*", "*/", "/* ", " */", "--", ";", "%", "\n"]
SLOTS = [T.Str("\x01S0\x01"), T.Str("\x01S1\x01"), T.Str("\x01S2\x01")]


def combo_skeletons():
    s, u = T.I("s"), T.I("u")
    M0, M1, M2 = SLOTS
    return [
        ("starts-concat-or-lower", T.binop("Or", T.call("startswith", T.call("concat", s, M0), M1), T.binop("Eq", T.call("tolower", u), M2))),
        ("eq-and-eq-or-ne", T.binop("Or", T.binop("And", T.binop("Eq", s, M0), T.binop("Eq", u, M1)), T.binop("NotEq", s, M2))),
        ("in-list", T.binop("In", s, T.lst(M0, M1, M2))),
        ("contains-ends-eq", T.binop("And", T.binop("And", T.call("contains", s, M0), T.call("endswith", u, M1)), T.binop("Eq", s, M2))),
        ("concat-eq", T.binop("Eq", T.call("concat", M0, M1), M2)),
        ("eq-or-contains-or-eq", T.binop("Or", T.binop("Or", T.binop("Eq", M0, s), T.call("contains", u, M1)), T.binop("Eq", T.call("trim", M2), u))),
    ]


def combo_instantiate(base, triple):
    m = dict(zip(SLOTS, triple))
    return T.replace(base, lambda node: T.Str(m[node]) if node in m else node)


def judge_combo(acc, name, triple, dialect, alias, text_p, res_p, res_x):
    acc.count("executions")
    acc.count("transitions")
    info = {"layer": "combo", "skeleton": name, "payloads": list(triple), "dialect": dialect, "alias": alias, "filter": text_p}
    if res_p[0] != "sql" or res_x[0] != "sql":
        if res_p[0] == "foreign":
            acc.violation("foreign-exc:%s" % dialect, dict(info, observed=res_p))
        elif res_p != res_x:
            acc.violation("payload-dependent-outcome:%s" % dialect, dict(info, observed=res_p, neutral=res_x))
        return
    escs = {}
    tp = fold_escape(sqllex.lex(res_p[1]), escs)
    tx = fold_escape(sqllex.lex(res_x[1]))
    bad = sqllex.bad_tokens(tp)
    if bad:
        acc.violation("bad-token:%s:%s" % (dialect, bad[0].kind), dict(info, sql=res_p[1], bad=[b.text[:40] for b in bad[:3]]))
        return
    if len(tp) != len(tx):
        acc.violation("token-count:%s" % dialect, dict(info, sql=res_p[1], neutral_sql=res_x[1]))
        return
    for i, (a, b) in enumerate(zip(tp, tx)):
        if b.kind == "str" and "x" in b.value and any(("x%d" % j) in b.value for j in range(3)):
            j = [j for j in range(3) if ("x%d" % j) in b.value][0]
            k = b.value.find("x%d" % j)
            pre, suf = b.value[:k], b.value[k + 2:]
            if a.kind != "str" or not (a.value.startswith(pre) and (a.value.endswith(suf) or not suf) and len(a.value) >= len(pre) + len(suf)):
                acc.violation("literal-value:%s" % dialect, dict(info, sql=res_p[1], neutral_sql=res_x[1], slot=j))
                return
            inner = a.value[len(pre):len(a.value) - len(suf)] if suf else a.value[len(pre):]
            if not (inner == triple[j] or (i in escs and like_unescape(inner, escs[i]) == triple[j])):
                acc.violation("literal-value:%s" % dialect, dict(info, sql=res_p[1], literal=a.value, slot=j))
                return
        elif a != b:
            acc.violation("tokens-outside-literal-changed:%s" % dialect, dict(info, sql=res_p[1], neutral_sql=res_x[1], index=i))
            return
    acc.outcome(("combo-ok", dialect))


def _combo_unit(unit):
    acc = Acc()
    for name, base, triples in unit:
        tx = to_odata(combo_instantiate(base, ("x0", "x1", "x2")))
        neutral = {(d, al): translate(tx, d, al) for d in DIALECTS for al in (None, "al")}
        for triple in triples:
            acc.count("states")
            text_p = to_odata(combo_instantiate(base, triple))
            for d in DIALECTS:
                for al in (None, "al"):
                    judge_combo(acc, name, triple, d, al, text_p, translate(text_p, d, al), neutral[(d, al)])
    return acc


def punctuation_payloads():
    """contents that use up a translator's choices: every ASCII punctuation character except one (for each one), every prefix of
    the punctuation in ASCII order (with and without a leading backslash), each followed by a LIKE wildcard and an attack suffix.
    An escape character / quoting strategy picked by "the first character not in the value" meets each of its alternatives."""
    import string
    P = string.punctuation
    out = [P, P + "%", "\\" + P]
    for c in P:
        rest = P.replace(c, "")
        out += [rest, rest + " OR 1=1 --"]
    for i in range(1, len(P) + 1):
        out += [P[:i] + "%", "\\" + P[:i] + "_ OR 1=1 --"]
    no_quote = P.replace("'", "")
    for i in range(1, len(no_quote) + 1):
        out += ["\\" + no_quote[:i] + "%", no_quote[:i] + "_"]
    return out


def payloads(k):
    out = []
    for n in range(k + 1):
        for tup in product(SIGMA, repeat=n):
            out.append("".join(tup))
    conf = confusables()
    # combining mark, RTL override, astral character, zero-width joiner: alone and next to a quote
    uni = ["\u0301", "\u202e", "\U0001F600", "\u200d", "e\u0301", "\ufeff"]
    uni = uni + [u + "'" for u in uni] + ["'" + u for u in uni] + [u + "%" for u in uni]
    # long runs of one metacharacter (a replacement that stops after n occurrences), alone and in front of an attack
    runs = [c * n + suf for c in ("'", "\\", "%", "_", '"') for n in (8, 15, 16, 17, 31, 32, 33, 64, 65, 100, 255, 256, 257) for suf in ("", "' OR 1=1 --")]
    return out + runs + CLASSICS + LOOKALIKE + TEMPLATES + uni + conf + ["zz" + c + " OR 1=1 --" for c in conf[::3]] + punctuation_payloads()


def run(ctx):
    SC.init_now()
    k = 2 if ctx.quick else 3
    ps = payloads(k)
    if ctx.quick:
        # fixed core: all payloads of length <=1 and classics everywhere; length-2 payloads: block VERIF_SEED mod 2 of positions is
        # not needed - the whole product is cheap enough
        pass
    exec_set = set(payloads(1)) if ctx.quick else set(payloads(2))
    units = []
    for c in chunked(ps, max(1, len(ps) // 96 + 1)):
        ex = [p for p in c if p in exec_set]
        nx = [p for p in c if p not in exec_set]
        if ex:
            units.append((ex, True))
        if nx:
            units.append((nx, False))
    ctx.pmap(_payload_unit, units)
    ctx.layer("payloads", max_len=k, payloads=len(ps), positions=len(positions()), dialects=3, alias=2,
              executed_payloads=len(exec_set), exhaustive=True)
    triples = list(product(COMBO_SIGMA, repeat=3))
    ctx.pmap(_combo_unit, [[(name, base, ch)] for name, base in combo_skeletons() for ch in chunked(triples, 300)])
    ctx.layer("payload-combinations", skeletons=len(combo_skeletons()), slots=3, alphabet=len(COMBO_SIGMA), triples=len(triples),
              dialects=3, alias=2, exhaustive=True,
              note="a different payload in each of three string slots: text between two literals must not depend on their contents")
    if ctx.quick:
        b = ctx.seed % 8
        ranges = [(0, 0x1000)] + [(x, x + 512) for x in range(0x1000 + b * 0x1E00, 0x1000 + (b + 1) * 0x1E00, 512)]
        ranges = [(x, min(x + 512, 0x1000)) for x in range(0, 0x1000, 512)] + ranges[1:]
    else:
        ranges = [(x, x + 1024) for x in range(0, 0x10000, 1024)]
    ctx.pmap(_field_unit, ranges)
    ctx.layer("fields", code_points=sum(h - l for l, h in ranges), exhaustive=not ctx.quick,
              note="quick: U+0000-0FFF plus eighth block VERIF_SEED mod 8; thorough: whole BMP")


def replay(ctx, case):
    SC.init_now()
    acc = Acc()
    if case.get("layer") == "payload":
        pos = {p[0]: p for p in positions()}[case["position"]]
        tx = to_odata(instantiate(pos[1], pos[2], "x"))
        res_x = translate(tx, case["dialect"], case["alias"])
        res_p = translate(case["filter"], case["dialect"], case["alias"])
        judge_pair(acc, case["position"], case["payload"], case["dialect"], case["alias"], case["filter"], res_p, res_x,
                   nocc=sum(1 for st in T.subterms(pos[1]) if st in (MARK, MARK_K, MARK_J)))
        return {"filter": case["filter"], "sql": res_p, "neutral_sql": res_x, "violations": acc.violations, "ok": not acc.violations}
    if case.get("layer") == "combo":
        base = dict(combo_skeletons())[case["skeleton"]]
        tx = to_odata(combo_instantiate(base, ("x0", "x1", "x2")))
        judge_combo(acc, case["skeleton"], tuple(case["payloads"]), case["dialect"], case["alias"], case["filter"],
                    translate(case["filter"], case["dialect"], case["alias"]), translate(tx, case["dialect"], case["alias"]))
        return {"filter": case["filter"], "violations": acc.violations, "ok": not acc.violations}
    if case.get("layer") == "field":
        _field_unit((case["codepoint"], case["codepoint"] + 1))
        acc = _field_unit((case["codepoint"], case["codepoint"] + 1))
        return {"violations": acc.violations, "ok": not acc.violations}
    return {"ok": False, "note": "execute-layer case: rerun ./check C01/C07"}
