"""C12 - A backend that cannot express a construct refuses it instead of mistranslating."""
import sqlalchemy as sa
from sqlalchemy.dialects import sqlite as sa_sqlite

from odata_query import exceptions
from odata_query.grammar import ODataLexer, ODataParser
from odata_query.roundtrip import AstToODataVisitor
from odata_query.sql import AstToSqlVisitor
from odata_query.sql.athena import AstToAthenaSqlVisitor
from odata_query.sql.sqlite import AstToSqliteSqlVisitor

from checks import C09, C18
from vt import semcheck as SC, sqllex, sqlparse_ as SP, terms as T, typed
from vt.dbs import django_h, sa_h
from vt.decode import decode
from vt.refprint import to_odata
from vt.runner import Acc

RULE = ("the (node kind x operand position x backend) matrix: every well-typed term with <=2 constructor nodes over ALL built-in "
        "functions (string, date/time, math, geo, set, list overloads), arithmetic, unary minus, comparisons, in, null tests, logic, "
        "every literal kind, plus paths (depth 1-3), any/all lambdas, custom-namespace calls and named parameters in operand "
        "positions; thorough adds three-level terms over a reduced alphabet; x {standard, SQLite, Athena, round-trip, Django, "
        "SQLAlchemy ORM, SQLAlchemy Core}. Allowed outcomes: complete output (SQL dialects: parses under R-SQL, every leaf once, "
        "operator spans preserved; round-trip: re-parses to the same tree; ORMs: statement compiles/executes on SQLite, every field "
        "in the SQL and every literal value in SQL or parameters), an ODataException subclass, or NotImplementedError from SQLAlchemy "
        "Core on paths/lambdas. Unknown field names on both SQLAlchemy backends must give InvalidFieldException. non-trivial = distinct "
        "(term, backend) pairs.")
ASSUMPTIONS = ["completeness of ORM output is judged by presence of fields and literal values, not by a full structural match",
               "GeoDjango is not installed: geo functions on Django may raise the documented ImportError of requires_gis"]

_lx, _ps = ODataLexer(), ODataParser()
SQLD = {"standard": AstToSqlVisitor, "sqlite": AstToSqliteSqlVisitor, "athena": AstToAthenaSqlVisitor}
BACKENDS = ["standard", "sqlite", "athena", "roundtrip", "django", "sa-orm", "sa-core"]
_EN = None


def enum():
    global _EN
    if _EN is None:
        leaves = dict(C18.LEAVES)
        leaves[C18.D] = [("Date", "2020-02-29")]
        leaves[C18.DUR] = [("Duration", "P1D"), ("Duration", "-PT2H")]
        leaves[C18.G] = [("Geography", "POINT(1 2)")]
        _EN = typed.Enumerator(C18.sigs(), leaves)
    return _EN


def extra_terms():
    """paths, lambdas, named parameters, custom namespaces, every literal kind in operand positions"""
    n, s = typed.F("n"), typed.F("s")
    paths = [T.path("blog", "title"), T.path("blog", "owner", "name"), T.path("author", "age")]
    lams = [T.lam(T.I("comments"), "Any"), T.lam(T.I("comments"), "Any", "c", T.binop("Gt", T.path("c", "score"), T.Int(1))),
            T.lam(T.I("tags"), "All", "t", T.binop("Eq", T.path("t", "weight"), T.Int(2))),
            T.lam(T.path("blog", "posts"), "Any", "p", T.binop("Eq", T.path("p", "title"), T.Str("t1")))]
    out = []
    for p in paths:
        out += [("path", T.binop("Eq", p, T.Str("x"))), ("path", T.binop("Eq", T.Str("x"), p)), ("path", T.call("contains", p, T.Str("x"))),
                ("path", T.binop("Eq", T.call("length", p), T.Int(3))), ("path", T.binop("In", p, T.lst(T.Str("a"), T.Str("b")))),
                ("path", T.binop("Eq", p, T.NULL)), ("path", T.binop("Gt", T.binop("Add", T.path("author", "age"), T.Int(1)), T.Int(2))),
                ("path", T.unop("Not", T.binop("Eq", p, T.Str("x")))), ("path", T.binop("And", T.binop("Eq", p, T.Str("x")), T.binop("Gt", typed.F("score"), T.Int(0))))]
    # same-NAMED relationships on different models in one filter (Post.owner -> City, Blog.owner -> Person)
    o_city, o_pers = T.binop("Eq", T.path("owner", "name"), T.Str("x")), T.binop("Eq", T.path("blog", "owner", "name"), T.Str("y"))
    o_age = T.binop("Eq", T.path("blog", "owner", "age"), T.Int(3))
    for a_, b_ in ((o_city, o_pers), (o_pers, o_city), (o_city, o_age), (o_age, o_city)):
        out += [("path", T.binop("And", a_, b_)), ("path", T.binop("Or", a_, T.unop("Not", b_)))]
    # a lambda body that also mentions a field of the OUTER entity (not prefixed by the range variable)
    for body in (T.binop("Eq", T.path("c", "score"), typed.F("score")), T.binop("Gt", typed.F("score"), T.path("c", "score")),
                 T.binop("NotEq", T.path("c", "text"), typed.F("title")), T.binop("And", T.path("c", "flag"), T.binop("Eq", typed.F("title"), T.Str("t1")))):
        out += [("lambda-outer", T.lam(T.I("comments"), "Any", "c", body)), ("lambda-outer", T.lam(T.I("comments"), "All", "c", body))]
    # navigation through a plain (scalar) column: not a relationship, so there is nothing to navigate to
    title_f = typed.F("title")
    out += [("plain-column-navigation", T.binop("Eq", T.A(title_f, "nope"), T.Int(1))), ("plain-column-navigation", T.binop("Eq", T.A(T.A(typed.F("score"), "x"), "y"), T.Int(1))),
            ("plain-column-navigation", T.lam(title_f, "Any", "t", T.binop("Eq", T.I("t"), T.Str("a")))), ("plain-column-navigation", T.lam(title_f, "Any")),
            ("plain-column-navigation", T.lam(T.path("blog", "title"), "All", "t", T.binop("Eq", T.I("t"), T.Str("a"))))]
    for l in lams:
        out += [("lambda", l), ("lambda", T.unop("Not", l)), ("lambda", T.binop("And", l, T.binop("Gt", typed.F("score"), T.Int(0)))),
                ("lambda", T.binop("Or", T.binop("Eq", typed.F("title"), T.Str("t")), l)), ("lambda", T.binop("Eq", l, T.Bool(True)))]
    out += [("named", T.binop("Eq", T.call("f", T.named("p", T.Int(1)), ns=("ns",)), T.Int(2))),
            ("named", T.call("f", T.named("p", n), T.named("q", T.Str("s")), ns=("ns",))),
            ("custom-ns", T.binop("Eq", T.call("f", n, T.Str("s"), ns=("ns",)), T.Int(2))),
            ("custom-ns", T.binop("Eq", T.call("length", s, ns=("ns",)), T.Int(2))),
            ("custom-ns", T.call("contains", s, T.Str("a"), ns=("my", "ns"))),
            ("geo-ns", T.binop("Eq", T.call("length", s, ns=("geo",)), T.Int(1)))]
    for kind, lit in C18.LITERALS.items():
        if kind == "List":
            continue     # field eq (list) is not well-typed
        field = {"String": s, "Integer": n, "Float": typed.F("x"), "Boolean": typed.F("b")}.get(kind, typed.F("d"))
        out += [("literal:" + kind, T.binop("Eq", field, lit)), ("literal:" + kind, T.binop("NotEq", lit, field)),
                ("literal:" + kind, T.binop("In", field, T.lst(lit, lit))), ("literal:" + kind, T.binop("Or", T.binop("Eq", field, lit), T.binop("Eq", n, T.Int(1))))]
    # a duration without any component (the lexer accepts `duration'P'` and `duration'PT'`): a value is missing, not zero
    out += [("literal:Duration", T.binop("Gt", typed.F("d"), T.binop("Add", typed.F("d"), ("Duration", "P")))), ("literal:Duration", T.binop("Eq", typed.F("d"), T.binop("Sub", typed.F("d"), ("Duration", "PT")))),
            ("literal:Duration", T.binop("Gt", typed.F("d"), ("Duration", "P"))), ("literal:Duration", T.binop("Gt", typed.F("d"), ("Duration", "-P")))]
    out += [("literal:Duration", T.binop("Gt", typed.F("d"), T.binop("Sub", T.call("now"), ("Duration", "P1Y2M3DT4H5M6.5S")))),
            ("bare-bool", typed.F("b")), ("bare-bool", T.unop("Not", typed.F("b"))), ("bare-bool", T.binop("And", typed.F("b"), T.binop("Eq", n, T.Int(1)))),
            ("neg", T.binop("Eq", T.unop("USub", n), T.Int(1))), ("neg", T.binop("Eq", T.unop("USub", T.binop("Add", n, T.Int(1))), T.Int(1))),
            ("neg", T.binop("Lt", T.binop("Mult", n, T.unop("USub", typed.F("m"))), T.Int(0)))]
    return out


def exotic_positions():
    """well-typed placements of the rarely used node kinds (paths, lambdas, custom-namespace calls with positional / named
    parameters) in EVERY argument position of every constructor of the typed grammar, by the position's type"""
    title, score = typed.F("title"), typed.F("score")
    custom = [("custom-ns", T.call("f", score, ns=("ns",))), ("named", T.call("f", T.named("p", score), ns=("ns",)))]
    by_type = {
        C18.S: [("path", T.path("blog", "title")), ("path", T.path("blog", "owner", "name"))] + custom,
        C18.I: [("path", T.path("author", "age")), ("path", T.path("blog", "owner", "age"))] + custom,
        C18.R: [("path", T.path("author", "age"))] + custom,
        C18.B: [("lambda", T.lam(T.I("comments"), "Any", "c", T.path("c", "flag"))), ("lambda", T.lam(T.I("comments"), "Any")),
                ("lambda", T.lam(T.I("tags"), "All", "t", T.binop("Eq", T.path("t", "weight"), T.Int(2))))] + custom,
        C18.TT: custom, C18.D: custom, C18.DUR: custom, C18.G: custom,
    }
    default = {C18.S: title, C18.I: score, C18.R: T.Flt("1.5"), C18.B: T.binop("Gt", score, T.Int(0)), C18.TT: typed.dtlit("2020-02-29T23:59:59Z"),
               C18.D: ("Date", "2020-02-29"), C18.TM: ("Time", "23:59:59"), C18.DUR: ("Duration", "P1D"), C18.G: ("Geography", "POINT(1 2)"),
               C18.GL: ("Geography", "LINESTRING(1 1,2 2)"), C18.GP: ("Geography", "POLYGON((1 1,1 2,2 2,1 1))"), C18.LI: T.lst(T.Int(0), T.Int(1)),
               C18.LS: T.lst(T.Str("a"), T.Str("b")), "LX": T.lst(T.Int(0), T.Int(1)), C18.NOW: T.call("now"), "RX": T.Str("^a"), typed.BV: typed.F("flag")}
    out = []
    for sig in C18.sigs():
        if not sig.args or any(a not in default for a in sig.args):
            continue
        for i, ty in enumerate(sig.args):
            for kind, ex in by_type.get(ty, []):
                args = [default[a] for a in sig.args]
                args[i] = ex
                t = sig.build(*args)
                if sig.ret != C18.B:
                    t = T.binop("Eq", t, t) if sig.ret not in (C18.LI, "LX", C18.LS) else T.binop("Eq", T.call("length", t), T.Int(1))
                out.append((kind, t))
    seen, uniq = set(), []
    for k, t in out:
        if t not in seen:
            seen.add(t)
            uniq.append((k, t))
    return uniq


def uniq_literals(term):
    """rename literal values only (fields keep their names): returns (term', [value needles])"""
    needles = []
    c = [0]
    # literals compared with null are constant-folded by the ORMs: not required to show up
    folded = set()
    for st in T.subterms(term):
        if st[0] == "Compare" and st[1][0] in ("Eq", "NotEq") and ("Null",) in (st[2], st[3]):
            other = st[3] if st[2] == ("Null",) else st[2]
            folded.add(other)

    def f(node):
        k = node[0]
        if len(node) != 2 or not isinstance(node[1], str) or node in folded:
            return node
        c[0] += 1
        if k == "Integer":
            v = str(500 + c[0])
            needles.append(("num", v))
            return (k, ("-" if node[1].startswith("-") else "") + v)
        if k == "Float":
            v = "%d.5" % (500 + c[0])
            needles.append(("num", v))
            return (k, v)
        if k == "String":
            v = "u%dq" % c[0]
            needles.append(("str", v))
            return (k, v)
        return node
    return T.replace(term, f), needles


def classify_exc(e, backend, kind):
    if isinstance(e, exceptions.ODataException):
        return "lib:" + type(e).__name__
    if isinstance(e, NotImplementedError) and backend == "sa-core" and kind in ("path", "lambda", "lambda-outer", "plain-column-navigation"):
        return "documented:NotImplementedError"
    if isinstance(e, ImportError) and backend == "django" and "GeoDjango" in str(e):
        return "documented:ImportError(requires_gis)"
    if backend == "django" and kind == "plain-column-navigation" and type(e).__name__ == "FieldError":
        # `title/nope`: an unknown field name. The Django visitor does not look at the model's fields; Django itself reports unknown
        # names with FieldError when the query is built (the property's invalid-field clause is about the SQLAlchemy backends)
        return "documented:FieldError(unknown field, reported by Django)"
    return "foreign:" + type(e).__name__


def sql_complete(term, text, sql):
    if not isinstance(sql, str):
        return "non-string output %r" % (sql,)
    try:
        tu, leaves = C09.uniquify(term)
    except KeyError:
        tu = None
    if tu is not None:
        return None     # structure judged below on the uniquified variant
    try:
        SP.parse_sql(sql)
    except SP.SqlSyntaxError as e:
        return "unparsable: %s" % str(e)[:80]
    return None


_SES = None


def run_backend(backend, kind, term, root_kind):
    """-> (outcome, detail). outcome in {'complete', 'lib:..', 'documented:..', 'foreign:..', 'incomplete'}"""
    global _SES
    text = to_odata(term)
    tree = _ps.parse(_lx.tokenize(text))
    try:
        if backend in SQLD:
            try:
                tu, leaves = C09.uniquify(term)
            except KeyError:
                tu, leaves = None, None
            if kind.startswith(("literal", "overflow")):
                tu, leaves = None, None       # the literal's own spelling is the point: do not replace it by a unique token
            if tu is not None:
                sql = SQLD[backend]().visit(_ps.parse(_lx.tokenize(to_odata(tu))))
                if not isinstance(sql, str):
                    return "incomplete", "non-string output %r" % (sql,)
                bad = C09.check_structure(tu, leaves, sql)
                if bad:
                    if backend == "standard" and any(s[0] == "Call" and s[1][1] in ("floor", "ceiling") for s in typed.value_subterms(tu)):
                        return "incomplete-known:standard:floor-ceiling-case-template", sql
                    return "incomplete", "%s: %s | %s" % (bad[0], bad[1], sql)
                return "complete", sql
            sql = SQLD[backend]().visit(tree)
            if not isinstance(sql, str):
                return "incomplete", "non-string output %r" % (sql,)
            try:
                SP.parse_sql(sql)
            except SP.SqlSyntaxError as e:
                return "incomplete", "unparsable (%s): %s" % (str(e)[:60], sql)
            return "complete", sql
        if backend == "roundtrip":
            r = AstToODataVisitor().visit(tree)
            if not isinstance(r, str):
                return "incomplete", "non-string %r" % (r,)
            if decode(_ps.parse(_lx.tokenize(r))) != decode(tree):
                return "incomplete", "re-parses differently: %s" % r
            return "complete", r
        tl, needles = uniq_literals(term)
        text_l = to_odata(tl)
        fields = typed.fields_of(term) if root_kind == "scalar" else []
        if backend == "django":
            from odata_query.django import apply_odata_query
            if root_kind == "scalar":
                M, _ = django_h.scalar_model(("n", "m", "x", "s", "u", "b", "d")[:0] or tuple(fields))
            else:
                M = django_h.relational_models().Post
            qs = apply_odata_query(M.objects.all(), text_l)
            list(qs.values_list("id", flat=True)[:1])
            from django.core.exceptions import EmptyResultSet
            try:
                sql, params = qs.query.sql_with_params()
            except EmptyResultSet:
                return "complete", "constant-false filter folded by Django"
            hay = sql + " " + " ".join(repr(p) for p in params)
        else:
            from odata_query.sqlalchemy import apply_odata_core, apply_odata_query
            if root_kind == "scalar":
                M, _ = sa_h.scalar_model(tuple(fields))
            else:
                M = sa_h.relational()["Post"]
            if backend == "sa-orm":
                stmt = apply_odata_query(sa.select(M), text_l)
            else:
                stmt = apply_odata_core(sa.select(M.__table__), text_l)
            c = stmt.compile(dialect=sa_sqlite.dialect())
            hay = c.string + " " + " ".join(repr(p) for p in c.params.values())
            if root_kind == "scalar":
                # every bound parameter must be a value the driver can bind (a Python list or an expression object among the
                # parameters means a part of the filter was not translated); engine-level errors (unknown function ...) are not judged here
                try:
                    with sa_h.engine().connect() as conn:
                        conn.execute(stmt.limit(1)).fetchall()
                except sa.exc.DBAPIError as e:
                    if "binding parameter" in str(e) or "is not supported" in str(e):
                        return "incomplete", "driver cannot bind a parameter: %s" % str(e)[:160].replace("\n", " ")
                except Exception:  # noqa
                    pass
        if any(st[0] == "BoolOp" and (st[2][0] == "Boolean" or st[3][0] == "Boolean") for st in T.subterms(term)):
            return "complete", "constant and/or operand: the ORM may short-circuit, presence not required"
        if backend == "sa-orm" and root_kind == "relational":
            # every to-one path outside lambda bodies must show up as <target table>.<column>
            from checks.C04 import _segments
            from vt import relational as RLM

            def walk(t):
                if t[0] == "Attribute":
                    segs = _segments(t)
                    tbl, ok = "Post", True
                    for sname in segs[:-1]:
                        if sname in RLM.SCHEMA[tbl]["one"]:
                            tbl = RLM.SCHEMA[tbl]["one"][sname]
                        else:
                            ok = False
                            break
                    if ok and segs[-1] in RLM.SCHEMA[tbl]["scalars"]:
                        return ["sa_%s.%s" % (tbl.lower(), segs[-1])]
                    return []
                if t[0] == "CollectionLambda":
                    return []
                out_ = []
                for c in (t[2][1:] if t[0] == "Call" else t[1][1:] if t[0] == "List" else t[1:]):
                    if isinstance(c, tuple) and c and isinstance(c[0], str) and c[0][:1].isupper() and len(c) > 1:
                        out_ += walk(c)
                return out_
            for needle in walk(term):
                if needle not in hay:
                    return "incomplete", "path column %s missing: %s" % (needle, hay[:400])
        if kind == "lambda-outer":
            outer_tbl = "sa_post" if backend.startswith("sa") else "vt_dj_post"
            outer_cols = {st[1] for st in T.subterms(term) if st[0] == "Identifier" and st[1] in ("score", "title")}
            for col in outer_cols:
                if ("%s.%s" % (outer_tbl, col)) not in __import__("re").split(r"\bWHERE\b", hay.replace('"', ""), maxsplit=1)[-1]:
                    return "incomplete-known:orm:lambda-body-outer-field-rebound", "outer column %s.%s missing: %s" % (outer_tbl, col, hay[:300])
        if kind == "null-order" and not __import__("re").search(r"[<>]", hay):
            # `x gt null` translated at all must still be an ordering comparison (it selects nothing), not a null test
            return "incomplete", "ordering operator missing: %s" % hay[:300]
        for f in fields:
            if ('"%s"' % f) not in hay and ("." + f) not in hay:
                return "incomplete", "field %s missing: %s" % (f, hay[:300])
        for knd, v in needles:
            if v not in hay:
                return "incomplete", "literal %s missing: %s" % (v, hay[:300])
        return "complete", hay[:200]
    except Exception as e:  # noqa
        if backend.startswith("sa") and _SES is not None:
            pass
        if kind == "lambda-outer" and type(e).__name__ in ("FieldError", "InvalidFieldException"):
            # the outer field is looked up on the collection's model
            return "incomplete-known:orm:lambda-body-outer-field-rebound", "%s: %s" % (type(e).__name__, str(e)[:160].replace("\n", " "))
        return classify_exc(e, backend, kind), str(e)[:160].replace("\n", " ")


def check(acc, kind, term, root_kind, backends=BACKENDS):
    acc.count("states")
    for b in backends:
        acc.count("executions")
        acc.count("transitions")
        acc.count("nontrivial")
        try:
            out, detail = run_backend(b, kind, term, root_kind)
        except Exception as e:  # noqa  (harness trouble, e.g. the filter does not parse)
            acc.violation("harness:%s" % type(e).__name__, {"filter": to_odata(term), "backend": b, "error": repr(e)[:200]})
            continue
        acc.outcome((b, out.split(":")[0], out.split(":")[-1] if out != "complete" else ""))
        # pinned capability (Appendix A): no translating backend implements a namespaced function (geo.* needs GeoDjango, which
        # is absent; custom namespaces are the caller's own) - a "translation" of one is a mis-mapping onto a built-in
        if out == "complete" and b != "roundtrip" and any(st[0] == "Call" and st[1][2] != ("()",) for st in T.subterms(term)):
            acc.violation("%s:translated-namespaced-function:%s" % (b, kind), {"filter": to_odata(term), "backend": b, "kind": kind, "root": root_kind,
                                                                            "outcome": "complete", "detail": detail, "expected": "refusal"})
            continue
        if out == "complete" or out.startswith("lib:") or out.startswith("documented:"):
            continue
        finding = None
        if out.startswith("incomplete-known:"):
            finding = out.split(":", 1)[1]
            out = "incomplete"
        acc.violation("%s:%s:%s" % (b, out, kind if kind != "typed" else SC.opsig(term)),
                      {"filter": to_odata(term), "backend": b, "kind": kind, "root": root_kind, "outcome": out, "detail": detail}, finding=finding)


def null_list_terms():
    """`null` and list literals in the operand positions where only a value of another kind makes sense; named parameters on built-ins.
    Every backend must translate completely or refuse with a library exception (never leak AttributeError / TypeError / ArgumentError,
    never write a Python repr or a Python list into the output)."""
    n, s, x = typed.F("n"), typed.F("s"), typed.F("x")
    one, two = T.Int(1), T.Int(2)
    L12, L13 = T.lst(one, two), T.lst(one, T.Int(3))
    out = []
    for f in ("contains", "startswith", "endswith"):
        out += [("null-arg", T.call(f, s, T.NULL)), ("null-arg", T.call(f, T.call("tolower", s), T.NULL)), ("null-arg", T.call(f, T.NULL, s)),
                ("list-arg", T.call(f, T.Str("abc"), T.lst(s, T.Str("b")))), ("list-arg", T.call(f, T.call("tolower", s), T.lst(T.Str("a"), T.Str("b"))))]
    out += [("null-arg", T.binop("Eq", T.call("length", T.NULL), one)), ("null-arg", T.binop("Eq", T.call("concat", s, T.NULL), s)),
            ("null-arg", T.binop("Eq", T.call("indexof", s, T.NULL), one)), ("null-arg", T.binop("Eq", T.call("tolower", T.NULL), s)),
            ("null-arg", T.binop("Eq", T.call("substring", s, T.NULL), s)), ("null-arg", T.binop("Eq", T.call("round", T.NULL), one)),
            ("null-arith", T.binop("Eq", T.binop("Add", n, T.NULL), one))]
    for op in ("Lt", "LtE", "Gt", "GtE"):
        out += [("null-order", T.binop(op, n, T.NULL)), ("null-order", T.binop(op, T.NULL, n))]
    for op in ("Lt", "GtE"):
        cmp_ = T.binop(op, T.call("length", s), T.NULL)
        out += [("null-order", cmp_), ("null-order", T.unop("Not", T.binop(op, n, T.NULL))), ("null-order", T.binop("Or", T.binop(op, n, T.NULL), T.binop("Eq", s, T.Str("zzz")))),
                ("null-order", T.binop("And", T.binop("Eq", s, T.Str("zzz")), cmp_)), ("null-order", T.binop(op, T.binop("Add", n, one), T.NULL))]
    out += [("null-in-list", T.binop("In", n, T.lst(one, T.NULL))), ("null-in-list", T.binop("In", s, T.lst(T.Str("a"), T.NULL))),
            ("null-in-list", T.unop("Not", T.binop("In", n, T.lst(T.NULL))))]
    out += [("list-operand", T.binop("Eq", L12, L12)), ("list-operand", T.binop("NotEq", L12, L12)), ("list-operand", T.binop("Lt", L12, L13)),
            ("list-operand", T.binop("Or", T.binop("Eq", s, T.Str("zzz")), T.binop("Eq", L12, L12))), ("list-operand", T.unop("Not", T.binop("Eq", L12, L12))),
            ("list-operand", T.binop("Eq", n, L12)), ("list-operand", T.binop("In", L12, T.lst(L12, L13))), ("list-operand", T.binop("In", T.lst(n, one), T.lst(L12, L13))),
            ("list-operand", T.unop("Not", T.binop("In", L12, T.lst(L12)))), ("list-operand", T.binop("Eq", T.call("length", L12), two)),
            ("list-operand", T.binop("Eq", T.call("tolower", T.lst(T.Str("a"))), s))]
    big = ("Integer", "9" * 5000)
    out += [("overflow-literal", T.binop("Eq", n, big)), ("overflow-literal", T.binop("In", n, T.lst(one, big))),
            ("overflow-literal", T.binop("Gt", typed.F("d"), T.binop("Add", typed.F("d"), ("Duration", "P1000000000D")))),
            ("overflow-literal", T.binop("Lt", typed.F("d"), T.binop("Sub", T.call("now"), ("Duration", "P2737908Y")))),
            ("overflow-literal", T.binop("Eq", n, ("Integer", "9223372036854775808")))]
    # the same unconvertible literals as MEMBERS of a list made of one kind only (a list rendered in one go must refuse like its members)
    dd = typed.F("d")
    out += [("overflow-literal", T.binop("In", n, T.lst(big, one))), ("overflow-literal", T.binop("In", n, T.lst(big))),
            ("overflow-literal", T.binop("In", dd, T.lst(("Date", "2020-02-30"), ("Date", "2020-01-01")))), ("overflow-literal", T.binop("In", dd, T.lst(("Date", "2020-01-01"), ("Date", "2021-02-29")))),
            ("overflow-literal", T.binop("In", dd, T.lst(("DateTime", "2020-02-30T00:00:00Z"), ("DateTime", "2020-01-01T00:00:00Z")))),
            ("overflow-literal", T.binop("In", dd, T.lst(("Duration", "P1000000000D"), ("Duration", "P1D")))), ("overflow-literal", T.binop("Eq", dd, ("Date", "2020-02-30"))),
            ("overflow-literal", T.binop("In", n, T.lst(("Float", "1e999"), ("Float", "1.5")))), ("overflow-literal", T.binop("In", s, T.lst(T.Str("a"), ("Date", "2020-02-30"))))]
    out += [("named-builtin", T.binop("Eq", T.call("substring", T.named("fullstr", T.Str("zzz")), T.named("fullstr", s), T.named("index", T.Int(0))), s)),
            ("named-builtin", T.binop("Eq", T.call("length", T.named("arg", L12)), two)), ("named-builtin", T.call("contains", T.named("field", s), T.named("field", T.Str("x"))))]
    out += [("named-builtin", T.binop("Eq", T.call("substring", T.named("fullstr", s), T.named("nchars", two)), s)), ("named-builtin", T.binop("Eq", T.call("substring", T.named("index", one), T.named("nchars", two)), s)),
            ("named-builtin", T.call("contains", T.named("substr", T.Str("a")), T.named("nope", s)))]
    out += [("named-builtin", T.binop("Eq", T.call("length", T.named("x", s)), one)), ("named-builtin", T.call("contains", T.named("a", s), T.named("b", T.Str("x")))),
            ("named-builtin", T.binop("Eq", T.call("round", T.named("self", x)), one)), ("named-builtin", T.binop("Eq", T.call("length", T.named("arg", s)), one))]
    return out


def _null_list_unit(items):
    django_h.setup()
    acc = Acc()
    for kind, t in items:
        try:
            _ps.parse(_lx.tokenize(to_odata(t)))
        except Exception:  # noqa
            acc.count("null_list_not_parseable")
            continue
        check(acc, kind, t, "scalar")
    return acc


def shared_visitor_layer(ctx):
    """ONE visitor instance per backend translates: a filter it refuses, a filter it accepts, another refusal, another accepted one.
    What it returns for the accepted filters must equal what a fresh visitor returns (a refusal must not leave state behind)."""
    from odata_query.django.django_q import AstToDjangoQVisitor
    from odata_query.sqlalchemy import AstToSqlAlchemyCoreVisitor, AstToSqlAlchemyOrmVisitor
    DM, _ = django_h.scalar_model(("n", "s", "b"))
    SM, _ = sa_h.scalar_model(("n", "s", "b"))
    makers = {"standard": AstToSqlVisitor, "sqlite": AstToSqliteSqlVisitor, "athena": AstToAthenaSqlVisitor, "roundtrip": AstToODataVisitor,
              "django": lambda: AstToDjangoQVisitor(DM), "sa-orm": lambda: AstToSqlAlchemyOrmVisitor(SM), "sa-core": lambda: AstToSqlAlchemyCoreVisitor(SM.__table__)}
    refused = ["hassubset(s, (1,))", "ns.f(n) eq 1", "n gt null", "s/any(x: x eq 1) and zz.f()", "geography'POINT(1 2)' eq s"]
    accepted = ["b", "n eq 1", "contains(s, 'a')", "not b", "n in (1, 2) or s eq null"]

    def show(v):
        return (type(v).__name__, str(v))

    n = 0
    for bname, mk in makers.items():
        fresh = {}
        for tx in accepted:
            try:
                fresh[tx] = show(mk().visit(_ps.parse(_lx.tokenize(tx))))
            except Exception as e:  # noqa
                fresh[tx] = ("EXC", type(e).__name__)
        for order in (0, 1):
            vis = mk()
            seq = [x_ for pair in zip(refused, accepted) for x_ in pair]
            if order:
                seq = seq[::-1]
            for tx in seq:
                n += 1
                ctx.count("executions")
                ctx.count("states")
                try:
                    got = show(vis.visit(_ps.parse(_lx.tokenize(tx))))
                except Exception as e:  # noqa
                    got = ("EXC", type(e).__name__)
                if tx in fresh and got != fresh[tx]:
                    ctx.violation("%s:shared-visitor-after-refusal" % bname, {"filter": tx, "backend": bname, "kind": "shared-visitor", "sequence": seq,
                                                                             "expected": list(fresh[tx]), "observed": list(got)})
                    break
    return n


def history_layer(ctx):
    """serial, ONE process: every built-in call shape with its namespaced twins adjacent (f, geo.f, ns.f, f again), through every
    backend, forward and in reverse order. A refusal or translation must not depend on which calls the same visitor CLASS has
    translated before (handler caches keyed by the bare function name, registries ...)."""
    n, s, d, x = typed.F("n"), typed.F("s"), typed.F("d"), typed.F("x")
    shapes = {"length": [s], "contains": [s, T.Str("a")], "startswith": [s, T.Str("a")], "tolower": [s], "year": [d], "round": [x], "now": [],
              "substring": [s, T.Int(1)], "concat": [s, T.Str("b")], "indexof": [s, T.Str("a")], "trim": [s], "floor": [x], "date": [d],
              "distance": [s, T.Str("a")], "intersects": [s, T.Str("a")]}
    seq = []
    for fname, args in shapes.items():
        geo_only = fname in ("distance", "intersects")
        spaces = [("geo",), ("ns",), ("geo",)] if geo_only else [(), ("geo",), ("ns",), ()] if fname == "length" else [(), ("ns",), ("my", "ns"), ()]
        for ns in spaces:
            call = T.call(fname, *args, ns=ns)
            boolean = fname in ("contains", "startswith", "intersects")
            seq.append(("history", call if boolean else T.binop("NotEq", call, T.NULL) if fname in ("now", "date") else T.binop("Eq", call, call)))
    fresh = {}
    for b in BACKENDS:      # reference: each (term, backend) outcome in a state where nothing namespaced came before is what check() judges
        pass
    for kind, term in seq + seq[::-1]:
        check(ctx, kind, term, "scalar")
    return 2 * len(seq)


def _unit(unit):
    ty, k, si, split = unit[:4]
    stripe = unit[4] if len(unit) > 4 else None
    django_h.setup()
    acc = Acc()
    en = enum()
    for i, term in enumerate(en.apply(en.sigs[si], k, only_split=split)):
        if stripe and i % stripe[1] != stripe[0]:
            continue
        check(acc, "typed", term, "scalar")
        if i == 0:
            acc.sample({"filter": to_odata(term)}, cap=1)
    return acc


ADVERSARIAL_NAMES = ["zz_unknown", "keys", "values", "items", "get", "contains_column", "metadata", "registry", "query", "__table__",
                     "__class__", "__mapper__", "_sa_class_manager", "__init__", "columns", "c", "primary_key", "name", "description"]


def _exotic_unit(items):
    django_h.setup()
    acc = Acc()
    for kind, t in items:
        try:
            to_odata(t)
            _ps.parse(_lx.tokenize(to_odata(t)))
        except Exception:  # noqa  (not every combination is syntactically a filter, e.g. `x in <lambda>`)
            acc.count("exotic_not_parseable")
            continue
        check(acc, kind if kind in ("path", "lambda") else "exotic:" + kind, t, "relational")
    return acc


def q_keyword_names(ctx):
    """Django: a field called like a keyword argument of Q() itself. The model has no such field: the filter must fail, not be
    accepted with the field silently dropped (an empty Q selects every row)."""
    from odata_query.django import apply_odata_query
    M, _ = django_h.scalar_model(("n",))
    for nm in ("_negated", "_connector"):
        for text in (nm, "not " + nm, nm + " eq true", "not %s or n eq 1" % nm):
            ctx.count("executions")
            ctx.count("states")
            try:
                qs = apply_odata_query(M.objects.all(), text)
                sql = str(qs.query)
                out = "accepted" if nm not in sql else "translated"
            except exceptions.ODataException as e:
                out = "lib:" + type(e).__name__
            except Exception as e:  # noqa  (Django's own FieldError for an unknown field is how this backend reports one)
                out = "django:" + type(e).__name__
            ctx.outcome(("q-keyword", out))
            if out == "accepted" or out in ("django:ValueError", "django:TypeError"):
                ctx.violation("django:q-keyword-field:%s" % out, {"filter": text, "backend": "django", "kind": "q-keyword", "outcome": out, "field": nm,
                                                                 "expected": "the field in the SQL, or an unknown-field error"})


def unknown_fields(ctx):
    for nm in ADVERSARIAL_NAMES:
        _unknown_field(ctx, nm)


def _unknown_field(ctx, fname):
    zz = T.I(fname)
    terms = [T.binop("Eq", zz, T.Int(1)), T.binop("Eq", T.Int(1), zz), T.call("contains", zz, T.Str("a")), T.call("contains", typed.F("s"), zz),
             T.binop("Gt", T.binop("Add", typed.F("n"), zz), T.Int(1)), T.binop("In", zz, T.lst(T.Int(1), T.Int(2))), T.binop("Eq", zz, T.NULL),
             T.unop("Not", T.binop("Eq", zz, T.Int(1))), T.binop("And", T.binop("Eq", typed.F("n"), T.Int(1)), T.binop("Lt", zz, T.Int(2))),
             T.binop("Eq", T.call("length", zz), T.Int(1)), T.binop("Eq", T.call("year", zz), T.Int(2020)), T.binop("Eq", T.call("tolower", zz), T.Str("a")),
             T.binop("Eq", T.call("round", zz), T.Int(1)), T.binop("Eq", T.call("substring", zz, T.Int(1)), T.Str("a"))]
    rel = [T.binop("Eq", T.path("blog", fname), T.Int(1)), T.lam(T.I("comments"), "Any", "c", T.binop("Eq", T.path("c", fname), T.Int(1))),
           T.binop("Eq", T.path(fname, "title"), T.Str("x")), T.lam(T.I(fname), "Any")]
    from odata_query.sqlalchemy import apply_odata_core, apply_odata_query
    M, _ = sa_h.scalar_model(("n", "s"))
    P = sa_h.relational()["Post"]
    for t, model, styles in [(x, M, ("orm", "core")) for x in terms] + [(x, P, ("orm",)) for x in rel]:
        text = to_odata(t)
        for style in styles:
            ctx.count("executions")
            ctx.count("states")
            try:
                if style == "orm":
                    apply_odata_query(sa.select(model), text)
                else:
                    apply_odata_core(sa.select(model.__table__), text)
                out = "accepted"
            except exceptions.InvalidFieldException as e:
                out = "InvalidFieldException" if e.field_name == fname else "InvalidFieldException(wrong name %r)" % e.field_name
            except Exception as e:  # noqa
                out = type(e).__name__
            ctx.outcome(("unknown-field", style, out))
            if out != "InvalidFieldException":
                ctx.violation("unknown-field:sa-%s:%s" % (style, out), {"filter": text, "backend": "sa-" + style, "kind": "unknown-field", "outcome": out,
                                                                         "field": fname, "expected": "InvalidFieldException(%r)" % fname})


def run(ctx):
    django_h.setup()
    en = enum()
    kmax = 2
    for k in range(0, kmax + 1):
        for j in range(k):
            for ty in C18.TYPES + [C18.NOW, C18.GL, C18.GP, C18.LS]:
                en.terms(ty, j)
        if k == 0:
            continue
        ctx.pmap(_unit, [(C18.B, k, si, split, (j, 4)) for si, split in en.work_units(C18.B, k) for j in range(4)])
    ctx.layer("typed-matrix", k_max=kmax, terms=int(ctx.counts["states"]), backends=BACKENDS, exhaustive=True)
    before = ctx.counts["states"]
    for kind, t in extra_terms():
        check(ctx, kind, t, "scalar" if kind.startswith(("literal", "bare", "neg", "named", "custom", "geo")) else "relational")
    ctx.layer("paths-lambdas-named-literals", terms=int(ctx.counts["states"] - before), exhaustive=True)
    before = ctx.counts["states"]
    ex = exotic_positions()
    ctx.pmap(_exotic_unit, [ex[i::32] for i in range(32)])
    ctx.layer("exotic-kinds-in-every-position", terms=int(ctx.counts["states"] - before), exhaustive=True)
    unknown_fields(ctx)
    ctx.layer("unknown-fields", names=len(ADVERSARIAL_NAMES), exhaustive=True)
    before = ctx.counts["states"]
    nl = null_list_terms()
    ctx.pmap(_null_list_unit, [nl[i::16] for i in range(16)])
    ctx.layer("null-and-list-operands", terms=int(ctx.counts["states"] - before), exhaustive=True,
              note="null as a function argument / ordering operand / list element, list literals as comparison operands and arguments, named parameters on built-ins")
    nsv = shared_visitor_layer(ctx)
    ctx.layer("shared-visitor-after-refusal", visits=nsv, exhaustive=True)
    q_keyword_names(ctx)
    ctx.layer("django-q-keyword-names", names=2, exhaustive=True)
    nh = history_layer(ctx)
    ctx.layer("history-forward-reverse", cases=nh, exhaustive=True)
    # every component of a duration literal is represented (SQL dialects: reading of C09's duration layer; ORMs: the bound timedelta)
    nd = C09.duration_layer(ctx)
    nd += orm_duration_layer(ctx)
    ctx.layer("duration-components", translations=nd, exhaustive=True,
              note="SQL dialects: the interval expression denotes every signed component of the literal; ORM backends: the bound timedelta equals the literal's value")
    ndt = C09.datetime_literal_layer(ctx)
    ctx.layer("datetime-components", translations=ndt, exhaustive=True,
              note="SQL dialects: a date-time literal with seconds, fraction or offset is translated whole or refused, never truncated (reading of C09's layer)")
    if not ctx.quick:
        before = ctx.counts["states"]
        red = typed.Enumerator(SC.reduced_sigs(C18.sigs()), {k_: v[:1] for k_, v in enum().leaves.items()})
        global _EN
        _EN = red
        for j in range(3):
            for ty in C18.TYPES + [C18.NOW, C18.GL, C18.GP, C18.LS]:
                red.terms(ty, j)
        ctx.pmap(_unit, [(C18.B, 3, si, split) for si, split in red.work_units(C18.B, 3)])
        ctx.layer("typed-matrix-k3-reduced", terms=int(ctx.counts["states"] - before), exhaustive=True)


def orm_duration_layer(ctx):
    """the ORM backends bind a duration as a timedelta: it must be the literal's own value (years / months use the library's documented
    averages of 365.25 and 30.44 days)"""
    import datetime as dt
    from vt import durref
    from odata_query.sqlalchemy import AstToSqlAlchemyCoreVisitor
    from odata_query.django.django_q import AstToDjangoQVisitor
    django_h.setup()
    n = 0
    secs = {"YEAR": 365.25 * 86400, "MONTH": 30.44 * 86400, "DAY": 86400, "HOUR": 3600, "MINUTE": 60, "SECOND": 1}
    for lit in durref.DURATION_LITERALS:
        want = sum(float(v) * secs[u] for u, v in durref.duration_components(lit).items())
        tree = _ps.parse(_lx.tokenize("duration'%s'" % lit))
        ctx.count("states")
        for backend in ("sqlalchemy", "django"):
            n += 1
            ctx.count("executions")
            try:
                if backend == "sqlalchemy":
                    got = AstToSqlAlchemyCoreVisitor(sa_h.Post.__table__).visit(tree).value
                else:
                    from vt_dj import models as _m
                    got = AstToDjangoQVisitor(_m.Post).visit(tree)
                    got = (got.children[0] if hasattr(got, "children") else got).value
            except Exception as e:  # noqa
                ctx.violation("%s:duration:exc:%s" % (backend, type(e).__name__), {"filter": "duration'%s'" % lit, "backend": backend, "kind": "duration-value"})
                continue
            if not isinstance(got, dt.timedelta) or abs(got.total_seconds() - want) > 1e-3:
                ctx.violation("%s:duration:value" % backend, {"filter": "duration'%s'" % lit, "backend": backend, "kind": "duration-value", "got": str(got), "want_seconds": want})
            else:
                ctx.outcome(("duration-value", backend))
    return n


def replay(ctx, case):
    django_h.setup()
    if case.get("layer") in ("durations", "datetime-literals"):
        return C09.replay(ctx, case)
    if case.get("kind") == "duration-value":
        acc = Acc()
        orm_duration_layer(acc)
        return {"violations": acc.violations, "ok": not acc.violations}
    term = decode(_ps.parse(_lx.tokenize(case["filter"])))
    if case.get("kind") == "unknown-field":
        acc = Acc()
        unknown_fields(acc)
        return {"violations": acc.violations, "ok": not acc.violations}
    out, detail = run_backend(case["backend"], case.get("kind", "typed"), term, case.get("root", "scalar"))
    ok = out == "complete" or out.startswith("lib:") or out.startswith("documented:")
    if case.get("expected") == "refusal":
        ok = out != "complete"
    return {"filter": case["filter"], "backend": case["backend"], "outcome": out, "detail": detail, "ok": ok}
