"""C13 - AST -> OData text -> AST is the identity."""
from itertools import product

from odata_query.grammar import ODataLexer, ODataParser
from odata_query.roundtrip import AstToODataVisitor

from vt import terms as T
from vt.decode import decode, encode
from vt.refprint import to_odata
from vt.runner import Acc

RULE = ("the image of the parser: R-PRINT texts (min/full/redundant parentheses) of every labelled operator tree with "
        "<=k operator nodes (leaves rotated over all leaf kinds) plus compound leaves (lists 1-3 incl. nested/singleton, "
        "calls 0-3 args, namespaced + named-parameter calls, paths 1-4, lambdas, every literal kind, all strings of "
        "length <=2 over {a,',space,%}); t=parse(text); r=render(t); require parse(r)==t and render(parse(r))==r. "
        "non-trivial = distinct parsed trees with >=1 composite node.")
ASSUMPTIONS = ["inputs are taken from the parser's image (every tree is obtained by parsing a text)"]

_lx, _ps = ODataLexer(), ODataParser()
_rt = AstToODataVisitor()


def parse(s):
    return _ps.parse(_lx.tokenize(s))


def roundtrip_case(text, acc, tag):
    """returns None when ok"""
    try:
        t = parse(text)
    except Exception as e:
        acc.count("input_rejected")
        acc.note = None
        return
    acc.count("executions")
    acc.count("transitions")
    dt = decode(t)
    try:
        r = _rt.visit(t)
    except Exception as e:
        acc.violation("render-exc:%s:%s" % (type(e).__name__, classify(dt)), {"text": text, "stage": "render", "error": repr(e)[:200]},
                      finding=None)
        return
    if not isinstance(r, str):
        acc.violation("render-nonstr:" + classify(dt), {"text": text, "stage": "render", "rendered": repr(r)})
        return
    try:
        t2 = parse(r)
    except Exception as e:
        acc.violation("reparse-exc:" + classify(dt), {"text": text, "stage": "reparse", "rendered": r, "error": repr(e)[:200]})
        return
    if t2 != t or decode(t2) != dt:
        acc.violation("not-identity:" + classify(dt, decode(t2)), {"text": text, "stage": "compare", "rendered": r,
                                                                  "expected": dt, "observed": decode(t2)})
        return
    r2 = _rt.visit(t2)
    if r2 != r:
        acc.violation("not-fixpoint:" + classify(dt), {"text": text, "stage": "fixpoint", "rendered": r, "rendered2": r2})
        return
    acc.outcome((tag, dt[0]))


def classify(a, b=None):
    """smallest differing sub-term kinds: a compact violation class"""
    if b is None:
        kinds = sorted({s[0] for s in T.subterms(a)} & {"Geography", "NamedParam", "List", "String", "Time", "Duration"})
        return a[0] + "/" + "+".join(kinds)
    # descend to the first difference
    while True:
        if a[0] != b[0] or len(a) != len(b):
            return "%s->%s" % (a[0], b[0])
        diff = [(x, y) for x, y in zip(a[1:], b[1:]) if x != y]
        if len(diff) == 1 and isinstance(diff[0][0], tuple) and isinstance(diff[0][1], tuple) and T.is_node(diff[0][0]) and T.is_node(diff[0][1]):
            a, b = diff[0]
            continue
        if a[0] in ("BinOp", "Compare", "BoolOp", "UnaryOp"):
            return "%s(%s)" % (a[0], a[1][0])
        return a[0]


def _tree_unit(unit):
    n, si, styles = unit
    acc = Acc()
    shape = T.shapes(n)[si]
    for t in T.op_trees_of_shape(shape, offset=si * 3):
        acc.count("states")
        acc.count("nontrivial")
        for st in styles:
            roundtrip_case(to_odata(t, st), acc, "tree")
        if si == 1:
            acc.sample({"text": to_odata(t, "min")}, cap=2)
    return acc


def _tower_unit(trees):
    acc = Acc()
    for t in trees:
        acc.count("states")
        for st in ("min", "full"):
            roundtrip_case(to_odata(t, st), acc, "tower")
    return acc


def strings(maxlen, sigma=("a", "'", " ", "%")):
    for n in range(0, maxlen + 1):
        for tup in product(sigma, repeat=n):
            yield "".join(tup)


def compound_leaves():
    a, b, one = T.I("a"), T.I("b"), T.Int(1)
    out = []
    # every literal kind
    out += [T.NULL, T.Int(0), T.Int(-7), T.Int("+3"), T.Int("007"), T.Flt("1.5"), T.Flt("-0.25"), T.Flt("1e3"), T.Flt("2.5E-3"),
            T.Bool(True), T.Bool(False), ("Boolean", "TRUE"), ("GUID", "123e4567-e89b-12d3-a456-426614174000"),
            ("GUID", "123E4567-E89B-12D3-A456-426614174ABC"), ("Date", "2020-02-29"), ("Time", "10:30:00"), ("Time", "23:59:59.123456"), ("Time", "14:00:00.0"), ("Time", "14:00:00.000"), ("Time", "14:00:00.120"),
            ("DateTime", "2024-01-01T00:00:00.000Z"), ("DateTime", "2024-01-01T00:00:00.0"), ("DateTime", "2024-01-01T00:00:00.100+01:00"),
            ("DateTime", "2020-02-29T10:30:00Z"), ("DateTime", "2020-02-29T10:30:00+01:00"), ("DateTime", "2020-02-29T10:30"),
            ("DateTime", "2020-02-29T10:30:00.123456-23:59"), ("Duration", "P1D"), ("Duration", "-P1Y2M3DT4H5M6.5S"), ("Duration", "PT0S"),
            ("Geography", "POINT(1 2)"), ("Geography", "SRID=4326;POINT(1 2)"), ("Geography", ""),
            # the lexer keeps a geography body raw: doubled quotes stay doubled
            ("Geography", "POINT(1 2) -- Dave''s place"), ("Geography", "''"), ("Geography", "ab")]
    out += [T.Str(s) for s in strings(2)]
    out += [T.Str("it''s"), T.Str("é\U0001F600"), T.Str("a\\b"), T.Str("line\nbreak")]
    # identifiers
    out += [a, T.I("x", ("ns",)), T.I("y", ("n1", "n2")), T.I("_u1")]
    # lists
    out += [T.lst(one), T.lst(one, T.Int(2)), T.lst(one, T.Int(2), T.Int(3)), T.lst(T.lst(one)), T.lst(T.lst(one, a), T.lst(b)),
            T.lst(T.Str("x'y")), T.lst(T.binop("Add", a, one)), T.lst(T.binop("Or", a, b), T.unop("Not", a))]
    # calls 0-3 args, namespaced, named
    out += [T.call("now"), T.call("length", a), T.call("concat", a, T.Str("x")), T.call("substring", a, one, T.Int(2)),
            T.call("f", ns=("ns",)), T.call("f", a, ns=("ns",)), T.call("f", a, b, T.Int(3), ns=("ns",)),
            T.call("f", T.named("p", one), ns=("ns",)), T.call("f", T.named("p", one), T.named("q", T.Str("s")), ns=("ns",)),
            T.call("f", T.named("p", T.binop("Add", a, one)), ns=("ns",)),
            # a parameter NAME is an identifier too and may be qualified (wave 13)
            T.call("f", T.named("p", one, ns=("ns",)), ns=("ns",)), T.call("f", T.named("p", one, ns=("n1", "n2")), T.named("q", a, ns=("ns",))),
            T.call("substring", T.named("fullstr", a, ns=("odata",)), T.named("index", one, ns=("odata",))),
            T.call("length", T.lst(one, T.Int(2))), T.call("length", T.lst(one)), T.call("hassubset", T.lst(one, T.Int(2)), T.lst(one)),
            T.call("distance", a, ("Geography", "POINT(1 2)"), ns=("geo",)),
            T.call("contains", T.call("tolower", a), T.Str("x")), T.call("f", T.binop("Or", a, b), T.unop("Not", a), ns=("ns",))]
    # paths
    out += [T.path("a", "b"), T.path("a", "b", "c"), T.path("a", "b", "c", "d"), T.A(T.I("a", ("ns",)), "b")]
    # lambdas
    body = T.binop("Eq", T.path("v", "p"), one)
    out += [T.lam(a, "Any"), T.lam(T.path("a", "b"), "Any"), T.lam(a, "Any", "v", body), T.lam(a, "All", "v", body),
            T.lam(T.path("a", "b"), "All", "v", T.binop("Or", body, T.unop("Not", body))),
            T.lam(a, "Any", "v", T.lam(T.path("v", "ys"), "All", "w", T.binop("Gt", T.path("w", "q"), T.path("v", "p"))))]
    return out


def _leaf_unit(unit):
    acc = Acc()
    for leaf in unit:
        acc.count("states")
        ctxs = [leaf,
                T.binop("Eq", T.I("x"), leaf) if leaf[0] != "NamedParam" else leaf,
                T.binop("Eq", leaf, T.I("x")),
                T.unop("Not", T.binop("Ne" if False else "NotEq", leaf, T.NULL)),
                T.call("f", leaf, ns=("ns",)),
                T.lst(leaf, leaf),
                T.lst(leaf),
                T.binop("In", T.I("x"), T.lst(leaf))]
        for c in ctxs:
            roundtrip_case(to_odata(c), acc, "leaf")
        acc.sample({"text": to_odata(ctxs[1])}, cap=3)
    return acc


KEYWORDS = ("add", "sub", "mul", "div", "mod", "and", "or", "eq", "ne", "lt", "le", "gt", "ge", "in", "not", "any", "all", "has")
# {L}: the identifier as an operand (bare and parenthesised), {N}: the bare name
KW_TEMPLATES = (
    "{L}", "{L} eq 1", "1 eq {L}", "1 eq {L} and b", "{L} and b", "b or {L}", "-{L} eq 1", "- {L} eq 1", "-{L}", "not {L}", "not {L} eq 1", "not -{L} eq 1",
    "(1,{L} eq 2)", "(1, {L} eq 2)", "({L} eq 2,1)", "({L},)", "({L}, {L})", "x/any(v:{L} eq 1)", "x/any(v: {L} eq 1)", "x/all(v:v/p eq {L} and b)",
    "ns.f(1,{L} eq 2)", "ns.f(1, {L} eq 2)", "ns.f({L}, {L})", "ns.f(p={L} eq 2)", "ns.f(p={L},q={L})", "ns.f({N}=1)", "concat({L}, {L}) eq {L}",
    "{L} in ({L},)", "{L} in ({L}, {L})", "{L} in (1,{L})", "a/{N} eq 1", "(a/{N}) eq 1", "(a/{N}) eq 1 and b", "a/{N}/c eq 1", "{N}/b eq 1", "({N}/b) eq 1",
    "x/any({N}:{N}/p eq 1)", "x/any({N}: {N} eq 1)", "{N}/any(v:v eq 1)", "a/{N}/any()", "{L} add {L} eq {L}", "{L} {N} {L}", "({L} {N} {L}) {N} {L}",
    "{L} eq 1 or {L} eq 2", "not {L} and not {L}", "-{L} sub -{L} eq 0", "ns.{N}(1) eq 1", "{N}.f(1) eq 1", "{N}.{N} eq 1",
)


def keyword_texts():
    for kw in KEYWORDS:
        for name in (kw, kw.upper(), kw.capitalize()):
            for tpl in KW_TEMPLATES:
                for operand in (name, "(" + name + ")"):
                    yield tpl.replace("{L}", operand).replace("{N}", name)
                    if "{L}" not in tpl:
                        break


QUALIFIED_TEXTS = ["a/ns.b eq 1", "a/ns.1 eq 1", "a/ns.1x/c eq 1", "a/ns.true eq 1", "a/ns.False/b eq 1", "a/ns.null eq 1", "a/n1.n2.b/c eq 1", "ns.a/x.2/any(v: v eq 1)",
                   "xs/any(x: x/m.n eq 1)", "a/ns.b/any()", "contains(a/b.1, 'x')", "a/ns.b eq a/b", "(a/ns.not) eq 1", "a/ns.in in (a/ns.in,)", "ns.1/b eq 1", "a/n.any/any(x: x)"]


def _kw_unit(texts):
    acc = Acc()
    for text in texts:
        acc.count("states")
        roundtrip_case(text, acc, "kwident")
    return acc


def run(ctx):
    kmax = 3 if ctx.quick else 4
    styles = ("min", "full") if ctx.quick else ("min", "full", "redundant")
    units = [(n, si, styles) for n in range(1, kmax + 1) for si in range(len(T.shapes(n)))]
    ctx.pmap(_tree_unit, units)
    ctx.layer("trees", max_operator_nodes=kmax, styles=list(styles), exhaustive=True)
    tw = list(T.op_towers((5, 8) if ctx.quick else (5, 8, 12)))
    ctx.pmap(_tower_unit, [tw[i::32] for i in range(32)])
    ctx.layer("towers", trees=len(tw), exhaustive=True, note="every ordered pair of operators alternated on the left / right spine")
    leaves = compound_leaves()
    ctx.pmap(_leaf_unit, [leaves[i::16] for i in range(16)])
    ctx.layer("compound_leaves", leaves=len(leaves), contexts=8, exhaustive=True)
    kw = sorted(set(keyword_texts()) | set(QUALIFIED_TEXTS))
    ctx.pmap(_kw_unit, [kw[i::16] for i in range(16)])
    ctx.layer("keyword-named-identifiers", names=3 * len(KEYWORDS), templates=len(KW_TEMPLATES), texts=len(kw), exhaustive=True,
              qualified_path_segments=len(QUALIFIED_TEXTS),
              note="identifiers, path segments, lambda variables, namespaces and parameter names spelled like an operator keyword, in every "
                   "position where the renderer emits a blank before or after them; texts the parser rejects are outside the quantifier")
    # history layer: one shared renderer/parser, serially, all leaves and all k<=1 trees forward then reverse
    hist = list(leaves) + [t for si in range(len(T.shapes(1))) for t in T.op_trees_of_shape(T.shapes(1)[si], offset=si)]
    for t in hist + hist[::-1]:
        roundtrip_case(to_odata(t), ctx, "history")
    ctx.layer("history-forward-reverse", texts=2 * len(hist), exhaustive=True)


def replay(ctx, case):
    acc = Acc()
    roundtrip_case(case["text"], acc, "replay")
    return {"text": case["text"], "violations": acc.violations, "ok": not acc.violations}
