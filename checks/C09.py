"""C09 - Every SQL dialect emits well-formed SQL whose structure mirrors the filter."""
from odata_query import exceptions
from odata_query.grammar import ODataLexer, ODataParser
from odata_query.sql import AstToSqlVisitor
from odata_query.sql.athena import AstToAthenaSqlVisitor
from odata_query.sql.sqlite import AstToSqliteSqlVisitor

from vt import semcheck as SC, sqllex, sqlparse_ as SP, terms as T, typed
from vt.refprint import to_odata
from vt.runner import Acc

RULE = ("all typed terms with <=k constructor nodes over every function the SQL dialects implement (incl. list overloads, "
        "hassubset, duration arithmetic), leaves made unique (fields f1.., numbers 101.., strings 'u1'.., dates by year, intervals "
        "by count) x {standard, SQLite, Athena} x alias {absent, 'al'}. The output must (i) lex and parse as one expression under "
        "standard SQL precedence with no stray/comment token, no bare word, no || adjacent to unparenthesised arithmetic; (ii) "
        "contain every unique leaf exactly once; (iii) for every operator node of the filter with operand leaf sets (L, R) contain "
        "a node with the corresponding SQL operator and exactly those operand leaf sets in that order (AND/OR chains compared "
        "flattened; function arguments must stay contiguous); (iv) with an alias differ from the alias-free output only by "
        "\"al\". before every column. non-trivial = distinct filters with >=2 operator/function nodes.")
ASSUMPTIONS = ["R-SQL parser implements standard SQL operator precedence",
               "re-association of AND/OR chains is not a structural difference (documented design of the library)"]

DIALECTS = {"standard": AstToSqlVisitor, "sqlite": AstToSqliteSqlVisitor, "athena": AstToAthenaSqlVisitor}
_lx, _ps = ODataLexer(), ODataParser()

CAP = {"neg": True, "null_left": True, "indexof": True, "concat": True}
DUR = "DUR"


def sigs():
    sg = typed.signatures(CAP)
    S_ = typed.Sig
    sg.append(S_("add:TDur", (typed.TT, DUR), typed.TT, lambda a, b: T.binop("Add", a, b), ["dur"]))
    sg.append(S_("sub:TDur", (typed.TT, DUR), typed.TT, lambda a, b: T.binop("Sub", a, b), ["dur"]))
    sg.append(S_("sub:NowDur", (typed.NOW, DUR), typed.TT, lambda a, b: T.binop("Sub", a, b), ["dur"]))
    LX = "LX"   # list-valued expression (not a literal list, so not usable on the right of `in`)
    for lt in (typed.LI, LX):
        sg.append(S_("length:" + lt, (lt,), typed.I, lambda a: T.call("length", a), ["listfn"]))
        for lt2 in (typed.LI, LX):
            sg.append(S_("hassubset:%s%s" % (lt, lt2), (lt, lt2), typed.B, lambda a, b: T.call("hassubset", a, b), ["listfn"]))
        sg.append(S_("substring2:" + lt, (lt, typed.I), LX, lambda a, b: T.call("substring", a, b), ["listfn"]))
        sg.append(S_("substring3:" + lt, (lt, typed.I, typed.I), LX, lambda a, b, c: T.call("substring", a, b, c), ["listfn"]))
    return sg


LEAVES = dict(typed.DEFAULT_LEAVES)
LEAVES[typed.I] = [typed.F("n"), T.Int(1)]
LEAVES[typed.R] = [typed.F("x"), T.Flt("1.5")]
LEAVES[typed.S] = [typed.F("s"), T.Str("a")]
LEAVES[typed.B] = [typed.F("b"), T.Bool(True)]
LEAVES[typed.TT] = [typed.F("d"), typed.dtlit("2020-02-29T23:59:59Z")]
LEAVES[typed.LI] = [T.lst(T.Int(0), T.Int(1)), T.lst(T.Int(3))]
LEAVES[typed.LS] = [T.lst(T.Str("a"), T.Str("b"))]
LEAVES[DUR] = [("Duration", "P1D"), ("Duration", "PT2H"), ("Duration", "-P3M")]
_ENUM = None


def enum():
    global _ENUM
    if _ENUM is None:
        _ENUM = typed.Enumerator(sigs(), LEAVES)
    return _ENUM


# ------------------------------------------------------------------ unique leaves
def uniquify(term):
    """returns (term', {leaf_id: (kind, needle)}) ; leaf ids are assigned in
    depth-first order"""
    leaves = {}
    counter = [0]

    def fresh(kind, needle):
        counter[0] += 1
        lid = "L%d" % counter[0]
        leaves[lid] = (kind, needle)
        return lid

    def rec(t):
        k = t[0]
        n = counter[0] + 1
        if k == "Identifier":
            name = "f%d" % n
            fresh("col", name)
            return T.I(name)
        if k == "Integer":
            v = str(100 + n)
            if t[1].startswith("-"):
                v = "-" + v
            fresh("num", str(100 + n))
            return ("Integer", v)
        if k == "Float":
            fresh("num", "%d.5" % (100 + n))
            return ("Float", "%d.5" % (100 + n))
        if k == "String":
            fresh("str", "u%dq" % n)
            return ("String", "u%dq" % n)
        if k == "DateTime":
            y = 2000 + n
            fresh("date", "%d-01-01" % y)
            return ("DateTime", "%d-01-01T00:00:00Z" % y)
        if k == "Date":
            y = 2000 + n
            fresh("date", "%d-01-01" % y)
            return ("Date", "%d-01-01" % y)
        if k == "Duration":
            c = 300 + n
            fresh("interval", str(c))
            body = t[1]
            sign = "-" if body.startswith("-") else ""
            unit = "H" if "T" in body else "M" if body.endswith("M") else "D"
            return ("Duration", sign + ("PT%dH" % c if unit == "H" else "P%d%s" % (c, unit)))
        if k == "GUID":
            g = "123e4567-e89b-12d3-a456-4266141740%02d" % n
            fresh("str", g)
            return ("GUID", g)
        if k in ("Null", "Boolean"):
            return t
        if k == "List":
            return ("List", ("[]",) + tuple(rec(e) for e in t[1][1:]))
        if k == "Call":
            return ("Call", t[1], ("[]",) + tuple(rec(a) for a in t[2][1:]))
        if k in ("BinOp", "Compare", "BoolOp"):
            return (k, t[1], rec(t[2]), rec(t[3]))
        if k == "UnaryOp":
            return (k, t[1], rec(t[2]))
        raise KeyError(k)

    return rec(term), leaves


def filter_leafsets(term, leaves):
    """assign leaf ids again in the same depth-first order; returns list of
    obligations: (kind, opname, [child leaf sets...])"""
    counter = [0]
    obligations = []

    def rec(t, parent_boolop=None):
        k = t[0]
        if k in ("Identifier", "Integer", "Float", "String", "DateTime", "Date", "Duration", "GUID"):
            counter[0] += 1
            return frozenset(["L%d" % counter[0]])
        if k in ("Null", "Boolean"):
            return frozenset()
        if k == "List":
            s = frozenset()
            for e in t[1][1:]:
                s |= rec(e)
            return s
        if k == "Call":
            sets = [rec(a) for a in t[2][1:]]
            obligations.append(("call", t[1][1], sets))
            return frozenset().union(*sets) if sets else frozenset()
        if k == "BoolOp":
            op = t[1][0]
            # flatten maximal chain
            chain = []

            def flat(x):
                if x[0] == "BoolOp" and x[1][0] == op:
                    flat(x[2])
                    flat(x[3])
                else:
                    chain.append(rec(x))
            flat(t)
            obligations.append(("chain", op, chain))
            return frozenset().union(*chain)
        if k in ("BinOp", "Compare"):
            l, r = rec(t[2]), rec(t[3])
            nullside = "L" if t[2][0] == "Null" else "R" if t[3][0] == "Null" else None
            obligations.append(("bin", t[1][0], [l, r], nullside))
            return l | r
        if k == "UnaryOp":
            s = rec(t[2])
            obligations.append(("un", t[1][0], [s]))
            return s
        raise KeyError(k)

    rec(term)
    return obligations


SQL_BIN = {"Add": {"+"}, "Sub": {"-"}, "Mult": {"*"}, "Div": {"/"}, "Mod": {"%"}, "Eq": {"="}, "NotEq": {"!=", "<>"},
           "Lt": {"<"}, "LtE": {"<="}, "Gt": {">"}, "GtE": {">="}}


class SqlIndex:
    def __init__(self, tree, leaves):
        self.leaves = leaves
        self.sets = {}
        self.nodes = []
        self.occ = {lid: 0 for lid in leaves}
        self._index(tree)

    def leaf_of(self, node):
        k = node[0]
        text = None
        kinds = ()
        if k == "col":
            text, kinds = node[1][-1], ("col",)
        elif k == "num":
            text, kinds = node[1], ("num", "interval")
        elif k == "str":
            text, kinds = node[1], ("str", "date", "interval", "num")
        elif k == "typed":
            text, kinds = node[2], ("date",)
        elif k == "interval":
            text, kinds = node[1], ("interval",)
        if text is None:
            return None
        for lid, (kind, needle) in self.leaves.items():
            if kind in kinds:
                if kind in ("col", "num", "interval"):
                    if text == needle:
                        return lid
                elif needle in text:
                    return lid
        return None

    def _index(self, node):
        lid = self.leaf_of(node)
        if lid is not None:
            self.occ[lid] += 1
            s = frozenset([lid])
        else:
            s = frozenset()
            for c in SP.children(node):
                s |= self._index(c)
        self.sets[id(node)] = s
        self.nodes.append(node)
        return s

    def set_of(self, node):
        return self.sets[id(node)]

    def strip(self, node):
        while node[0] == "paren":
            node = node[1]
        return node

    def has_bin(self, ops, l, r):
        for n in self.nodes:
            if n[0] == "bin" and n[1] in ops and self.set_of(n[2]) == l and self.set_of(n[3]) == r:
                return True
        return False

    def has_is(self, negated, s):
        return any(n[0] == "is" and n[2] == negated and self.set_of(n[1]) == s for n in self.nodes)

    def has_in(self, l, r):
        for n in self.nodes:
            if n[0] == "in" and self.set_of(n[1]) == l:
                u = frozenset()
                for it in n[2]:
                    u |= self.set_of(it)
                if u == r:
                    return True
        return False

    def has_un(self, op, s):
        return any(n[0] == "un" and n[1] == op and self.set_of(n[2]) == s for n in self.nodes)

    def has_chain(self, op, chain):
        for n in self.nodes:
            if n[0] == "bin" and n[1] == op:
                got = []

                def flat(x):
                    y = self.strip(x)
                    if y[0] == "bin" and y[1] == op:
                        flat(y[2])
                        flat(y[3])
                    else:
                        got.append(self.set_of(x))
                flat(n)
                if got == chain:
                    return True
        return False

    def concat_runs(self):
        """string concatenation is associative: every run of consecutive operands of a maximal || chain counts as a
        (virtual) subtree, so concat(a, concat(b, c)) -> a || b || c keeps its arguments contiguous"""
        if hasattr(self, "_runs"):
            return self._runs
        runs = set()
        for n in self.nodes:
            if n[0] == "bin" and n[1] == "||":
                ops = []

                def flat(x):
                    if x[0] == "bin" and x[1] == "||":
                        flat(x[2])
                        flat(x[3])
                    else:
                        ops.append(self.set_of(x))
                flat(n)
                for i in range(len(ops)):
                    u = frozenset()
                    for j in range(i, len(ops)):
                        u |= ops[j]
                        runs.add(u)
        self._runs = runs
        return runs

    def has_group(self, sets):
        """a node covering exactly the union, in which every argument's leaves form a subtree of their own"""
        union = frozenset().union(*sets) if sets else frozenset()
        all_sets = set(self.sets.values()) | self.concat_runs()
        if union and union not in all_sets:
            return False
        return all((not s) or s in all_sets for s in sets)


def unary_chains_filter(term):
    """leaf set -> outer-to-inner sequence of the unary-like operators (not, unary minus, null test) applied to exactly that leaf set"""
    counter = [0]
    chains = {}

    def rec(t):
        k = t[0]
        if k in ("Identifier", "Integer", "Float", "String", "DateTime", "Date", "Duration", "GUID"):
            counter[0] += 1
            return frozenset(["L%d" % counter[0]])
        if k in ("Null", "Boolean"):
            return frozenset()
        mark = None
        if k == "UnaryOp":
            mark = "NOT" if t[1][0] == "Not" else "NEG"
            inner_t = t[2]
            while inner_t[0] == "UnaryOp" and inner_t[1][0] == "USub":
                inner_t = inner_t[2]
            if mark == "NEG" and inner_t[0] in ("Integer", "Float", "Duration"):
                mark = None       # signs in front of a literal are part of the literal on both sides
        elif k == "Compare" and t[1][0] in ("Eq", "NotEq") and ("Null",) in (t[2], t[3]):
            mark = "ISNULL" if t[1][0] == "Eq" else "ISNOTNULL"
        slot = []
        if mark:
            slot.append(mark)
            pos = (len(chains), slot)
        if k == "List":
            parts = [rec(e) for e in t[1][1:]]
        elif k == "Call":
            parts = [rec(a) for a in t[2][1:]]
        elif k == "UnaryOp":
            parts = [rec(t[2])]
        else:
            parts = [rec(t[2]), rec(t[3])]
        s_ = frozenset().union(*parts) if parts else frozenset()
        if mark:
            chains.setdefault(s_, []).insert(0, mark)     # post-order insert at the front = outer first
        return s_
    rec(term)
    return chains


def unary_chains_sql(idx, tree):
    chains = {}

    def rec(n):
        k = n[0]
        mark = None
        if k == "un" and n[1] in ("NOT", "-"):
            mark = "NOT" if n[1] == "NOT" else "NEG"
            inner = idx.strip(n[2])
            while inner[0] == "un" and inner[1] == "-":
                inner = idx.strip(inner[2])
            if mark == "NEG" and inner[0] in ("num", "interval"):
                mark = None
        elif k == "is":
            mark = "ISNOTNULL" if n[2] else "ISNULL"
        if mark:
            chains.setdefault(idx.set_of(n), []).append(mark)   # pre-order = outer first
        for c in SP.children(n):
            rec(c)
    rec(tree)
    return chains


def check_structure(term_u, leaves, sql):
    """-> None if fine, else (class, detail)"""
    try:
        tree, amb = SP.parse_sql(sql)
    except SP.SqlSyntaxError as e:
        return ("syntax", str(e)[:120])
    if amb:
        return ("ambiguous-concat", "|| next to unparenthesised arithmetic")
    idx = SqlIndex(tree, leaves)
    for lid, n in idx.occ.items():
        if n != 1:
            return ("leaf-count", "%s %r occurs %d times" % (lid, leaves[lid], n))
    for ob in filter_leafsets(term_u, leaves):
        kind = ob[0]
        if kind == "bin":
            _, op, (l, r), nullside = ob
            if op == "In":
                ok = idx.has_in(l, r)
            elif nullside and op in ("Eq", "NotEq"):
                ok = idx.has_is(op == "NotEq", l | r)
            else:
                ok = idx.has_bin(SQL_BIN[op], l, r)
            if not ok:
                return ("operator-span:" + op, "no SQL node %s with operands %s / %s" % (op, sorted(l), sorted(r)))
        elif kind == "un":
            _, op, (s,) = ob
            if not idx.has_un("NOT" if op == "Not" else "-", s):
                return ("operator-span:" + op, "no SQL unary %s over %s" % (op, sorted(s)))
        elif kind == "chain":
            _, op, chain = ob
            if not idx.has_chain("AND" if op == "And" else "OR", chain):
                return ("operator-span:" + op, "no SQL %s chain with operands %s" % (op, [sorted(c) for c in chain]))
        elif kind == "call":
            _, name, sets = ob
            if not idx.has_group(sets):
                return ("call-span:" + name, "arguments of %s are not contiguous subtrees: %s" % (name, [sorted(s) for s in sets]))
    # nesting ORDER of the unary-like operators that share a leaf set: not (x eq null)  vs  (not x) eq null
    fc, sc = unary_chains_filter(term_u), unary_chains_sql(idx, tree)
    for s_ in set(fc) | set(sc):
        if s_ and fc.get(s_, []) != sc.get(s_, []):
            return ("unary-nesting", "over %s the filter applies %s (outer to inner) but the SQL applies %s" % (sorted(s_), fc.get(s_, []), sc.get(s_, [])))
    return None


def alias_ok(sql_plain, sql_alias, al="al"):
    a = sqllex.lex(sql_plain)
    b = sqllex.lex(sql_alias)
    out = []
    i = 0
    while i < len(b):
        if (b[i].kind == "qid" and b[i].value == al and i + 2 < len(b) and b[i + 1].kind == "op" and b[i + 1].value == "."
                and b[i + 2].kind == "qid"):
            out.append(b[i + 2])
            i += 3
        else:
            out.append(b[i])
            i += 1
    n_cols = sum(1 for t in a if t.kind == "qid")
    n_alias = sum(1 for t in b if t.kind == "qid" and t.value == al)
    return out == a and n_alias == n_cols


_SQLITE = None


def sqlite_syntax_error(sql, alias):
    """the SQLite dialect's text must at least be SQLite syntax: prepare it (EXPLAIN) against a table that has every column"""
    global _SQLITE
    import sqlite3
    if _SQLITE is None:
        _SQLITE = sqlite3.connect(":memory:")
        _SQLITE.execute("CREATE TABLE t (%s)" % ", ".join('"f%d"' % i for i in range(200)))
    try:
        _SQLITE.execute('EXPLAIN SELECT 1 FROM t%s WHERE %s' % (' AS "%s"' % alias if alias else "", sql))
    except sqlite3.OperationalError as e:
        msg = str(e)
        if "syntax error" in msg or "unrecognized token" in msg or "incomplete input" in msg:
            return msg
    except sqlite3.Error:
        pass
    return None


def check_term(acc, term):
    tu, leaves = uniquify(term)
    text = to_odata(tu)
    acc.count("states")
    nops = sum(1 for s in typed.value_subterms(tu) if s[0] in ("Call", "BinOp", "Compare", "BoolOp", "UnaryOp"))
    if nops >= 2:
        acc.count("nontrivial")
    try:
        tree = _ps.parse(_lx.tokenize(text))
    except Exception as e:  # noqa
        acc.violation("parse-failed", {"filter": text, "error": repr(e)[:100]})
        return
    for d, V in DIALECTS.items():
        outs = {}
        for al in (None, "al"):
            acc.count("executions")
            acc.count("transitions")
            try:
                outs[al] = ("sql", V(al).visit(tree))
            except exceptions.ODataException as e:
                outs[al] = ("lib", type(e).__name__)
            except Exception as e:  # noqa
                outs[al] = ("foreign", type(e).__name__)
        if outs[None][0] != "sql":
            if outs[None][0] == "foreign":
                acc.violation("foreign-exc:%s:%s" % (d, SC.opsig(term)), {"filter": text, "dialect": d, "observed": outs[None]})
            else:
                acc.outcome(("refused", d))
            continue
        sql = outs[None][1]
        if not isinstance(sql, str):
            acc.violation("non-string:%s" % d, {"filter": text, "dialect": d, "observed": repr(sql)})
            continue
        bad = check_structure(tu, leaves, sql)
        if bad:
            finding = None
            if d == "standard" and bad[0] in ("syntax", "leaf-count") and any(s[0] == "Call" and s[1][1] in ("floor", "ceiling") for s in typed.value_subterms(tu)):
                # catalogued: malformed CASE template of floor/ceiling in the standard dialect; attribute only if the
                # same filter with floor/ceiling replaced by round is fine
                t_n = T.replace(tu, lambda n: ("Call", T.I("round"), n[2]) if n[0] == "Call" and n[1][1] in ("floor", "ceiling") else n)
                try:
                    sql_n = V(None).visit(_ps.parse(_lx.tokenize(to_odata(t_n))))
                    if check_structure(t_n, leaves, sql_n) is None:
                        finding = "standard:floor-ceiling-case-template"
                except Exception:  # noqa
                    pass
            acc.violation("%s:%s:%s" % (d, bad[0], SC.opsig(term)), {"filter": text, "dialect": d, "sql": sql, "problem": bad}, finding=finding)
            continue
        if d == "sqlite":
            err = sqlite_syntax_error(sql, None)
            if err:
                finding = "sqlite:interval-literal-not-sqlite-syntax" if any(st[0] == "Duration" for st in T.subterms(tu)) and "INTERVAL" in sql else None
                acc.violation("sqlite:engine-syntax:%s" % SC.opsig(term), {"filter": text, "dialect": d, "sql": sql, "problem": ["engine-syntax", err]}, finding=finding)
                continue
        if outs["al"][0] != "sql" or not alias_ok(sql, outs["al"][1]):
            acc.violation("alias:%s" % d, {"filter": text, "dialect": d, "sql": sql, "sql_alias": outs["al"]})
            continue
        acc.outcome(("ok", d))


def _unit(unit):
    ty, k, si, split = unit[:4]
    stripe = unit[4] if len(unit) > 4 else None
    acc = Acc()
    en = enum()
    for i, term in enumerate(en.apply(en.sigs[si], k, only_split=split)):
        if stripe and i % stripe[1] != stripe[0]:
            continue
        check_term(acc, term)
        if i == 0:
            acc.sample({"filter": to_odata(uniquify(term)[0])}, cap=1)
    return acc


def _tower_unit(terms):
    acc = Acc()
    for t in terms:
        check_term(acc, t)
    return acc


EXTRA = [
    T.call("contains", typed.F("s"), T.Str("it's 100%")), T.call("startswith", typed.F("s"), T.Str("a'_b")), T.call("endswith", typed.F("s"), T.Str("\\'%")),
    T.binop("And", T.call("contains", typed.F("s"), T.Str("'%'")), T.binop("Eq", typed.F("u"), T.Str("k"))), T.unop("Not", T.call("contains", T.call("tolower", typed.F("s")), T.Str("_'\\"))),
    T.binop("Gt", T.binop("Add", typed.F("d"), ("Duration", "P1Y2M3DT4H5M6.5S")), typed.dtlit("2020-02-29T23:59:59Z")),
    T.binop("Lt", typed.F("d"), T.binop("Sub", T.call("now"), ("Duration", "-P1DT1H"))),
    T.binop("Eq", typed.F("g"), ("GUID", "123e4567-e89b-12d3-a456-426614174000")),
    T.binop("In", typed.F("g"), T.lst(("GUID", "123e4567-e89b-12d3-a456-426614174000"), ("GUID", "123e4567-e89b-12d3-a456-426614174001"))),
]


def run(ctx):
    en = enum()
    kmax = 2
    total = 0
    for k in range(0, kmax + 1):
        for j in range(k):
            for ty in (typed.I, typed.R, typed.S, typed.B, typed.TT, typed.D, typed.LI, "LX"):
                en.terms(ty, j)
        if k == 0:
            for t in en.terms(typed.B, 0):
                check_term(ctx, t)
            continue
        units = [(typed.B, k, si, split) for si, split in en.work_units(typed.B, k)]
        ctx.pmap(_unit, units)
    ctx.layer("reduced-leaves-full-constructors", k_max=kmax, filters=int(ctx.counts["states"]), exhaustive=True)
    if ctx.quick:
        before = ctx.counts["states"]
        for j in range(3):
            for ty in (typed.I, typed.R, typed.S, typed.B, typed.TT, typed.D, typed.LI, "LX"):
                en.terms(ty, j)
        units = [(typed.B, 3, si, split) for si, split in en.work_units(typed.B, 3)]
        B = 12
        # fixed core (seed independent): one comparator over every arithmetic / string / logic nesting of depth 3
        core_sigs = {i for i, sg in enumerate(en.sigs) if sg.name in ("eq:II", "eq:SS", "not", "eq-null:I", "in:I")}
        units = [u for i, u in enumerate(units) if i % B == ctx.seed % B or u[2] in core_sigs]
        units = [u + ((j, 8),) for u in units for j in range(8)]        # stripes: even out the few very large units
        ctx.pmap(_unit, units)
        ctx.layer("k3-core+block", core="every k=3 term under eq:II, eq:SS, not, eq-null:I, in:I", block="%d of %d (VERIF_SEED mod %d)" % (ctx.seed % B, B, B), filters=int(ctx.counts["states"] - before),
                  exhaustive=False, note="thorough covers all blocks")
    if not ctx.quick:
        before = ctx.counts["states"]
        for j in range(3):
            for ty in (typed.I, typed.R, typed.S, typed.B, typed.TT, typed.D, typed.LI, "LX"):
                en.terms(ty, j)
        ctx.pmap(_unit, [(typed.B, 3, si, split) for si, split in en.work_units(typed.B, 3)])
        ctx.layer("k3", filters=int(ctx.counts["states"] - before), exhaustive=True)
    for t in EXTRA:
        check_term(ctx, t)
    before = ctx.counts["states"]
    tw = SC.deep_terms(CAP, (4, 6) if ctx.quick else (4, 6, 8))
    ctx.pmap(_tower_unit, [tw[i::32] for i in range(32) if tw[i::32]])
    ctx.layer("pumped-towers", filters=int(ctx.counts["states"] - before), exhaustive=True,
              note="every self-composable constructor and every ordered pair of them stacked 4 / 6 (thorough: 8) times on either spine")
    nm = meta_string_layer(ctx)
    ctx.layer("string-contents", strings=len(META_STRINGS), positions=9, translations=nm, exhaustive=True,
              note="quotes, LIKE wildcards and backslashes inside literals: output tokenises, parses and (SQLite dialect) prepares")
    nd = duration_layer(ctx)
    ctx.layer("duration-components", literals=len(__import__("vt.durref", fromlist=["x"]).DURATION_LITERALS), templates=len(DUR_TEMPLATES), translations=nd, exhaustive=True,
              note="the interval expression denotes exactly the literal's signed components (independent reading of both sides)")
    nr = repeated_member_layer(ctx)
    ctx.layer("repeated-list-members", lists=len(REPEAT_LISTS), translations=nr, exhaustive=True,
              note="members equal to an earlier member (or rendering like one) are all rendered: same token shape as with fresh values")
    nf = odd_field_layer(ctx)
    ctx.layer("non-ascii-field-names", names=len(ODD_FIELDS), templates=len(ODD_FIELD_TEMPLATES), translations=nf, exhaustive=True,
              note="one quoted identifier per reference: the name itself (standard, SQLite), the documented Athena spelling (Athena)")
    na = alias_spelling_layer(ctx)
    ctx.layer("alias-spellings", aliases=len(ALIASES), filters=len(ALIAS_FILTERS), translations=na, exhaustive=True,
              note="the table alias is the caller's: every column is qualified by exactly the alias as given (upper case, dash, blank, non-ASCII), in every dialect")
    ndt = datetime_literal_layer(ctx)
    ctx.layer("datetime-components", literals=len(DT_LITERALS), templates=len(DT_TEMPLATES), translations=ndt, exhaustive=True,
              note="date-time literals (with / without seconds, fraction, Z / signed offset): the one string constant of the SQL reads back, independently, as the same date, time of day, fraction and offset")
    nc = compositional_layer(ctx)
    ctx.layer("compositional-operands", operands=len(COMP_OPERANDS), contexts=len(COMP_CONTEXTS), translations=nc, exhaustive=True,
              note="the SQL of an operand translated alone occurs, as ONE subtree (modulo parentheses), in the SQL of every expression that uses it as an operand: what a call expands to (indexof's - 1, substring's + 1) stays inside the operator applied to the call")
    nk = keyword_case_layer(ctx)
    ctx.layer("keyword-literal-case", keywords=len(KW_LITERALS), templates=len(KW_TEMPLATES), translations=nk, exhaustive=True,
              note="every upper/lower-case spelling of true, false, null translates like the lower-case spelling")
    no = odd_digit_layer(ctx)
    ctx.layer("non-ascii-digits", spellings=len(ODD_DIGITS), templates=len(ODD_TEMPLATES), translations=no, exhaustive=True,
              note="number / date / time / duration / GUID spellings with Unicode decimal digits: rejected by the parser, or translated to ASCII-only SQL tokens")


# ---------------------------------------------------------------- duration literals, component by component
DUR_TEMPLATES = [("x eq {L}", 2, 0), ("{L} eq x", 0, 2), ("t add {L} gt t", 2, 2), ("t sub {L} gt t", 2, 2),
                 ("x in ({L}, duration'PT9S')", 3, 5), ("not (x ne {L})", 3, 0)]


def duration_unit(lit, tpl, pre, suf, dname):
    """-> None or (class, details): the interval expression in the SQL must denote exactly the literal's signed components"""
    from vt import durref
    text = tpl.replace("{L}", "duration'%s'" % lit)
    try:
        sql = DIALECTS[dname]().visit(_ps.parse(_lx.tokenize(text)))
    except exceptions.ODataException:
        return None
    except Exception as e:  # noqa
        return ("%s:duration:foreign:%s" % (dname, type(e).__name__), {"filter": text})
    toks = sqllex.lex(sql)
    span = toks[pre:len(toks) - suf]
    want = durref.duration_components(lit)
    try:
        got = durref.sql_interval_components(span)
    except durref.IntervalSyntax as e:
        return ("%s:duration:interval-syntax" % dname, {"filter": text, "sql": sql, "problem": str(e)})
    if got != want:
        return ("%s:duration:components" % dname, {"filter": text, "sql": sql, "got": {k: str(v) for k, v in got.items()}, "want": {k: str(v) for k, v in want.items()}})
    return None


def duration_layer(ctx):
    from vt import durref
    n = 0
    for lit in durref.DURATION_LITERALS:
        ctx.count("states")
        for tpl, pre, suf in DUR_TEMPLATES:
            for dname in DIALECTS:
                n += 1
                ctx.count("executions")
                ctx.count("transitions")
                r = duration_unit(lit, tpl, pre, suf, dname)
                if r:
                    ctx.violation(r[0], dict(r[1], layer="durations", literal=lit, template=tpl, dialect=dname))
                else:
                    ctx.outcome(("duration", "ok"))
    return n


# ---------------------------------------------------------------- list literals with members that are equal (or render equally)
REPEAT_LISTS = [("n in ({0})", ["1", "2", "1", "3", "2"], ["1", "2", "91", "3", "92"]),
                ("n in ({0})", ["1", "1"], ["1", "91"]),
                ("s in ({0})", ["'a'", "'b'", "'a'"], ["'a'", "'b'", "'zz'"]),
                ("s in ({0})", ["'a'", "'A'", "'a'", "'a'"], ["'a'", "'A'", "'y'", "'z'"]),
                ("b in ({0})", ["true", "1", "false", "0"], ["true", "91", "false", "92"]),
                ("n in ({0})", ["1", "1.0", "01", "1"], ["1", "1.5", "91", "92"]),
                ("n in ({0})", ["null", "null"], ["null", "91"]),
                ("not (n in ({0})) and s in ({0})", ["2", "2", "2"], ["2", "92", "93"]),
                ("d in ({0})", ["2020-01-01", "2020-01-01"], ["2020-01-01", "2020-01-02"])]


def repeated_member_layer(ctx):
    """a list literal is a sequence: every member is rendered, also one that equals an earlier member. Compared token by token with
    the same filter whose repeated members are replaced by fresh values"""
    n = 0
    for tpl, rep, fresh in REPEAT_LISTS:
        t_rep, t_fresh = tpl.format(", ".join(rep)), tpl.format(", ".join(fresh))
        ctx.count("states")
        try:
            trees = [_ps.parse(_lx.tokenize(t_rep)), _ps.parse(_lx.tokenize(t_fresh))]
        except exceptions.ODataException:
            continue
        for dname, cls in DIALECTS.items():
            n += 1
            ctx.count("executions")
            ctx.count("transitions")
            outs = []
            for tr in trees:
                try:
                    outs.append(("sql", cls().visit(tr)))
                except exceptions.ODataException as e:
                    outs.append(("lib", type(e).__name__))
                except Exception as e:  # noqa
                    outs.append(("foreign", type(e).__name__))
            if outs[0][0] != outs[1][0]:
                ctx.violation("%s:repeated-members:outcome" % dname, {"filter": t_rep, "fresh_filter": t_fresh, "dialect": dname, "layer": "repeated-members", "observed": outs})
            elif outs[0][0] == "sql":
                # punctuation / operators in place, everything else (literals of whatever kind, keywords, names) by position only
                k0 = [t.text if t.kind == "op" else None for t in sqllex.lex(outs[0][1])]
                k1 = [t.text if t.kind == "op" else None for t in sqllex.lex(outs[1][1])]
                if k0 != k1:
                    ctx.violation("%s:repeated-members:tokens" % dname, {"filter": t_rep, "fresh_filter": t_fresh, "dialect": dname, "layer": "repeated-members",
                                                                         "sql": outs[0][1], "fresh_sql": outs[1][1]})
                else:
                    ctx.outcome(("repeated-members", "same-shape"))
    return n


# ---------------------------------------------------------------- field names outside ASCII
ODD_FIELDS = ["stra\u00dfe", "na\u00efve", "\u00c9tat", "\u540d\u524d", "col\u0663", "pre\u00e7o", "\u0130d", "K\u212a", "Mixed_Case9", "_x", "a.b\u00e9", "\u00b5m"]
ODD_FIELD_TEMPLATES = ["{F} eq 1", "1 eq {F}", "contains({F}, 'k')", "{F} in (1, 2)", "not ({F} eq null) and {F} gt 0", "tolower({F}) eq 'k'"]


def odd_field_layer(ctx):
    """every field reference is one quoted identifier holding the name (standard, SQLite) or the name under the Athena dialect's documented
    rule (lower case, everything but ASCII letters / digits / underscore replaced by an underscore); the alias qualifies each of them"""
    n = 0
    for f in ODD_FIELDS:
        for tpl in ODD_FIELD_TEMPLATES:
            text = tpl.replace("{F}", f)
            try:
                tree = _ps.parse(_lx.tokenize(text))
            except exceptions.ODataException:
                continue
            ctx.count("states")
            occ = tpl.count("{F}")
            for dname, cls in DIALECTS.items():
                for al in (None, "al"):
                    n += 1
                    ctx.count("executions")
                    ctx.count("transitions")
                    try:
                        sql = cls(al).visit(tree)
                    except exceptions.ODataException:
                        ctx.outcome(("odd-field", "refused"))
                        continue
                    except Exception as e:  # noqa
                        ctx.violation("%s:odd-field:foreign:%s" % (dname, type(e).__name__), {"filter": text, "dialect": dname, "alias": al, "layer": "odd-fields"})
                        continue
                    name = f.split(".")[-1]
                    want = sqllex.athena_identifier_ref(name) if dname == "athena" else name
                    toks = sqllex.lex(sql)
                    names = [t.value for t in toks if t.kind == "qid" and t.value != "al"]
                    if sqllex.bad_tokens(toks) or names != [want] * occ:
                        ctx.violation("%s:odd-field:identifier" % dname, {"filter": text, "dialect": dname, "alias": al, "layer": "odd-fields", "sql": sql, "expected_identifier": want})
                    else:
                        ctx.outcome(("odd-field", "ok"))
    return n


# ---------------------------------------------------------------- date-time literals, component by component (wave 13)
import re as _re
DT_LITERALS = [(d, hm, sec, fr, off) for d in ("2019-01-01", "2020-02-29") for hm in ("10:20", "00:00", "23:59") for sec in (None, "30", "00")
               for fr in ((None,) if sec is None else (None, "5", "123456", "000")) for off in (None, "Z", "+02:00", "-11:30", "+00:00")]
DT_TEMPLATES = ["d lt {L}", "{L} ge d", "d in ({L}, 2001-01-01T01:01:01Z)", "not (d eq {L})"]
_DT_READ = _re.compile(r"^(\d{4}-\d{2}-\d{2})[T ](\d{2}:\d{2})(?::(\d{2})(?:\.(\d+))?)?(Z|[+-]\d{2}:\d{2})?$")


def _dt_text(c):
    d, hm, sec, fr, off = c
    return d + "T" + hm + ((":" + sec + (("." + fr) if fr else "")) if sec is not None else "") + (off or "")


def _dt_norm(c):
    d, hm, sec, fr, off = c
    return (d, hm, int(sec or 0), (fr or "").rstrip("0"), {"Z": "+00:00", "-00:00": "+00:00", None: None}.get(off, off))


def datetime_literal_layer(ctx):
    n = 0
    for c in DT_LITERALS:
        lit = _dt_text(c)
        for tpl in DT_TEMPLATES:
            text = tpl.replace("{L}", lit)
            try:
                tree = _ps.parse(_lx.tokenize(text))
            except exceptions.ODataException:
                continue
            ctx.count("states")
            for dname, cls in DIALECTS.items():
                n += 1
                ctx.count("executions")
                ctx.count("transitions")
                try:
                    sql = cls(None).visit(tree)
                except exceptions.ODataException:
                    ctx.outcome(("datetime-literal", "refused"))
                    continue
                strs = [t for t in sqllex.lex(sql) if t.kind == "str"]
                reads = []
                for t in strs:
                    m = _DT_READ.match(t.value)
                    reads.append(_dt_norm(m.groups()) if m else None)
                fixed = _dt_norm(("2001-01-01", "01:01", "01", None, "Z"))
                want = [_dt_norm(c)] + ([fixed] if " in " in tpl else [])
                if reads != want:
                    ctx.violation("%s:datetime-literal" % dname, {"filter": text, "dialect": dname, "alias": None, "layer": "datetime-literals", "sql": sql,
                                                                 "read_back": [list(r) if r else None for r in reads], "expected": [list(w) for w in want]})
                else:
                    ctx.outcome(("datetime-literal", "ok"))
    return n


# ---------------------------------------------------------------- operands translate to one subtree (wave 13)
COMP_OPERANDS = ["indexof(s, 'b')", "indexof(s, u)", "length(s)", "n add 1", "n sub m", "n mul 2", "n div m", "n mod 3", "-n", "- indexof(s, 'b')", "length(concat(s, 'a'))",
                 "indexof(substring(s, 1), 'b')", "indexof(substring(s, n, 2), u)", "round(x)", "floor(x)", "ceiling(x)", "year(d)", "month(d)", "length(trim(s))", "length(substring(s, indexof(s, 'b')))"]
COMP_CONTEXTS = ["-{X} eq -1", "- {X} eq -1", "-(-{X}) eq 1", "{X} add n eq 1", "n add {X} eq 1", "{X} sub n eq 1", "n sub {X} eq 1", "{X} mul n eq 1", "n mul {X} eq 1", "{X} div n eq 1", "n div {X} eq 1",
                 "{X} mod n eq 1", "n mod {X} eq 1", "{X} eq n", "n lt {X}", "not ({X} ge n)", "{X} in (1, 2)", "-{X} mul -{X} eq 1", "n sub -{X} eq 1", "{X} eq n or -{X} eq m", "substring(s, {X}) eq u",
                 "substring(s, 1, {X}) eq u", "substring(s, -{X}) eq u"]


def _noparen(n):
    if isinstance(n, tuple):
        if n and n[0] == "paren":
            return _noparen(n[1])
        return tuple(_noparen(c) for c in n)
    if isinstance(n, list):
        return [_noparen(c) for c in n]
    return n


def _subtrees(n, out):
    if isinstance(n, tuple):
        out.append(n)
    if isinstance(n, (tuple, list)):
        for c in n:
            _subtrees(c, out)
    return out


def compositional_unit(xt, ctpl, dname):
    """-> None / (class, detail)"""
    cls = DIALECTS[dname]
    text = ctpl.replace("{X}", "(" + xt + ")")
    try:
        whole = cls(None).visit(_ps.parse(_lx.tokenize(text)))
        part = cls(None).visit(_ps.parse(_lx.tokenize(xt)))
    except exceptions.ODataException:
        return "refused"
    try:
        tw, tp = _noparen(SP.parse_sql(whole)[0]), _noparen(SP.parse_sql(part)[0])
    except SP.SqlSyntaxError as e:
        return ("syntax", {"sql": whole, "sql_operand": part, "problem": str(e)[:80]})
    need = ctpl.count("{X}")
    have = sum(1 for t in _subtrees(tw, []) if t == tp)
    if have < need:
        return ("operand-not-a-subtree", {"sql": whole, "sql_operand": part, "occurrences": have, "expected": need})
    return None


def compositional_layer(ctx):
    n = 0
    for xt in COMP_OPERANDS:
        for ctpl in COMP_CONTEXTS:
            ctx.count("states")
            for dname in DIALECTS:
                n += 1
                ctx.count("executions")
                ctx.count("transitions")
                r = compositional_unit(xt, ctpl, dname)
                if r is None or r == "refused":
                    ctx.outcome(("compositional", r or "ok"))
                else:
                    finding = None
                    if dname == "standard" and r[0] == "syntax" and ("floor(" in xt or "ceiling(" in xt):
                        # catalogued malformed CASE template of floor / ceiling: attribute only if the same unit with round in their place is fine
                        if compositional_unit(xt.replace("floor(", "round(").replace("ceiling(", "round("), ctpl, dname) is None:
                            finding = "standard:floor-ceiling-case-template"
                    ctx.violation("%s:compositional:%s" % (dname, r[0]), dict(r[1], filter=ctpl.replace("{X}", "(" + xt + ")"), dialect=dname, alias=None, layer="compositional", operand=xt, context=ctpl), finding=finding)
    return n


# ---------------------------------------------------------------- table alias spellings (wave 13)
ALIASES = ["T1", "Al", "my-alias", "t_1", "tbl 2", "\u00e9t\u00e9", "AL", "select"]
ALIAS_FILTERS = ["n eq 1", "s eq 'a' and n gt 2", "contains(s, 'a') or b", "n in (1, 2)", "length(s) add n eq 3", "not (b eq true)", "Name eq name", "d gt 2020-01-01T00:00:00Z",
                 "indexof(s, 'a') eq n", "concat(s, s) eq s"]


def alias_spelling_layer(ctx):
    n = 0
    for text in ALIAS_FILTERS:
        tree = _ps.parse(_lx.tokenize(text))
        ctx.count("states")
        for dname, cls in DIALECTS.items():
            try:
                plain = cls(None).visit(tree)
            except exceptions.ODataException:
                continue
            for al in ALIASES:
                n += 1
                ctx.count("executions")
                ctx.count("transitions")
                try:
                    sql = cls(al).visit(tree)
                except Exception as e:  # noqa
                    ctx.violation("%s:alias-spelling:%s" % (dname, type(e).__name__), {"filter": text, "dialect": dname, "alias": al, "layer": "alias-spellings"})
                    continue
                if alias_ok(plain, sql, al):
                    ctx.outcome(("alias-spelling", "ok"))
                else:
                    ctx.violation("%s:alias-spelling" % dname, {"filter": text, "dialect": dname, "alias": al, "layer": "alias-spellings", "sql": sql, "sql_plain": plain})
    return n


# ---------------------------------------------------------------- keyword literals in every letter case
KW_LITERALS = ["true", "false", "null"]
KW_TEMPLATES = ["b eq {L}", "{L} eq b", "b in ({L}, {L})", "not (b ne {L})", "b eq {L} or n eq 1", "contains(s, 'k') eq {L}"]


def keyword_case_layer(ctx):
    """the parser accepts true / false / null in any letter case: the SQL must be the SQL of the lower-case spelling"""
    n = 0
    for kw in KW_LITERALS:
        spellings = sorted({"".join(c.upper() if (m >> i) & 1 else c for i, c in enumerate(kw)) for m in range(1 << len(kw))})
        for tpl in KW_TEMPLATES:
            base = tpl.replace("{L}", kw)
            try:
                tree0 = _ps.parse(_lx.tokenize(base))
            except exceptions.ODataException:
                continue
            for sp in spellings:
                text = tpl.replace("{L}", sp)
                ctx.count("states")
                try:
                    tree = _ps.parse(_lx.tokenize(text))
                except exceptions.ODataException:
                    ctx.outcome(("kw-case", "rejected"))
                    continue
                for dname, cls in DIALECTS.items():
                    n += 1
                    ctx.count("executions")
                    ctx.count("transitions")
                    outs = []
                    for tr in (tree0, tree):
                        try:
                            outs.append(("sql", cls().visit(tr)))
                        except exceptions.ODataException as e:
                            outs.append(("lib", type(e).__name__))
                        except Exception as e:  # noqa
                            outs.append(("foreign", type(e).__name__))
                    if outs[0] != outs[1]:
                        ctx.violation("%s:keyword-case" % dname, {"filter": text, "lower_case_filter": base, "dialect": dname, "layer": "keyword-case",
                                                                 "observed": outs[1], "expected": outs[0]})
                    else:
                        ctx.outcome(("kw-case", "same"))
    return n


# ---------------------------------------------------------------- digits that are not ASCII digits
# \d, int() and float() accept every Unicode decimal digit; SQL does not. If the parser accepts such a spelling as a number (or date,
# time, duration, GUID), the SQL text must still consist of SQL tokens: outside string literals and quoted identifiers only ASCII.
ODD_DIGITS = ["\u0663", "\uff11\uff12", "1\u0665", "\u0967", "1.\u0665", "1.\u0665e\uff11", "-\u0663", "2\u0660\u0662\u0660-01-01", "2020-0\u0661-01T00:00:00Z", "1\u0660:30:00",
              "duration'P\u0661D'", "123e4567-e89b-12d3-a456-42661417400\u0660"]
ODD_TEMPLATES = ["n eq {L}", "{L} eq n", "n in (1, {L})", "n add {L} gt 0", "round({L}) eq 1", "d gt {L}", "not (n eq {L})"]


def odd_digit_layer(ctx):
    n = 0
    for lit in ODD_DIGITS:
        for tpl in ODD_TEMPLATES:
            text = tpl.replace("{L}", lit)
            ctx.count("states")
            try:
                tree = _ps.parse(_lx.tokenize(text))
            except exceptions.ODataException:
                ctx.outcome(("odd-digit", "rejected"))
                continue
            for dname, cls in DIALECTS.items():
                n += 1
                ctx.count("executions")
                ctx.count("transitions")
                try:
                    sql = cls().visit(tree)
                except exceptions.ODataException:
                    ctx.outcome(("odd-digit", "refused"))
                    continue
                except Exception as e:  # noqa
                    ctx.violation("%s:odd-digit:foreign:%s" % (dname, type(e).__name__), {"filter": text, "dialect": dname, "layer": "odd-digits"})
                    continue
                bad = [t for t in sqllex.lex(sql) if t.kind not in ("str", "qid") and not t.text.isascii()]
                if bad:
                    ctx.violation("%s:odd-digit:non-ascii-token" % dname, {"filter": text, "dialect": dname, "layer": "odd-digits", "sql": sql, "token": bad[0].text})
                else:
                    ctx.outcome(("odd-digit", "ascii"))
    return n


# ---------------------------------------------------------------- string contents (the main enumeration replaces every literal by a unique token)
META_STRINGS = ["it's 100%", "a'_b", "\\'%", "'%'", "_'\\", "''", "%'", "'", "a''b%_", "\\", "x' OR 1=1 --%", "100%", "_", ""]


def meta_string_layer(ctx):
    """quote / wildcard / backslash combinations inside string literals, in the positions whose rendering differs (comparison, in-list,
    LIKE pattern, LIKE subject, concat): the SQL must still tokenise without stray or unterminated tokens and parse"""
    s_, u_ = typed.F("s"), typed.F("u")
    n = 0
    for sv in META_STRINGS:
        L = T.Str(sv)
        terms = [T.binop("Eq", s_, L), T.binop("In", s_, T.lst(L, T.Str("k"))), T.call("contains", s_, L), T.call("startswith", s_, L), T.call("endswith", s_, L),
                 T.call("contains", L, s_), T.binop("Eq", T.call("concat", s_, L), u_), T.unop("Not", T.call("contains", T.call("tolower", s_), L)),
                 T.binop("And", T.call("endswith", s_, L), T.binop("Eq", u_, T.Str("k")))]
        for term in terms:
            text = to_odata(term)
            tree = _ps.parse(_lx.tokenize(text))
            ctx.count("states")
            for dname, cls in DIALECTS.items():
                for al in (None, "al"):
                    n += 1
                    ctx.count("executions")
                    ctx.count("transitions")
                    try:
                        sql = cls(al).visit(tree)
                    except exceptions.ODataException:
                        ctx.outcome(("meta-string", "refused"))
                        continue
                    except Exception as e:  # noqa
                        ctx.violation("%s:meta-string:foreign:%s" % (dname, type(e).__name__), {"filter": text, "dialect": dname, "layer": "meta-strings"})
                        continue
                    bad = sqllex.bad_tokens(sqllex.lex(sql))
                    err = None
                    if not bad:
                        try:
                            SP.parse_sql(sql)
                        except SP.SqlSyntaxError as e:
                            err = str(e)[:80]
                    if bad or err:
                        ctx.violation("%s:meta-string:%s" % (dname, "bad-token" if bad else "syntax"), {"filter": text, "dialect": dname, "alias": al, "layer": "meta-strings", "sql": sql,
                                                                                                       "problem": bad[0].text[:40] if bad else err})
                    elif dname == "sqlite" and sqlite_syntax_error(sql.replace('"s"', '"f0"').replace('"u"', '"f1"'), al):
                        ctx.violation("sqlite:meta-string:engine-syntax", {"filter": text, "dialect": dname, "alias": al, "layer": "meta-strings", "sql": sql})
                    else:
                        ctx.outcome(("meta-string", "ok"))
    return n


def _untuple(x):
    return tuple(_untuple(e) for e in x) if isinstance(x, list) else x


def replay(ctx, case):
    text = case["filter"]
    if case.get("layer") == "durations":
        pre, suf = {t: (a, b) for t, a, b in DUR_TEMPLATES}[case["template"]]
        r = duration_unit(case["literal"], case["template"], pre, suf, case["dialect"])
        return {"filter": text, "violation": r, "ok": r is None}
    if case.get("layer") == "repeated-members":
        acc = Acc()
        repeated_member_layer(acc)
        mine = [v for v in acc.violations if v["case"]["filter"] == text and v["case"]["dialect"] == case["dialect"]]
        return {"filter": text, "violations": mine, "ok": not mine}
    if case.get("layer") == "odd-fields":
        acc = Acc()
        odd_field_layer(acc)
        mine = [v for v in acc.violations if all(v["case"].get(k) == case.get(k) for k in ("filter", "dialect", "alias"))]
        return {"filter": text, "violations": mine, "ok": not mine}
    if case.get("layer") == "datetime-literals":
        acc = Acc()
        datetime_literal_layer(acc)
        mine = [v for v in acc.violations if v["case"]["filter"] == text and v["case"]["dialect"] == case["dialect"]]
        return {"filter": text, "violations": mine, "ok": not mine}
    if case.get("layer") == "compositional":
        r = compositional_unit(case["operand"], case["context"], case["dialect"])
        return {"filter": text, "violation": None if r in (None, "refused") else [r[0], r[1]], "ok": r in (None, "refused")}
    if case.get("layer") == "alias-spellings":
        tree = _ps.parse(_lx.tokenize(text))
        plain, sql = DIALECTS[case["dialect"]](None).visit(tree), DIALECTS[case["dialect"]](case["alias"]).visit(tree)
        return {"filter": text, "sql": sql, "sql_plain": plain, "ok": alias_ok(plain, sql, case["alias"])}
    if case.get("layer") == "keyword-case":
        outs = []
        for tx in (case["lower_case_filter"], text):
            try:
                outs.append(DIALECTS[case["dialect"]]().visit(_ps.parse(_lx.tokenize(tx))))
            except Exception as e:  # noqa
                outs.append(type(e).__name__)
        return {"filter": text, "observed": outs[1], "expected": outs[0], "ok": outs[0] == outs[1]}
    if case.get("layer") == "meta-strings":
        sql = DIALECTS[case["dialect"]](case.get("alias")).visit(_ps.parse(_lx.tokenize(text)))
        bad = [t.text[:40] for t in sqllex.bad_tokens(sqllex.lex(sql))]
        try:
            SP.parse_sql(sql)
            err = None
        except SP.SqlSyntaxError as e:
            err = str(e)[:80]
        return {"filter": text, "sql": sql, "bad_tokens": bad, "syntax": err, "ok": not bad and not err}
    if case.get("layer") == "odd-digits":
        try:
            sql = DIALECTS[case["dialect"]]().visit(_ps.parse(_lx.tokenize(text)))
        except exceptions.ODataException as e:
            return {"filter": text, "outcome": type(e).__name__, "ok": True}
        bad = [t.text for t in sqllex.lex(sql) if t.kind not in ("str", "qid") and not t.text.isascii()]
        return {"filter": text, "sql": sql, "non_ascii_tokens": bad, "ok": not bad}
    from vt.decode import decode
    tree = _ps.parse(_lx.tokenize(text))
    acc = Acc()
    check_term(acc, decode(tree))
    return {"filter": text, "violations": acc.violations, "ok": not acc.violations}
