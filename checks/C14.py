"""C14 - Alias rewriting is exact substitution on field references only."""
from itertools import combinations, product

from odata_query.rewrite import AliasRewriter

from vt import sched, refsubst, terms as T
from vt.decode import decode, encode
from vt.refprint import to_odata
from vt.runner import Acc

RULE = ("all trees with <=2 operator nodes (14 binary + 2 unary operators, every shape) over leaves {a, b, a/b, a/b/c, date, "
        "year(a), date(b), length(a/b), f.g(p=a), f.g(a=b), a/any(x: x/b eq a), xs/all(a: a/b eq b), lists, literals} x all alias "
        "maps with <=2 entries, keys from {a, b, a/b, a/b/c, date, length, p, x, zz} and targets from {c, c/d, length(c), a, b}; "
        "AliasRewriter(map).visit(tree) must equal R-SUBST (scoping-aware substitution on field references only). Metamorphic: "
        "empty / non-matching map is the identity, the input tree is unchanged, a fresh-name bijection followed by its inverse "
        "restores the tree. non-trivial = distinct (tree, map) pairs where the map changes the tree.")
ASSUMPTIONS = ["R-SUBST implements the property statement: function names, named-parameter names and lambda-bound variables are not field references"]

a, b = T.I("a"), T.I("b")
LEAVES = [
    a, b, T.path("a", "b"), T.path("a", "b", "c"), T.I("date"), T.call("year", a), T.call("date", b), T.call("length", T.path("a", "b")),
    T.call("g", T.named("p", a), ns=("f",)), T.call("g", T.named("a", b), T.named("x", T.path("a", "b")), ns=("f",)),
    T.lam(a, "Any", "x", T.binop("Eq", T.path("x", "b"), a)), T.lam(T.I("xs"), "All", "a", T.binop("Eq", T.path("a", "b"), b)),
    T.lam(T.path("a", "b"), "Any"), T.lst(a, T.path("a", "b"), T.Int(1)), T.Int(1), T.Str("a"), T.I("p"), T.I("x"), T.path("x", "b"),
    T.lam(T.I("zz"), "Any", "x", T.lam(T.path("x", "ys"), "All", "y", T.binop("Gt", T.path("y", "a"), T.path("a", "b")))),
    T.I("a", ("ns",)), T.call("length", T.I("length")), T.I("b", ("a",)), T.A(T.I("b", ("a",)), "c"),
    # an inner lambda re-binds the outer variable; the outer variable is used again afterwards
    T.lam(a, "Any", "x", T.binop("And", T.lam(T.path("x", "ys"), "Any", "x", T.binop("Eq", T.path("x", "p"), b)), T.binop("Eq", T.path("x", "b"), a))),
    T.lam(T.I("xs"), "All", "a", T.binop("Or", T.lam(T.path("a", "b"), "Any", "a", T.binop("Eq", T.I("a"), T.Int(1))), T.binop("Eq", T.I("a"), b))),
    # the SAME clause repeated under two different outer binders with the same innermost variable: x is bound in one, free in the other
    T.binop("And", T.lam(a, "Any", "x", T.lam(b, "Any", "y", T.binop("Eq", T.I("x"), T.path("y", "p")))),
            T.lam(T.I("zz"), "Any", "z", T.lam(b, "Any", "y", T.binop("Eq", T.I("x"), T.path("y", "p"))))),
    T.binop("Or", T.lam(T.I("zz"), "All", "z", T.lam(b, "Any", "y", T.binop("Eq", T.path("x", "b"), T.I("a")))),
            T.lam(a, "Any", "x", T.lam(b, "Any", "y", T.binop("Eq", T.path("x", "b"), T.I("a"))))),
    T.binop("And", T.binop("Eq", T.path("a", "b"), T.Int(1)), T.lam(T.I("xs"), "Any", "a", T.binop("Eq", T.path("a", "b"), T.Int(1)))),
    # the collection path in front of any()/all() is OUTSIDE the lambda's scope, also when it starts with the variable's own name
    T.lam(T.path("a", "b"), "Any", "a", T.binop("Eq", T.path("a", "c"), b)), T.lam(a, "All", "a", T.binop("Eq", a, b)),
    T.lam(T.path("a", "b", "c"), "Any", "b", T.binop("Eq", T.path("b", "c"), T.path("a", "b"))),
    T.lam(T.I("xs"), "Any", "a", T.lam(T.path("b", "ys"), "Any", "b", T.binop("Eq", T.path("b", "p"), T.path("a", "b")))),
    # a long path rooted at the lambda variable that equals an alias key segment for segment
    T.lam(T.I("xs"), "Any", "a", T.binop("Eq", T.path("a", "b", "c"), T.Int(1))), T.lam(T.path("a", "b", "c"), "All", "a", T.binop("Eq", T.path("a", "b", "c", "d"), T.path("a", "b"))),
    # sibling lambdas binding the same name, then a free use of that name
    T.binop("And", T.binop("And", T.lam(a, "Any", "x", T.binop("Eq", T.path("x", "b"), T.Int(1))), T.lam(b, "All", "x", T.binop("Eq", T.I("x"), T.Int(2)))),
            T.binop("Eq", T.I("x"), T.path("x", "b"))),
]
LIST_LEAVES = [T.lst(a, T.Int(1)), T.lst(T.path("a", "b")), T.lst(T.I("date"), b)]

KEYS = [a, b, T.path("a", "b"), T.path("a", "b", "c"), T.I("date"), T.I("length"), T.I("p"), T.I("x"), T.I("zz"), T.I("b", ("a",))]
TARGETS = [T.I("c"), T.path("c", "d"), T.call("length", T.I("c")), a, b]


def alias_maps(max_entries):
    maps = [()]
    for k in KEYS:
        for tg in TARGETS:
            if k != tg:
                maps.append(((k, tg),))
    # an identity entry (key -> itself) is an entry like any other: it pins the path it names against aliases of its prefix
    for k in (T.path("a", "b"), T.path("a", "b", "c"), a):
        for k2, t2 in ((a, T.I("c")), (T.path("a", "b"), T.path("c", "d")), (b, T.I("c"))):
            if k != k2:
                maps.append(((k, k), (k2, t2)))
                maps.append(((k2, t2), (k, k)))
    if max_entries >= 2:
        for k1, k2 in combinations(KEYS, 2):
            for t1, t2 in product(TARGETS[:4], repeat=2):
                if k1 != t1 and k2 != t2:
                    maps.append(((k1, t1), (k2, t2)))
    return maps


def rewrite(tree, m):
    rw = AliasRewriter({to_odata(k): to_odata(v) for k, v in m})
    node = encode(tree)
    before = decode(node)
    out = rw.visit(node)
    return decode(out), decode(node) == before


def classify(tree, m, exp, got):
    """which kind of non-field position was touched"""
    keys = {k for k, _ in m}
    for s in T.subterms(tree):
        if s[0] == "Call" and s[1] in keys:
            return "function-name-rewritten"
    for s in T.subterms(tree):
        if s[0] == "NamedParam" and s[1] in keys:
            return "named-parameter-name-rewritten"
    for s in T.subterms(tree):
        if s[0] == "Lambda" and (s[1] in keys or any(refsubst.root_of(k) == s[1] for k in keys)):
            return "lambda-variable-rewritten"
    return "other"


def check(acc, tree, maps):
    acc.count("states")
    for m in maps:
        acc.count("executions")
        acc.count("transitions")
        mapping = dict(m)
        exp = refsubst.substitute(tree, mapping)
        try:
            got, intact = rewrite(tree, m)
        except Exception as e:  # noqa
            acc.violation("exception:%s" % type(e).__name__, {"tree": to_odata(tree), "map": [[to_odata(k), to_odata(v)] for k, v in m], "error": repr(e)[:200]})
            continue
        if exp != tree:
            acc.count("nontrivial")
        if not intact:
            acc.violation("input-mutated", {"tree": to_odata(tree), "map": [[to_odata(k), to_odata(v)] for k, v in m]})
        if got != exp:
            acc.violation("substitution:" + classify(tree, m, exp, got),
                          {"tree": to_odata(tree), "map": [[to_odata(k), to_odata(v)] for k, v in m], "expected": to_odata(exp) if _printable(exp) else exp,
                           "observed": to_odata(got) if _printable(got) else got, "tree_term": tree, "map_terms": [list(x) for x in m]})
        else:
            acc.outcome(("ok", exp == tree))


def _printable(t):
    try:
        to_odata(t)
        return True
    except Exception:  # noqa
        return False


def bijection_roundtrip(acc, tree):
    names = sorted({s[1] for s in T.subterms(tree) if s[0] == "Identifier" and s[2] == ("()",)})
    fwd = tuple((T.I(n), T.I(n + "_fresh")) for n in names)
    bwd = tuple((T.I(n + "_fresh"), T.I(n)) for n in names)
    try:
        mid, _ = rewrite(tree, fwd)
        back, _ = rewrite(mid, bwd)
    except Exception as e:  # noqa
        acc.violation("bijection-exception:%s" % type(e).__name__, {"tree": to_odata(tree), "error": repr(e)[:200]})
        return
    acc.count("executions", 2)
    exp_mid = refsubst.substitute(tree, dict(fwd))
    if back != tree and refsubst.substitute(exp_mid, dict(bwd)) == tree:
        acc.violation("bijection-not-inverse", {"tree": to_odata(tree), "map": [[to_odata(k), to_odata(v)] for k, v in fwd],
                                                "observed": to_odata(back) if _printable(back) else back})


# ---------------------------------------------------------------- qualified path segments
QUAL_TREES = [T.binop("Eq", T.A(a, "n1.b"), T.Int(1)), T.binop("Eq", T.path("a", "b"), T.A(a, "n2.b")), T.A(T.A(a, "n1.b"), "c"),
              T.lam(T.A(a, "n2.b"), "Any", "x", T.binop("Eq", T.A(T.I("x"), "n1.b"), T.A(a, "n1.b"))), T.lst(T.A(a, "n1.b"), T.A(a, "n2.b"), T.path("a", "b"))]
QUAL_KEYS = [T.A(a, "n1.b"), T.A(a, "n2.b"), T.path("a", "b"), a]


def qualified_maps():
    maps = [()]
    tg = [T.I("X"), T.I("Y"), T.path("c", "d")]
    for k in QUAL_KEYS:
        for t_ in tg:
            maps.append(((k, t_),))
    for k1, k2 in combinations(QUAL_KEYS, 2):
        maps.append(((k1, tg[0]), (k2, tg[1])))
        maps.append(((k2, tg[0]), (k1, tg[1])))
    return maps


# ---------------------------------------------------------------- composition: the output of a rewrite is an AST too
def compose_check(acc, tree, m1, maps2):
    acc.count("states")
    try:
        mid, _ = rewrite(tree, m1)
    except Exception:  # noqa  (reported by check())
        return
    exp_mid = refsubst.substitute(tree, dict(m1))
    if mid != exp_mid:
        return
    for m2 in maps2:
        acc.count("executions")
        acc.count("transitions")
        exp = refsubst.substitute(exp_mid, dict(m2))
        try:
            rw = AliasRewriter({to_odata(k): to_odata(v) for k, v in m2})
            node = encode(mid)
            got = decode(rw.visit(node))
        except Exception as e:  # noqa
            acc.violation("compose-exception:%s" % type(e).__name__, {"layer": "compose", "tree": to_odata(tree), "tree_term": tree, "map1": [list(x) for x in m1],
                                                                      "map2": [list(x) for x in m2], "error": repr(e)[:200]})
            continue
        if got != exp:
            acc.violation("compose-substitution", {"layer": "compose", "tree": to_odata(tree), "tree_term": tree, "map1": [list(x) for x in m1], "map2": [list(x) for x in m2],
                                                   "expected": exp, "observed": got})
        else:
            acc.outcome(("compose-ok", exp == exp_mid))


def _compose_unit(trees):
    acc = Acc()
    maps1 = [m for m in alias_maps(1) if m]
    maps2 = [(), ((T.I("zz"), T.I("y")),), ((T.I("c"), T.I("a")),), ((b, T.path("c", "d")),)]
    for tree in trees:
        for m1 in maps1:
            compose_check(acc, tree, m1, maps2)
    return acc


# ---------------------------------------------------------------- one shared rewriter, interleaved visits
class _Hooked(AliasRewriter):
    """switch point before every node visit (class-level, so that copies of the rewriter made by the library keep it)"""
    _sched = None

    def visit(self, node):
        if _Hooked._sched is not None:
            _Hooked._sched.point()
        return super().visit(node)


SHARED_MAPS = [((T.I("x"), T.I("y")),), ((a, T.I("c")), (T.path("x", "b"), T.I("d")))]
SHARED_PAIRS = [
    (T.lam(T.I("items"), "Any", "x", T.binop("And", T.binop("Eq", T.path("x", "p"), T.Int(0)), T.binop("Eq", T.path("x", "b"), a))), T.binop("Eq", T.I("x"), T.Int(1))),
    (T.lam(a, "All", "x", T.lam(T.path("x", "ys"), "Any", "y", T.binop("Eq", T.path("y", "q"), T.path("x", "b")))), T.binop("Eq", T.path("x", "b"), T.I("x"))),
    (T.binop("Eq", T.I("x"), a), T.lam(T.I("xs"), "Any", "a", T.binop("Eq", T.path("a", "b"), T.I("x")))),
]


def _shared_unit(unit):
    (t1, t2), m, bound = unit
    acc = Acc()
    exp = [refsubst.substitute(t1, dict(m)), refsubst.substitute(t2, dict(m))]

    def factory():
        rw = _Hooked({to_odata(k): to_odata(v) for k, v in m})
        nodes = [encode(t1), encode(t2)]

        def mk(node):
            def task(s):
                _Hooked._sched = s
                return decode(rw.visit(node))
            return task
        return [mk(n) for n in nodes]

    def on_exec(x):
        acc.count("executions")
        acc.count("states")
        acc.count("transitions", len(x.points))
        if x.preemptions_before(len(x.points)):
            acc.count("nontrivial")
        for tid in (0, 1):
            kind, v = x.results[tid]
            if kind != "ok" or v != exp[tid]:
                acc.violation("shared-instance:%s" % ("exception" if kind != "ok" else "substitution"),
                              {"layer": "shared", "trees": [to_odata(t1), to_odata(t2)], "tree_terms": [t1, t2], "map_terms": [list(x_) for x_ in m],
                               "choices": list(x.choices), "task": tid, "expected": to_odata(exp[tid]),
                               "observed": to_odata(v) if kind == "ok" and _printable(v) else repr(v)[:200]})
                return
        acc.outcome(("shared-ok", len(x.points)))

    try:
        n = sched.explore(factory, bound, on_exec, max_executions=200000)
    finally:
        _Hooked._sched = None
    acc.sample({"layer": "shared", "trees": [to_odata(t1), to_odata(t2)], "schedules": n, "preemption_bound": bound}, cap=1)
    return acc


_MAPS = {}


def _unit(unit):
    n, si, max_entries = unit
    acc = Acc()
    maps = _MAPS.setdefault(max_entries, alias_maps(max_entries))
    shape = T.shapes(n)[si]
    for i, tree in enumerate(T.op_trees_of_shape(shape, offset=si * 5, leaves=LEAVES, listleaves=LIST_LEAVES)):
        check(acc, tree, maps)
        bijection_roundtrip(acc, tree)
        if i == 3:
            acc.sample({"tree": to_odata(tree), "map": {to_odata(k): to_odata(v) for k, v in maps[7]}}, cap=1)
    return acc


def run(ctx):
    for leaf in LEAVES + LIST_LEAVES:
        check(ctx, leaf, alias_maps(2))
        bijection_roundtrip(ctx, leaf)
    ctx.layer("leaves", trees=len(LEAVES) + len(LIST_LEAVES), maps=len(alias_maps(2)), exhaustive=True)
    units = [(1, si, 2) for si in range(len(T.shapes(1)))]
    units += [(2, si, 1 if ctx.quick else 2) for si in range(len(T.shapes(2)))]
    ctx.pmap(_unit, units)
    ctx.layer("trees", max_operator_nodes=2, maps_k1=len(alias_maps(2)), maps_k2=len(alias_maps(1 if ctx.quick else 2)), exhaustive=True)
    qm = qualified_maps()
    for tree in QUAL_TREES:
        check(ctx, tree, qm)
    ctx.layer("qualified-path-segments", trees=len(QUAL_TREES), maps=len(qm), exhaustive=True,
              note="paths whose inner segment carries a namespace (a/n1.b, a/n2.b, a/b) as trees and as alias keys: they are three different fields")
    trees = LEAVES + LIST_LEAVES
    ctx.pmap(_compose_unit, [trees[i::16] for i in range(16)])
    ctx.layer("composition", trees=len(trees), first_maps=len(alias_maps(1)) - 1, second_maps=4, exhaustive=True,
              note="the output of a rewrite (e.g. a path whose owner became a call) is rewritten again, with the empty map and three others")
    units = [(pair, m, 2 if ctx.quick else 3) for pair in SHARED_PAIRS for m in SHARED_MAPS]
    ctx.pmap(_shared_unit, units)
    ctx.layer("shared-instance-interleavings", pairs=len(SHARED_PAIRS), maps=len(SHARED_MAPS), preemption_bound=2 if ctx.quick else 3, exhaustive=True,
              note="two visits on ONE rewriter instance as greenlets that may switch before every node visit; all schedules within the preemption bound")


def _untuple(x):
    return tuple(_untuple(e) for e in x) if isinstance(x, list) else x


def replay(ctx, case):
    if case.get("layer") == "compose":
        acc = Acc()
        compose_check(acc, _untuple(case["tree_term"]), tuple(tuple(x) for x in _untuple(case["map1"])), [tuple(tuple(x) for x in _untuple(case["map2"]))])
        return {"tree": case["tree"], "violations": acc.violations, "ok": not acc.violations}
    if case.get("layer") == "shared":
        t1, t2 = _untuple(case["tree_terms"])
        m = tuple(tuple(x) for x in _untuple(case["map_terms"]))
        rw = _Hooked({to_odata(k): to_odata(v) for k, v in m})
        sch = sched.Scheduler()
        _Hooked._sched = sch
        try:
            x = sch.run([lambda s_, n=encode(t1): decode(rw.visit(n)), lambda s_, n=encode(t2): decode(rw.visit(n))], case["choices"])
        finally:
            _Hooked._sched = None
        exp = [refsubst.substitute(t1, dict(m)), refsubst.substitute(t2, dict(m))]
        obs = [x.results[i] for i in (0, 1)]
        return {"trees": case["trees"], "choices": case["choices"], "expected": [to_odata(e) for e in exp],
                "observed": [to_odata(v) if k == "ok" and _printable(v) else repr(v)[:200] for k, v in obs],
                "ok": all(k == "ok" and v == e for (k, v), e in zip(obs, exp))}
    tree = _untuple(case["tree_term"])
    m = tuple((k, v) for k, v in _untuple(case["map_terms"]))
    exp = refsubst.substitute(tree, dict(m))
    got, intact = rewrite(tree, m)
    return {"tree": case["tree"], "map": case["map"], "expected": to_odata(exp), "observed": to_odata(got) if _printable(got) else got,
            "ok": got == exp and intact}
