"""C19 - Whitespace layout and keyword case do not change the meaning of a filter."""
from itertools import combinations, product

from odata_query import ast, exceptions
from odata_query.grammar import ODataLexer, ODataParser
from odata_query.sql import AstToSqlVisitor
from odata_query.sql.athena import AstToAthenaSqlVisitor
from odata_query.sql.sqlite import AstToSqliteSqlVisitor

from checks import C01, C02, C03
from vt import semcheck as SC, sqllex, terms as T, typed
from vt.dbs import django_h
from vt.dbs.domain import colkey
from vt.decode import decode
from vt.refprint import SlotPrinter, render_parts, to_odata
from vt.runner import Acc, chunked

RULE = ("corpus = all typed Bool terms with <=2 constructor nodes over a reduced alphabet + lists, calls (0-3 args, named "
        "parameters), lambdas, every keyword-bearing literal kind. Each filter is printed into parts with slots: required "
        "whitespace (around binary operators, after not) x {' ', '  ', tab, newline, ' \\t\\n'}; optional whitespace (inside "
        "parentheses incl. empty argument lists, around commas, around the lambda colon) x {'', ' ', newline}; keyword/literal "
        "letter case (operators, not, null, true/false, in, any/all, duration/geography prefix, T/Z, exponent e, GUID hex) x "
        "{lower, UPPER, Title}. All single deviations, all double deviations (two alternatives per slot), all combinations when "
        "<=6 slots. Oracle: the variant parses to the same tree with literals compared by value; when a literal's spelling differs "
        "every backend must still give the same result (SQL dialects: same token stream after literal normalisation; SQLite, "
        "Django, SQLAlchemy: same row set on the all-valuations table). non-trivial = distinct variants that differ from the "
        "canonical text.")
ASSUMPTIONS = ["literals are compared by py_val (Geography by its text)", "SQL number tokens are compared by value (1e3 = 1E3); every other SQL token must be identical"]

_lx, _ps = ODataLexer(), ODataParser()
_SP = SlotPrinter()
REQ_ALTS = ["  ", "\t", "\n", " \t\n", " " * 33, "\n" + " " * 32, "\t" * 100, " " * 1000]
OPT_ALTS = ["", " ", "\n", " " * 40, "\n" + " " * 64]


def case_alts(word):
    """UPPER, Title first (used by the double deviations), then every other case assignment of the letters
    (all 2^n masks for words of <= 5 letters, alternating masks beyond)"""
    alts = []
    for f in (str.upper, str.title, str.lower):
        v = f(word)
        if v != word and v not in alts:
            alts.append(v)
    if len(word) <= 5:
        for mask in product((0, 1), repeat=len(word)):
            v = "".join(c.upper() if m else c.lower() for c, m in zip(word, mask))
            if v != word and v not in alts:
                alts.append(v)
    else:
        for start in (0, 1):
            v = "".join(c.upper() if (i + start) % 2 else c.lower() for i, c in enumerate(word))
            if v != word and v not in alts:
                alts.append(v)
    return alts


def literal_alts(kind, text):
    alts = []
    if kind in ("Geography",):
        pre, rest = text.split("'", 1)
        cands = [pre.upper() + "'" + rest, pre.title() + "'" + rest]
    elif kind == "Duration":
        pre, rest = text.split("'", 1)
        cands = [pre.upper() + "'" + rest, pre + "'" + rest.lower(), pre.title() + "'" + rest.lower()]
    elif kind == "GUID":
        cands = []          # hex digits are data, not keyword letters
    else:
        cands = [text.lower(), text.upper()]
    for c in cands:
        if c != text and c not in alts:
            alts.append(c)
    return alts


def slot_alternatives(parts):
    out = {}
    for i, p in enumerate(parts):
        if isinstance(p, str):
            continue
        if p[0] == "R":
            out[i] = list(REQ_ALTS)
        elif p[0] == "O":
            out[i] = [a for a in OPT_ALTS if a != p[1]]
        elif p[0] == "K":
            out[i] = case_alts(p[1])
        elif p[0] == "L":
            out[i] = literal_alts(p[1], p[2])
    return {i: a for i, a in out.items() if a}


def variants(parts, doubles=True):
    alts = slot_alternatives(parts)
    slots = sorted(alts)
    seen = set()
    for i in slots:
        for a in alts[i]:
            yield {i: a}
    if len(slots) <= 6:
        for combo in product(*[[None] + alts[i][:2] for i in slots]):
            ch = {i: a for i, a in zip(slots, combo) if a is not None}
            if len(ch) >= 2:
                yield ch
    elif doubles:
        for i, j in combinations(slots, 2):
            for a in alts[i][:2]:
                for b in alts[j][:2]:
                    yield {i: a, j: b}


def value_dump(node):
    """decode with literals replaced by their value"""
    if isinstance(node, ast.List):
        return ("List",) + tuple(value_dump(v) for v in node.val)
    if isinstance(node, ast.Geography):
        return ("Geography", node.val)
    if isinstance(node, ast._Literal):
        try:
            return (type(node).__name__, repr(node.py_val))
        except Exception as e:  # noqa
            return (type(node).__name__, "py_val raised " + type(e).__name__, node.val)
    if isinstance(node, list):
        return tuple(value_dump(v) for v in node)
    if isinstance(node, ast._Node):
        import dataclasses
        return (type(node).__name__,) + tuple(value_dump(getattr(node, f.name)) for f in dataclasses.fields(node))
    return node


def parse(text):
    return _ps.parse(_lx.tokenize(text))


def norm_sql_tokens(sql):
    import datetime as dt
    import re
    out = []
    for t in sqllex.lex(sql):
        if t.kind == "str":
            v = t.value
            out.append(("str", v))
        elif t.kind == "num":
            try:
                out.append(("num", float(t.value)))
            except ValueError:
                out.append(("num", t.value))
        else:
            out.append((t.kind, t.value if t.kind in ("word", "op") else t.text))
    return out


SQLD = {"standard": AstToSqlVisitor, "sqlite": AstToSqliteSqlVisitor, "athena": AstToAthenaSqlVisitor}


def backend_results(term, text, executable):
    """{backend: comparable result}"""
    res = {}
    tree = parse(text)
    for d, V in SQLD.items():
        try:
            res[d] = ("sql", norm_sql_tokens(V().visit(tree)))
        except exceptions.ODataException as e:
            res[d] = ("lib", type(e).__name__)
        except Exception as e:  # noqa
            res[d] = ("foreign", type(e).__name__)
    if executable:
        cols = colkey(typed.fields_of(term))
        got, _ = C01.run_filter(text, cols)
        res["sqlite-exec"] = _cmp(got)
        res["django"] = _cmp(C02.BK.run(text, cols, None))
        for v in C03.BK.variants:
            res["sa-" + v] = _cmp(C03.BK.run(text, cols, v))
    return res


def _cmp(x):
    if isinstance(x, tuple):
        return ("exc", x[1])
    return ("ids", tuple(sorted(x)))


def check_filter(acc, term, executable, doubles):
    parts = _SP.p(term)
    canon = render_parts(parts)
    acc.count("states")
    try:
        base_tree = parse(canon)
    except Exception as e:  # noqa
        acc.violation("canonical-rejected", {"text": canon, "error": repr(e)[:120]})
        return
    base = value_dump(base_tree)
    base_dec = decode(base_tree)
    base_backends = None
    for ch in variants(parts, doubles):
        text = render_parts(parts, ch)
        if text == canon:
            continue
        acc.count("executions")
        acc.count("transitions")
        acc.count("nontrivial")
        kinds = sorted({parts[i][0] for i in ch})
        try:
            tree = parse(text)
        except exceptions.ODataException as e:
            acc.violation("variant-rejected:%s:%s" % ("+".join(kinds), type(e).__name__),
                          {"canonical": canon, "variant": text, "slots": kinds, "error": str(e)[:120], "check": "ast"})
            continue
        except Exception as e:  # noqa
            acc.violation("variant-foreign-exception:%s" % type(e).__name__, {"canonical": canon, "variant": text, "check": "ast"})
            continue
        if value_dump(tree) != base:
            acc.violation("ast-differs:%s" % "+".join(kinds), {"canonical": canon, "variant": text, "slots": kinds, "expected": base,
                                                              "observed": value_dump(tree), "check": "ast"})
            continue
        acc.outcome(("ast-ok", tuple(kinds)))
        if decode(tree) != base_dec:
            # a literal is spelled differently in the tree: every backend must still agree
            if base_backends is None:
                base_backends = backend_results(term, canon, executable)
            got = backend_results(term, text, executable)
            acc.count("backend_comparisons")
            for b, r in got.items():
                if r != base_backends[b]:
                    acc.violation("backend-differs:%s:%s" % (b, "+".join(sorted({parts[i][1] for i in ch if parts[i][0] == "L"} | {"K" for i in ch if parts[i][0] == "K"}))),
                                  {"canonical": canon, "variant": text, "backend": b, "expected": _short(base_backends[b]), "observed": _short(r), "check": "backend",
                                   "term": term})


def _short(r):
    return [r[0], list(r[1])[:12] if isinstance(r[1], (list, tuple)) else r[1]]


def corpus(deep=False):
    cap = {"neg": False, "null_left": True, "second": False, "bare_bool": False, "indexof": False, "concat": False, "floor": False, "ceiling": False,
           "date": False}
    en = typed.Enumerator(SC.reduced_sigs(typed.signatures(cap)), typed.leaves_for(cap, SC.REDUCED_LEAVES))
    out = []
    for k in (1, 2, 3) if deep else (1, 2):
        for i, t in enumerate(en.terms(typed.B, k)):
            if k == 3 and i % 7:
                continue        # every 7th three-constructor term: layouts are context-free, the deeper terms add nesting variety
            out.append((t, True))
    n, s, d = typed.F("n"), typed.F("s"), typed.F("d")
    extras = [
        T.binop("In", n, T.lst(T.Int(1), T.Int(2), T.Int(3))), T.binop("In", s, T.lst(T.Str("a"))), T.binop("Eq", d, T.call("now")),
        T.binop("Eq", T.call("substring", s, T.Int(0), T.Int(1)), T.Str("a")), T.binop("Eq", T.call("f", T.named("p", T.Int(1)), T.named("q", s), ns=("ns",)), T.Int(1)),
        T.binop("Eq", T.call("f", ns=("ns",)), T.Int(1)), T.lam(T.I("xs"), "Any"), T.lam(T.I("xs"), "Any", "x", T.binop("Gt", T.path("x", "p"), T.Int(1))),
        T.lam(T.path("a", "xs"), "All", "x", T.binop("And", T.binop("Eq", T.path("x", "p"), T.NULL), T.unop("Not", T.binop("Eq", T.path("x", "q"), T.Bool(False))))),
        T.binop("Eq", T.I("f"), T.Flt("1.5e3")), T.binop("Eq", T.I("f"), T.Flt("2E-2")), T.binop("Eq", T.I("g"), ("GUID", "a7af27e6-f5a0-11e9-9649-0a252986adba")),
        T.binop("Gt", d, T.binop("Sub", T.call("now"), ("Duration", "P1DT2H3M4.5S"))), T.binop("Lt", d, T.binop("Add", d, ("Duration", "-P1Y2M"))),
        T.binop("Eq", T.I("geo"), ("Geography", "POINT(1 2)")), T.binop("Eq", T.call("time", d), ("Time", "10:30:00")),
        T.binop("Eq", T.call("date", d), ("Date", "2020-02-29")), T.binop("Gt", d, typed.dtlit("2020-02-29T10:30:00+01:00")),
        T.binop("Gt", d, typed.dtlit("2020-02-29T10:30Z")), T.binop("Or", T.binop("Eq", T.unop("USub", n), T.Int(1)), T.unop("Not", T.binop("Eq", n, T.NULL))),
        T.binop("Eq", T.lst(T.Int(1)), T.lst(T.Int(1), T.lst(T.Int(2), T.Int(3)))),
    ]
    out += [(t, False) for t in extras]
    # literals whose CONTENT is layout: blanks, tabs, newlines inside a string / geography body belong to the value, whatever the
    # layout around them is
    for body in ("a  b", "a\tb", " a ", "a\nb", "a \n  b", "x  eq  y", "  ", "\t", "a\u00a0 b"):
        out += [(t, False) for t in (T.binop("Eq", s, T.Str(body)), T.binop("In", s, T.lst(T.Str(body), T.Str("k"))), T.call("contains", s, T.Str(body)),
                                     T.lam(T.I("xs"), "Any", "x", T.binop("Eq", T.path("x", "p"), T.Str(body))))]
    out += [(T.binop("Eq", T.I("geo"), ("Geography", gb)), False) for gb in ("POINT(1  2)", "POINT(1\t2)", "SRID=4326;POINT(1   2)")]
    b = typed.F("b")
    boolean_extras = [
        T.binop("Eq", b, T.Bool(True)), T.binop("Eq", T.Bool(True), b), T.binop("NotEq", b, T.Bool(False)), T.binop("Eq", T.call("contains", s, T.Str("a")), T.Bool(True)),
        T.unop("Not", T.binop("Eq", b, T.Bool(True))), T.binop("And", T.binop("Eq", b, T.Bool(True)), T.binop("Eq", n, T.NULL)),
        T.binop("Or", T.binop("Eq", b, T.Bool(False)), T.binop("Eq", T.Bool(True), T.call("startswith", s, T.Str("a")))), T.binop("Eq", b, T.NULL),
        T.binop("In", b, T.lst(T.Bool(True))), T.binop("In", b, T.lst(T.Bool(False), T.Bool(True))),
    ]
    out += [(t, True) for t in boolean_extras]
    # fields, path segments and lambda variables spelled like an infix operator keyword: each is an accepted filter when written without
    # optional blanks, so every layout of it must be accepted too
    one = T.Int(1)
    for kw in ("add", "sub", "mul", "div", "mod", "and", "or", "eq", "ne", "lt", "le", "gt", "ge", "in", "IN", "Eq", "has", "any", "all"):
        k = T.I(kw)
        out += [(t, False) for t in (
            T.binop("Eq", k, one), T.binop("Eq", one, k), T.binop("Eq", T.unop("USub", k), one), T.unop("Not", T.binop("Eq", k, one)),
            T.lst(one, T.binop("Eq", k, one)), T.lst(T.binop("Eq", k, one), k), T.lam(T.I("xs"), "Any", "x", T.binop("Eq", k, T.path("x", "p"))),
            T.lam(T.I("xs"), "All", kw, T.binop("Eq", T.path(kw, "p"), one)), T.binop("Eq", T.call("f", one, T.binop("Eq", k, one), ns=("ns",)), one),
            T.binop("In", k, T.lst(k, k)), T.binop("Eq", T.path("a", kw), one), T.binop("And", T.binop("Eq", T.path(kw, "b"), k), T.binop("Eq", k, k)),
            T.binop("Eq", T.call("f", T.named("p", T.binop("Eq", k, one)), ns=("ns",)), one))]
    return out


def _unit(unit):
    items, doubles = unit
    django_h.setup()
    SC.init_now()
    acc = Acc()
    for term, executable in items:
        check_filter(acc, term, executable, doubles)
    if items:
        parts = _SP.p(items[0][0])
        ch = next(iter(variants(parts)), {})
        acc.sample({"canonical": render_parts(parts), "variant": render_parts(parts, ch)}, cap=1)
    return acc


# ---------------------------------------------------------------- names that are keywords elsewhere: explicit optional-blank slots
# \u00a7 marks a position where the grammar allows optional whitespace (inside parentheses, around commas and the lambda colon)
RAW_TEMPLATES = ["(\u00a7{N}\u00a7) eq 1", "x in (\u00a7{N}\u00a7,\u00a71\u00a7)", "x in (1\u00a7,\u00a7{N}\u00a7)", "length(\u00a7{N}\u00a7) eq 1", "(a eq {N}\u00a7)", "(\u00a7{N} eq a)",
                 "xs/any(\u00a7{N}\u00a7:\u00a7{N}/p eq 1\u00a7)", "ns.f(\u00a7{N}\u00a7,\u00a7{N}\u00a7)", "ns.f(p={N}\u00a7,\u00a7q=1)", "(\u00a7{N}\u00a7,\u00a7) eq (1,)", "not (\u00a7{N}\u00a7)"]
RAW_NAMES = ["not", "NOT", "Not", "in", "and", "or", "eq", "add", "any", "all", "fal\u017fe", "\u017fub"]


def _raw_unit(items):
    acc = Acc()
    for tpl, name in items:
        parts = tpl.replace("{N}", name).split("\u00a7")
        k = len(parts) - 1
        base_text = "".join(parts)
        acc.count("states")
        try:
            base = value_dump(parse(base_text))
        except exceptions.ODataException:
            acc.count("raw_base_rejected")      # not an accepted filter: outside the quantifier
            continue
        for mask in range(1, 2 ** k):
            for fill in (" ", "\t", "  \n"):
                text = parts[0] + "".join((fill if mask >> i & 1 else "") + parts[i + 1] for i in range(k))
                acc.count("executions")
                acc.count("transitions")
                acc.count("nontrivial")
                try:
                    got = value_dump(parse(text))
                except exceptions.ODataException as e:
                    acc.violation("raw-variant-rejected:%s" % type(e).__name__, {"canonical": base_text, "variant": text, "check": "raw", "error": str(e)[:120]})
                    break
                except Exception as e:  # noqa
                    acc.violation("raw-variant-foreign-exception:%s" % type(e).__name__, {"canonical": base_text, "variant": text, "check": "raw"})
                    break
                if got != base:
                    acc.violation("raw-ast-differs", {"canonical": base_text, "variant": text, "check": "raw", "expected": base, "observed": got})
                    break
                acc.outcome(("raw-ok",))
            else:
                continue
            break
    return acc


def run(ctx):
    django_h.setup()
    SC.init_now()
    corp = corpus(deep=not ctx.quick)
    if ctx.quick:
        # fixed core: every k=1 term and all extras; k=2 terms: block VERIF_SEED mod 4, single deviations + doubles
        k1 = [c for c in corp if sum(1 for _ in typed.value_subterms(c[0])) <= 4 or not c[1] or any(st[0] == "Boolean" for st in typed.value_subterms(c[0]))]
        rest = [c for c in corp if c not in k1]
        B = 4
        chosen = k1 + [c for i, c in enumerate(rest) if i % B == ctx.seed % B]
    else:
        chosen = corp
    ctx.pmap(_unit, [(c, True) for c in chunked(chosen, max(1, len(chosen) // 96 + 1))])
    ctx.layer("layouts-and-case", filters=len(chosen), corpus=len(corp), exhaustive=not ctx.quick,
              backend_comparisons=int(ctx.counts["backend_comparisons"]),
              note="quick: small terms + extras + block VERIF_SEED mod 4 of the k=2 corpus; thorough: whole corpus")
    raw = [(tpl, nm) for tpl in RAW_TEMPLATES for nm in RAW_NAMES]
    ctx.pmap(_raw_unit, [raw[i::16] for i in range(16)])
    ctx.layer("keyword-named-fields-optional-blanks", templates=len(RAW_TEMPLATES), names=len(RAW_NAMES), exhaustive=True,
              note="fields, parameters and lambda variables called like a keyword: every subset of the optional-blank slots filled with blank / tab / blanks+newline")


def _untuple(v):
    return tuple(_untuple(e) for e in v) if isinstance(v, list) else v


def replay(ctx, case):
    django_h.setup()
    SC.init_now()
    a, b = parse(case["canonical"]), None
    try:
        b = parse(case["variant"])
    except Exception as e:  # noqa
        return {"canonical": case["canonical"], "variant": case["variant"], "error": repr(e)[:200], "ok": False}
    if case["check"] in ("ast", "raw"):
        return {"canonical": case["canonical"], "variant": case["variant"], "ok": value_dump(a) == value_dump(b)}
    term = _untuple(case["term"])
    ex = "sql" not in case["backend"] or case["backend"] == "sqlite-exec"
    ra, rb = backend_results(term, case["canonical"], ex), backend_results(term, case["variant"], ex)
    return {"backend": case["backend"], "expected": _short(ra[case["backend"]]), "observed": _short(rb[case["backend"]]),
            "ok": ra[case["backend"]] == rb[case["backend"]]}
