"""C16 - Visitor and transformer base classes traverse completely and never mutate."""
import dataclasses
import inspect
from itertools import product

from odata_query import ast, visitor
from odata_query.rewrite import AliasRewriter, IdentifierStripper
from odata_query.roundtrip import AstToODataVisitor
from odata_query.sql import AstToSqlVisitor
from odata_query.sql.athena import AstToAthenaSqlVisitor
from odata_query.sql.sqlite import AstToSqliteSqlVisitor

from vt import refsubst, terms as T
from vt.decode import decode, encode
from vt.runner import Acc, chunked

RULE = ("all ASTs with <=2 composite nodes built directly from the dataclasses: every composite class (Attribute, List, BinOp, "
        "Compare, BoolOp, UnaryOp, NamedParam, Call, Lambda, CollectionLambda) with every node-typed field filled by every leaf "
        "class (Identifier, 11 literal kinds) and by every composite class, list fields of length 0..3 incl. nested List nodes, "
        "optional lambda present/absent. Per tree: NodeVisitor must visit exactly R-SUBST's depth-first field-order sequence, each "
        "node once, dispatching to visit_<Class>; NodeTransformer() returns an equal tree; for each class K a transformer "
        "overriding only visit_K changes exactly the K nodes; every shipped visitor (3 SQL, round-trip, Django, SQLAlchemy ORM/Core, "
        "AliasRewriter, IdentifierStripper) leaves the structural dump of its input unchanged. All pairs: t1 == t2 iff the dumps are "
        "equal. non-trivial = distinct trees with >=1 composite node.")
ASSUMPTIONS = ["R-SUBST traversal: dataclass field order, list items in order, non-node values skipped"]

a, b, one = T.I("a"), T.I("b", ("ns",)), T.Int(1)
LEAF_NODES = [a, b, T.NULL, one, T.Flt("1.5"), T.Bool(True), T.Str("s"), ("Geography", "POINT(1 2)"), ("Date", "2020-02-29"),
              ("Time", "10:30:00"), ("DateTime", "2020-02-29T10:30:00Z"), ("Duration", "P1D"), ("GUID", "123e4567-e89b-12d3-a456-426614174000")]
DEFAULT = [a, one, T.Str("s")]


def composites(fill):
    """all one-level composite nodes whose node-typed slots are filled from `fill` (list of terms)"""
    out = []
    for x in fill:
        out.append(("Attribute", x, "attr"))
        out.append(("UnaryOp", ("Not",), x))
        out.append(("UnaryOp", ("USub",), x))
        out.append(("NamedParam", T.I("p"), x))
        out.append(("Lambda", T.I("v"), x))
        out.append(("CollectionLambda", x, ("Any",), None))
        out.append(("CollectionLambda", T.I("xs"), ("All",), ("Lambda", T.I("v"), x)))
        out.append(("List", ("[]", x)))
        out.append(("Call", T.I("f", ("ns",)), ("[]", x)))
    for x, y in product(fill, fill[:4]):
        out.append(("BinOp", ("Add",), x, y))
        out.append(("BinOp", ("Mod",), y, x))
        out.append(("Compare", ("Eq",), x, y))
        out.append(("Compare", ("In",), y, ("List", ("[]", x, y))))
        out.append(("BoolOp", ("And",), x, y))
        out.append(("BoolOp", ("Or",), y, x))
        out.append(("List", ("[]", x, y)))
        out.append(("List", ("[]", x, y, x)))
        out.append(("Call", T.I("concat"), ("[]", x, y)))
        out.append(("Call", T.I("substring"), ("[]", x, y, y)))
    out.append(("List", ("[]",)))
    out.append(("Call", T.I("now"), ("[]",)))
    out.append(("List", ("[]", ("List", ("[]", one, a)), ("List", ("[]",)))))
    seen, uniq = set(), []
    for t in out:
        if t not in seen:
            seen.add(t)
            uniq.append(t)
    return uniq


def named_builtin_trees():
    s_ = T.I("title")
    sub1 = ("Call", T.I("substring"), ("[]", ("NamedParam", T.I("fullstr"), s_), ("NamedParam", T.I("index"), one)))
    sub2 = ("Call", T.I("substring"), ("[]", ("NamedParam", T.I("index"), one), ("NamedParam", T.I("fullstr"), s_)))
    cat = ("Call", T.I("concat"), ("[]", ("NamedParam", T.I("a"), s_), ("NamedParam", T.I("b"), T.Str("x"))))
    out = []
    for c in (sub1, sub2, cat):
        out += [("Compare", ("Eq",), ("Call", T.I("length"), ("[]", c)), one), ("Call", T.I("contains"), ("[]", c, T.Str("b"))), ("Compare", ("Eq",), c, T.Str("b")),
                ("Call", T.I("contains"), ("[]", ("Call", T.I("tolower"), ("[]", c)), c)), ("Compare", ("Eq",), ("Call", T.I("concat"), ("[]", c, c)), T.Str("b"))]
    return out


# spellings that denote the same value but are different trees (equality is structural: the spelling is part of the node)
SAME_VALUE_LEAVES = [("DateTime", "2020-02-29T10:30:00+00:00"), ("DateTime", "2020-02-29T10:30:00.000Z"), ("DateTime", "2020-02-29T10:30Z"), ("DateTime", "2020-02-29T11:30:00+01:00"),
                     ("DateTime", "2019-02-31T00:00:00"), ("Duration", "PT24H"), ("Duration", "P1DT0S"), ("Integer", "01"), ("Integer", "+1"), ("Float", "1.50"), ("Float", "15e-1"),
                     ("Boolean", "TRUE"), ("Boolean", "True"), ("GUID", "123E4567-E89B-12D3-A456-426614174000"), ("Time", "10:30:00.0"), ("Date", "2019-02-31"), ("String", "S")]


# trees that differ ONLY in a qualifier (identifier, function, parameter, lambda variable, path root) and strings whose VALUE contains
# quotes (one, two adjacent, only quotes): rebuilding a node must not re-interpret its value
QUALIFIER_LEAVES = [T.I("a", ("ns",)), T.I("a", ("m",)), T.I("a", ("ns", "m")), T.I("a", ("m", "ns")), T.I("b"), T.I("b", ("ns", "ns"))]
_Q = chr(39)
QUOTE_STRINGS = [T.Str("a" + _Q * 2 + "b"), T.Str(_Q * 2), T.Str("it" + _Q * 2 + "s"), T.Str(_Q), T.Str("a" + _Q + "b"), T.Str(_Q * 4), T.Str(_Q * 3), T.Str("")]


def qualifier_trees():
    out = list(QUALIFIER_LEAVES) + list(QUOTE_STRINGS)
    for q in (("()",), ("()", "geo"), ("()", "ns"), ("()", "ns", "geo")):
        out.append(("Call", ("Identifier", "length", q), ("[]", a)))
        out.append(("NamedParam", ("Identifier", "p", q), one))
        out.append(("CollectionLambda", T.I("xs"), ("Any",), ("Lambda", ("Identifier", "v", q), ("Compare", ("Eq",), ("Attribute", ("Identifier", "v", q), "p"), one))))
        out.append(("Attribute", ("Identifier", "a", q), "attr"))
        out.append(("Compare", ("In",), ("Identifier", "a", q), ("List", ("[]", ("Identifier", "a", q), a))))
    for st in QUOTE_STRINGS:
        out += [("Compare", ("Eq",), a, st), ("Call", T.I("concat"), ("[]", st, st)), ("List", ("[]", st, one)), ("NamedParam", T.I("p"), st),
                ("CollectionLambda", T.I("xs"), ("All",), ("Lambda", T.I("v"), ("Compare", ("Eq",), ("Attribute", T.I("v"), "p"), st)))]
    return out


def all_trees(full):
    level1 = composites(LEAF_NODES) + named_builtin_trees() + SAME_VALUE_LEAVES + [("Compare", ("Eq",), a, l) for l in SAME_VALUE_LEAVES] + qualifier_trees()
    inner = composites(DEFAULT)
    level2 = composites(inner if full else inner[::3])
    seen, out = set(), []
    for t in LEAF_NODES + level1 + level2:
        if t not in seen:
            seen.add(t)
            out.append(t)
    return out


NODE_CLASSES = [c for n, c in inspect.getmembers(ast, inspect.isclass)
                if issubclass(c, ast._Node) and dataclasses.is_dataclass(c) and not n.startswith("_")]


class Recorder(visitor.NodeVisitor):
    def __init__(self):
        self.seen = []

    def visit(self, node):
        self.seen.append(node)
        return super().visit(node)


def make_dispatch_recorder():
    log = []

    def mk(cname):
        def handler(self, node):
            log.append((cname, type(node).__name__))
            return visitor.NodeVisitor.generic_visit(self, node)
        return handler
    attrs = {"visit_" + c.__name__: mk(c.__name__) for c in NODE_CLASSES}
    cls = type("DispatchRecorder", (visitor.NodeVisitor,), attrs)
    return cls(), log


def make_k_transformer(cname):
    def handler(self, node):
        return ast.Identifier("__" + cname + "__")
    return type("Only" + cname, (visitor.NodeTransformer,), {"visit_" + cname: handler})()


def ref_replace(t, cname):
    if t is None or isinstance(t, str):
        return t
    if t[0] == "[]":
        return ("[]",) + tuple(ref_replace(e, cname) for e in t[1:])
    if t[0] == "()":
        return t
    if t[0] == cname:
        return T.I("__" + cname + "__")
    return (t[0],) + tuple(ref_replace(f, cname) if isinstance(f, tuple) else f for f in t[1:])


_SHIPPED = None


def shipped():
    global _SHIPPED
    if _SHIPPED is None:
        vs = [("sql", lambda: AstToSqlVisitor()), ("sqlite", lambda: AstToSqliteSqlVisitor("al")), ("athena", lambda: AstToAthenaSqlVisitor()),
              ("roundtrip", lambda: AstToODataVisitor()), ("alias", lambda: AliasRewriter({"a": "c/d", "xs": "ys", "v": "w"})),
              ("stripper", lambda: IdentifierStripper(ast.Identifier("a")))]
        try:
            from vt.dbs import django_h
            django_h.setup()
            from odata_query.django.django_q import AstToDjangoQVisitor
            M = django_h.relational_models()
            vs.append(("django", lambda: AstToDjangoQVisitor(M.Post)))
        except Exception as e:  # noqa
            raise
        from vt.dbs import sa_h
        from odata_query.sqlalchemy import AstToSqlAlchemyCoreVisitor, AstToSqlAlchemyOrmVisitor
        R = sa_h.relational()
        vs.append(("sa-orm", lambda: AstToSqlAlchemyOrmVisitor(R["Post"])))
        vs.append(("sa-core", lambda: AstToSqlAlchemyCoreVisitor(R["Post"].__table__)))
        _SHIPPED = vs
    return _SHIPPED


def check_tree(acc, t):
    acc.count("states")
    if t[0] not in [x[0] for x in LEAF_NODES] or len(t) > 3:
        acc.count("nontrivial")
    node = encode(t)
    dump0 = decode(node)
    if dump0 != t:
        # building the nodes from their field values (what NodeTransformer does for every node) must give a tree with those values
        acc.violation("constructor-changed-fields:" + t[0], {"tree": t, "observed": dump0, "check": "construct"})
        return
    # (a) traversal
    rec = Recorder()
    rec.visit(node)
    acc.count("executions")
    acc.count("transitions", len(rec.seen))
    got_seq = [decode(n) for n in rec.seen]
    exp_seq = refsubst.traversal(t)
    if got_seq != exp_seq:
        acc.violation("traversal-order:" + t[0], {"tree": t, "expected": [s[0] for s in exp_seq], "observed": [s[0] for s in got_seq], "check": "traversal"})
    elif len({id(n) for n in rec.seen}) != len(rec.seen):
        acc.violation("visited-twice:" + t[0], {"tree": t, "check": "traversal"})
    # (b) dispatch
    disp, log = make_dispatch_recorder()
    disp.visit(node)
    acc.count("executions")
    if [h for h, _ in log] != [s[0] for s in exp_seq] or any(h != c for h, c in log):
        acc.violation("dispatch:" + t[0], {"tree": t, "expected": [s[0] for s in exp_seq], "observed": log[:20], "check": "dispatch"})
    # (c) identity transformer
    out = visitor.NodeTransformer().visit(node)
    acc.count("executions")
    same = node_eq(out, node)
    if decode(out) != t or same is not True:
        acc.violation("identity-transformer:" + t[0], {"tree": t, "observed": decode(out), "equal": same, "check": "identity"})
    if decode(node) != dump0:
        acc.violation("identity-transformer-mutated-input:" + t[0], {"tree": t, "check": "identity"})
    # (d) single-kind overrides
    present = {s[0] for s in exp_seq}
    for c in NODE_CLASSES:
        cname = c.__name__
        if cname not in present and cname not in ("Identifier", "Integer", "List", "Call"):
            continue
        out = make_k_transformer(cname).visit(node)
        acc.count("executions")
        exp = ref_replace(t, cname)
        if decode(out) != exp:
            acc.violation("override:%s:%s" % (cname, t[0]), {"tree": t, "override": cname, "expected": exp, "observed": decode(out), "check": "override"})
        if decode(node) != dump0:
            acc.violation("override-mutated-input:%s" % cname, {"tree": t, "override": cname, "check": "override"})
            node = encode(t)
    # (d') handlers that recurse into freshly built temporaries
    out = make_rebuilding_transformer().visit(node)
    acc.count("executions")
    if decode(out) != t:
        acc.violation("rebuilding-transformer:" + t[0], {"tree": t, "expected": t, "observed": decode(out), "check": "rebuild"})
    # (e) shipped visitors never mutate their input
    for name, mk in shipped():
        try:
            mk().visit(node)
            acc.outcome((name, "ok"))
        except Exception as e:  # noqa
            acc.outcome((name, type(e).__name__))
        acc.count("executions")
        if decode(node) != dump0:
            acc.violation("shipped-visitor-mutated-input:%s:%s" % (name, t[0]), {"tree": t, "visitor": name, "observed": decode(node), "check": "shipped"})
            node = encode(t)


def make_rebuilding_transformer():
    """every handler hands a freshly built, short-lived COPY of its node to generic_visit (as a rewrite rule that builds a
    replacement and recurses into it would): the result must still equal the input (object identity must not matter)"""
    import dataclasses

    def mk(cname):
        def handler(self, node):
            copy = type(node)(**{f.name: (list(getattr(node, f.name)) if isinstance(getattr(node, f.name), list) else getattr(node, f.name))
                                 for f in dataclasses.fields(node)})
            return visitor.NodeTransformer.generic_visit(self, copy)      # `copy` is a temporary that dies right after this call
        return handler
    attrs = {"visit_" + c.__name__: mk(c.__name__) for c in NODE_CLASSES
             if c.__name__ in ("BinOp", "Compare", "BoolOp", "UnaryOp", "Call", "List", "Attribute", "NamedParam", "CollectionLambda", "Lambda")}
    return type("Rebuilder", (visitor.NodeTransformer,), attrs)()


class LateVisitor(visitor.NodeVisitor):
    """no handlers in the class body: they are attached later, to the instance (as tests/unit/test_visitor.py does with mocks)"""


def check_late_handlers(acc, t):
    node = encode(t)
    kinds = []
    for n in refsubst.traversal(t):
        if n[0] not in kinds:
            kinds.append(n[0])
    v = LateVisitor()
    v.visit(node)                      # first walk: nothing attached, everything goes through generic_visit
    for kind in kinds:
        calls = []
        inst = LateVisitor()
        inst.visit(node)
        setattr(inst, "visit_" + kind, lambda n_, calls=calls, inst=inst: (calls.append(type(n_).__name__), visitor.NodeVisitor.generic_visit(inst, n_))[1])
        inst.visit(node)
        acc.count("executions")
        exp = [k for k in (x[0] for x in refsubst.traversal(t)) if k == kind]
        if calls != exp:
            acc.violation("late-handler-ignored:" + kind, {"tree": t, "check": "late-handler", "kind": kind, "expected_calls": len(exp), "observed_calls": len(calls)})
        # the same for a transformer
        tr = visitor.NodeTransformer()
        tr.visit(node)
        setattr(tr, "visit_" + kind, lambda n_, kind=kind: ast.Identifier("__" + kind + "__"))
        out = tr.visit(node)
        acc.count("executions")
        if decode(out) != ref_replace(t, kind):
            acc.violation("late-override-ignored:" + kind, {"tree": t, "check": "late-handler", "kind": kind, "expected": ref_replace(t, kind), "observed": decode(out)})


def node_eq(a, b):
    """structural equality of two trees; comparing trees never raises (an exception counts as "not equal" and is reported)"""
    try:
        return bool(a == b)
    except Exception as e:  # noqa
        return ("EXC", type(e).__name__)


def _unit(trees):
    acc = Acc()
    for i, t in enumerate(trees):
        check_tree(acc, t)
        if i % 4 == 0:
            check_late_handlers(acc, t)
    acc.sample({"tree": trees[0]}, cap=1)
    return acc


def _pairs_unit(unit):
    lo, hi = unit
    acc = Acc()
    trees = _TREES
    nodes = _NODES
    for i in range(lo, hi):
        ni, ti = nodes[i], trees[i]
        for j in range(len(trees)):
            eq = node_eq(ni, nodes[j])
            acc.count("pairs")
            if eq != (ti == trees[j]):
                acc.violation("equality:%s:%s" % (ti[0], trees[j][0]), {"left": ti, "right": trees[j], "eq": eq, "check": "equality"})
        # an equal-by-value copy must be equal and hash equally where hashable
        if node_eq(ni, encode(ti)) is not True:
            acc.violation("equality-copy:%s" % ti[0], {"left": ti, "right": ti, "eq": False, "check": "equality"})
    acc.count("executions", (hi - lo) * len(trees))
    return acc


_TREES = []
_NODES = []


def _after_ops():
    return [("identity-transformer", lambda n: decode(visitor.NodeTransformer().visit(n))),
            ("traversal", lambda n: [type(x).__name__ for x in _recorded(n)]),
            ("override:Identifier", lambda n: decode(make_k_transformer("Identifier").visit(n))),
            ("alias", lambda n: decode(AliasRewriter({"a": "c/d", "zz": "y"}).visit(n))),
            ("stripper", lambda n: decode(IdentifierStripper(ast.Identifier("a")).visit(n))),
            ("roundtrip", lambda n: AstToODataVisitor().visit(n)),
            ("equality", lambda n: n == encode(decode(n)))]


def _recorded(n):
    rec = Recorder()
    rec.visit(n)
    return rec.seen


def _run_op(fn, n):
    try:
        return ("ok", fn(n))
    except Exception as e:  # noqa
        return ("exc", type(e).__name__)


def check_shared_tree(acc, t):
    """operation pairs on ONE tree object: after a shipped visitor has translated the tree, every base-class operation on the same
    object must behave as on a fresh copy (a translation must not leave anything behind in the nodes it was given)"""
    ops = _after_ops()
    fresh = {name: _run_op(fn, encode(t)) for name, fn in ops}
    for vname, mk in shipped():
        node = encode(t)
        try:
            mk().visit(node)
        except Exception:  # noqa
            pass
        for name, fn in ops:
            acc.count("executions")
            acc.count("transitions")
            got = _run_op(fn, node)
            if got != fresh[name]:
                acc.violation("shared-tree:%s-then-%s" % (vname if vname in ("django", "sa-orm", "sa-core") else "visitor", name),
                              {"tree": t, "first": vname, "then": name, "expected": fresh[name], "observed": got, "check": "shared-tree"})
                break
        else:
            acc.outcome(("shared-tree-ok", vname))


def _shared_unit(trees):
    acc = Acc()
    for t in trees:
        acc.count("states")
        check_shared_tree(acc, t)
    return acc


def run(ctx):
    global _TREES, _NODES
    trees = all_trees(full=not ctx.quick)
    shipped()
    ctx.pmap(_unit, list(chunked(trees, max(1, len(trees) // 64 + 1))))
    ctx.layer("trees", trees=len(trees), node_classes=len(NODE_CLASSES), shipped_visitors=len(shipped()), exhaustive=True)
    st = trees if not ctx.quick else trees[::3]
    ctx.pmap(_shared_unit, list(chunked(st, max(1, len(st) // 64 + 1))))
    ctx.layer("shared-tree-histories", trees=len(st), first_operations=len(shipped()), then_operations=len(_after_ops()), exhaustive=True,
              note="every shipped visitor, then every base-class operation, on one tree object; compared with the operation on a fresh copy")
    sub = trees if not ctx.quick else trees[::2]
    if ctx.quick:       # the literal spellings (and their comparisons) are always part of the pairs
        must = LEAF_NODES + SAME_VALUE_LEAVES + [("Compare", ("Eq",), a, l) for l in SAME_VALUE_LEAVES + LEAF_NODES[2:]] + qualifier_trees()
        sub = sub + [t for t in must if t not in set(sub)]
    _TREES = sub
    _NODES = [encode(t) for t in sub]
    step = max(1, len(sub) // 64 + 1)
    ctx.pmap(_pairs_unit, [(i, min(i + step, len(sub))) for i in range(0, len(sub), step)])
    ctx.layer("equality-all-pairs", trees=len(sub), pairs=int(ctx.counts["pairs"]), exhaustive=True)


def _untuple(v):
    return tuple(_untuple(e) for e in v) if isinstance(v, list) else v


def replay(ctx, case):
    acc = Acc()
    if case["check"] == "equality":
        l, r = _untuple(case["left"]), _untuple(case["right"])
        eq = encode(l) == encode(r)
        return {"left": l, "right": r, "eq": eq, "ok": eq == (l == r)}
    if case["check"] == "shared-tree":
        shipped()
        check_shared_tree(acc, _untuple(case["tree"]))
        return {"tree": case["tree"], "violations": acc.violations, "ok": not acc.violations}
    check_tree(acc, _untuple(case["tree"]))
    check_late_handlers(acc, _untuple(case["tree"]))
    return {"tree": case["tree"], "violations": acc.violations, "ok": not acc.violations}
