"""C02 - Django apply_odata_query returns exactly the objects the filter denotes."""
from odata_query import exceptions

from vt import semcheck as SC, typed, terms as T
from vt.dbs import django_h
from vt.runner import Acc

RULE = ("all typed Bool terms with <=k constructor nodes over the Django capability table (no unary minus; adds matchesPattern, "
        "second, time; literal-on-the-left and field-to-field comparisons; boolean fields/literals only as comparison operands), "
        "printed minimally and fully parenthesised, applied through odata_query.django.apply_odata_query to a Django model backed "
        "by in-memory SQLite that holds every valuation of the referenced columns; returned ids must equal the rows R-EVAL makes "
        "true. Plus every string of length <=2 over {a,A,%,_,',\\\\,space} in every string-literal position. non-trivial = distinct "
        "filters whose truth vector is not constant.")
ASSUMPTIONS = ["R-EVAL reference semantics (DESIGN.md Appendix B)", "Django 6.1 ORM + SQLite 3.40 with case_sensitive_like=ON, USE_TZ=True/UTC",
               "Django's Concat coalesces NULL to '' by design: concat with a null operand is a don't-care (section 2.7)"]


class Django(SC.Backend):
    name = "django"
    cap = {"neg": False, "null_left": True, "matchesPattern": True, "second": True, "time": True, "bare_bool": False, "bare_bool_in_logic": False, "boolcmp": "restricted",
           "indexof": True, "concat": True, "literal_haystack": True}
    defect_models = []
    variants = ["shorthand"]

    def run(self, text, cols, variant):
        from odata_query.django import apply_odata_query
        M, rows = django_h.scalar_model(cols)
        try:
            return set(apply_odata_query(M.objects.all(), text).values_list("id", flat=True))
        except Exception as e:  # noqa
            return ("EXC", type(e).__name__, str(e)[:200])


BK = Django()


FINDING_STRADD = "django:string-add-not-concatenation"


def _string_add_unit(terms):
    """`add` between strings. A wrong answer is attributed to the catalogued finding only when the SAME filter with every string `add`
    written as concat(...) is answered correctly - anything else wrong with it stays a violation."""
    django_h.setup()
    SC.init_now()
    from vt.refprint import to_odata
    from vt.dbs.domain import colkey
    acc = Acc()

    def as_concat(t):
        return T.replace(t, lambda n: T.call("concat", n[2], n[3]) if n[0] == "BinOp" and n[1][0] == "Add" else n)
    for term in terms:
        cols = colkey(typed.fields_of(term))
        acc.count("states")
        text = to_odata(term)
        got = BK.run(text, cols, "shorthand")
        if isinstance(got, tuple) and got[1] in SC.LIB_REFUSALS:
            acc.count("executions")
            acc.outcome(("string-add", "refused"))
            continue
        sub = Acc()
        if SC.judge(sub, BK.name, term, text, cols, got, [], {"layer": "string-add", "variant": "shorthand", "cols": list(cols)}):
            acc.count("executions")
            acc.outcome(("string-add", "right"))
            continue
        t2 = as_concat(term)
        sub2 = Acc()
        ok2 = SC.judge(sub2, BK.name, t2, to_odata(t2), cols, BK.run(to_odata(t2), cols, "shorthand"), [], {})
        for v in sub.violations:
            acc.violation(v["cls"], v["case"], finding=FINDING_STRADD if ok2 else None)
        acc.count("executions")
    return acc


def run(ctx):
    SC.init_now()
    django_h.setup()
    n = SC.generic_layer(ctx, BK, "full", 0) + SC.generic_layer(ctx, BK, "full", 1) + SC.generic_layer(ctx, BK, "full", 2)
    ctx.layer("full-alphabet", k_max=2, filters=n, exhaustive=True)
    nrf = SC.refusable_layer(ctx, BK)
    ctx.layer("logic-as-comparison-operand", filters=nrf, exhaustive=True,
              note="and/or/not as an operand of eq / ne / a null test: refused with a library exception, or answered with the right rows")
    sat = SC.string_add_terms()
    ctx.pmap(_string_add_unit, [sat[i::16] for i in range(16)])
    nsa = len(sat)
    ctx.layer("string-add", filters=nsa, exhaustive=True, note="concatenation through `add` (not commutative): every ordered pair of {field, field, literal, literal, empty literal}, nested on either side; refused or right")
    nb = SC.boolean_operand_layer(ctx, BK)
    ctx.layer("boolean-operands", filters=nb, exhaustive=True,
              note="eq/ne between every ordered pair of boolean-valued lookups (comparisons, boolean functions, null tests, in-tests, the boolean field, literals), alone, negated and beside another clause; the bare boolean field as a predicate")
    nd = SC.deep_layer(ctx, BK, (4, 6) if ctx.quick else (4, 6, 8))
    ctx.layer("pumped-towers", filters=nd, depths=[4, 6] if ctx.quick else [4, 6, 8], exhaustive=True,
              note="every self-composable constructor and every ordered pair of them, stacked on the left and right spine; long in-lists and and/or chains")
    nr = SC.reverse_pass(ctx, BK)
    ctx.layer("reverse-order-pass", k=1, filters=nr, exhaustive=True, note="same filters, opposite translation history per worker")
    ns = SC.generic_strings(ctx, BK, 2)
    ctx.layer("string-literals", strings=ns, positions=len(SC.string_position_terms(T.Str("x"), BK.cap)), exhaustive=True)
    if ctx.quick:
        n3 = SC.generic_layer(ctx, BK, "reduced", 3)
        ctx.layer("reduced-alphabet", k=3, filters=n3, exhaustive=True)
    else:
        n3 = SC.generic_layer(ctx, BK, "full", 3)
        ctx.layer("full-alphabet-k3", k=3, filters=n3, exhaustive=True)


def _untuple(x):
    return tuple(_untuple(e) for e in x) if isinstance(x, list) else x


def replay(ctx, case):
    SC.init_now()
    django_h.setup()
    term = _untuple(case["term"])
    from vt.dbs.domain import colkey
    cols = colkey(typed.fields_of(term))
    acc = Acc()
    got = BK.run(case["text"], cols, None)
    ok = SC.judge(acc, "django", term, case["text"], cols, got, [], {})
    return {"text": case["text"], "violations": acc.violations, "ok": ok}
