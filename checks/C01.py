"""C01 - SQLite WHERE clause selects exactly the rows the OData filter denotes."""
from odata_query.grammar import ODataLexer, ODataParser
from odata_query.sql.sqlite import AstToSqliteSqlVisitor

from vt import semcheck as SC, typed, terms as T
from vt.dbs.domain import colkey
from vt.dbs.sqlite_h import SqliteHarness
from vt.refprint import to_odata
from vt.runner import Acc

RULE = ("all typed Bool terms with <=k constructor nodes over the SQLite capability table (E-TERM dynamic program), printed by "
        "R-PRINT in minimal and full parenthesisation, translated by AstToSqliteSqlVisitor (with and without table alias) and "
        "executed as SELECT id FROM t WHERE <clause> on a table holding every valuation of the referenced columns; selected ids "
        "must equal the rows R-EVAL makes true (UNDEF rows ignored). Plus every string of length <=2 over {a,A,%,_,',\\\\,space} in "
        "every string-literal position. non-trivial = distinct filters whose truth vector over the row domain is not constant.")
ASSUMPTIONS = ["R-EVAL implements the reference semantics of DESIGN.md Appendix B / section 2.7",
               "SQLite 3.40 (PRAGMA case_sensitive_like=ON) is the engine",
               "value domains: Int{NULL,-2,0,1,3} Real{NULL,-2.5,-1.5,0,0.5,2.5} Text{12 values incl. %,_,',\\\\} Bool DateTime{NULL,1999,2020,2099}"]

CAP = {"neg": True, "null_left": True, "indexof": True, "concat": True}
DEFECT_MODELS = ["round-trunc-half", "like-field-wildcards"]

_H = None
_lx, _ps = ODataLexer(), ODataParser()
_ENUM = {}


def harness():
    global _H
    if _H is None:
        _H = SqliteHarness()
    return _H


def run_filter(text, cols, alias=None):
    try:
        ast_ = _ps.parse(_lx.tokenize(text))
        sql = AstToSqliteSqlVisitor(alias).visit(ast_)
        return set(harness().select_ids(cols, sql, alias)), sql
    except Exception as e:  # noqa
        return ("EXC", type(e).__name__, str(e)[:200]), None


def check_term(acc, term, styles=("min", "full"), aliases=(None, "al")):
    cols = colkey(typed.fields_of(term))
    acc.count("states")
    if SC.nontrivial(term, cols):
        acc.count("nontrivial")
    texts = []
    for st in styles:
        tx = to_odata(term, st)
        if tx not in texts:
            texts.append(tx)
    for i, tx in enumerate(texts):
        for al in (aliases if i == 0 else (None,)):
            got, sql = run_filter(tx, cols, al)
            SC.judge(acc, "sqlite", term, tx, cols, got, DEFECT_MODELS, {"alias": al, "sql": sql, "cols": list(cols)})


class _SqliteBackend(SC.Backend):
    name = "sqlite"
    cap = CAP
    defect_models = DEFECT_MODELS
    variants = [None, "al"]

    def run(self, text, cols, variant):
        return run_filter(text, cols, variant)[0]


def enum_for(which):
    if which not in _ENUM:
        sigs = typed.signatures(CAP)
        if which == "reduced":
            _ENUM[which] = typed.Enumerator(SC.reduced_sigs(sigs), SC.REDUCED_LEAVES)
        else:
            _ENUM[which] = typed.Enumerator(sigs, typed.DEFAULT_LEAVES)
    return _ENUM[which]


def _unit(unit):
    which, k, si, split, stride = unit
    acc = Acc()
    en = enum_for(which)
    sig = en.sigs[si]
    for i, term in enumerate(en.apply(sig, k, only_split=split)):
        if stride and i % stride[1] != stride[0]:
            continue
        check_term(acc, term)
        if i == 0:
            acc.sample({"filter": to_odata(term), "layer": "%s k=%d" % (which, k)}, cap=1)
    return acc


def _string_unit(strings):
    acc = Acc()
    for sv in strings:
        L = T.Str(sv)
        for term in SC.string_position_terms(L, CAP):
            check_term(acc, term, styles=("min",))
    acc.sample({"filter": to_odata(SC.string_position_terms(T.Str(strings[0]), CAP)[0]), "layer": "strings"}, cap=1)
    return acc


def layer(ctx, which, k, stride=None):
    en = enum_for(which)
    for j in range(k):                    # build shared sub-term tables before forking
        for ty in (typed.I, typed.R, typed.S, typed.B, typed.TT, typed.D):
            en.terms(ty, j)
    units = [(which, k, si, split, (j, 4)) for si, split in en.work_units(typed.B, k) for j in range(4)]   # 4 stripes per unit: load balance
    before = ctx.counts["states"]
    ctx.pmap(_unit, units)
    return int(ctx.counts["states"] - before)


def run(ctx):
    SC.init_now()
    n0 = sum(1 for _ in map(lambda t: check_term(ctx, t), enum_for("full").terms(typed.B, 0)))
    n1 = layer(ctx, "full", 1)
    n2 = layer(ctx, "full", 2)
    ctx.layer("full-alphabet", k_max=2, filters=n0 + n1 + n2, exhaustive=True)
    # keyword-case variants of every k<=1 filter (TRUE / True / NOT / Eq / NULL ...): same rows as the lower-case spelling
    nk = 0
    for t in list(enum_for("full").terms(typed.B, 0)) + list(enum_for("full").terms(typed.B, 1)):
        cols = colkey(typed.fields_of(t))
        base = None
        for vname, tx in [("base", to_odata(t))] + SC.kw_variants(t):
            try:
                got = set(harness().select_ids(cols, AstToSqliteSqlVisitor().visit(_ps.parse(_lx.tokenize(tx)))))
            except Exception as e:  # noqa
                got = ("EXC", type(e).__name__, str(e)[:120])
            ctx.count("executions")
            if vname == "base":
                base = got
            else:
                nk += 1
                if got != base:
                    ctx.violation("sqlite:kwcase:%s" % SC.opsig(t), {"text": tx, "term": t, "variant": vname, "base_text": to_odata(t), "alias": None, "cols": list(cols),
                                                                     "expected": sorted(base)[:20] if isinstance(base, set) else list(base),
                                                                     "observed": sorted(got)[:20] if isinstance(got, set) else list(got)})
    ctx.layer("keyword-case", k_max=1, variants=nk, exhaustive=True)
    # history layer: the k<=1 filters serially in ONE process, forward and then in reverse order (module/class-level state)
    hist = list(enum_for("full").terms(typed.B, 0)) + list(enum_for("full").terms(typed.B, 1))
    for t in hist + hist[::-1]:
        check_term(ctx, t, styles=("min",), aliases=(None,))
    # ... and once more through ONE visitor instance reused for every filter (per-instance memo tables, flags)
    shared = AstToSqliteSqlVisitor()
    for t in hist + hist[::-1]:
        cols = colkey(typed.fields_of(t))
        tx = to_odata(t)
        try:
            sql = shared.visit(_ps.parse(_lx.tokenize(tx)))
            got = set(harness().select_ids(cols, sql))
        except Exception as e:  # noqa
            got, sql = ("EXC", type(e).__name__, str(e)[:200]), None
        SC.judge(ctx, "sqlite", t, tx, cols, got, DEFECT_MODELS, {"alias": None, "sql": sql, "cols": list(cols), "visitor": "one shared instance"})
    ctx.layer("history-forward-reverse", filters=4 * len(hist), exhaustive=True, note="fresh visitor per filter, then one shared visitor instance")
    nb = SC.boolean_operand_layer(ctx, _SqliteBackend())
    ctx.layer("boolean-operands", filters=nb, exhaustive=True,
              note="eq/ne between every ordered pair of boolean-valued lookups (comparisons, boolean functions, null tests, in-tests, the boolean field, literals), alone, negated and beside another clause; the bare boolean field as a predicate")
    nd = SC.deep_layer(ctx, _SqliteBackend(), (4, 6) if ctx.quick else (4, 6, 8))
    ctx.layer("pumped-towers", filters=nd, depths=[4, 6] if ctx.quick else [4, 6, 8], exhaustive=True,
              note="every self-composable constructor and every ordered pair of them, stacked on the left and right spine; long in-lists and and/or chains")
    strs = SC.sigma_strings(2)
    ctx.pmap(_string_unit, [strs[i::32] for i in range(32)])
    ctx.layer("string-literals", strings=len(strs), positions=len(SC.string_position_terms(T.Str("x"), CAP)), exhaustive=True)
    if ctx.quick:
        n3 = layer(ctx, "reduced", 3)
        ctx.layer("reduced-alphabet", k=3, filters=n3, exhaustive=True)
    else:
        n3 = layer(ctx, "full", 3)
        ctx.layer("full-alphabet-k3", k=3, filters=n3, exhaustive=True)
        n4 = layer(ctx, "reduced", 4, stride=None)
        ctx.layer("reduced-alphabet", k=4, filters=n4, exhaustive=True)


def _untuple(x):
    return tuple(_untuple(e) for e in x) if isinstance(x, list) else x


def replay(ctx, case):
    SC.init_now()
    term = _untuple(case["term"])
    acc = Acc()
    cols = colkey(typed.fields_of(term))
    got, sql = run_filter(case["text"], cols, case.get("alias"))
    ok = SC.judge(acc, "sqlite", term, case["text"], cols, got, [], {"alias": case.get("alias"), "sql": sql})
    return {"text": case["text"], "sql": sql, "violations": acc.violations, "ok": ok}
