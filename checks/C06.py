"""C06 - Every literal and identifier is recognised as its own kind with its exact value."""
import datetime as dt
import uuid
from fractions import Fraction
from itertools import product

from odata_query.grammar import ODataLexer, ODataParser

from vt import terms as T
from vt.decode import decode
from vt.runner import Acc, chunked

RULE = ("per literal kind, the product of boundary alphabets for each ABNF part (sign/int/frac/exp; all letter cases of "
        "true/false/null; all strings of length <=3 over {a,',space,%,e-acute,U+1F600,newline,backslash}; GUID cases; calendar-valid "
        "year x month x day; hh x mm x ss x frac; date x time x offset; all 2^6 presence combinations x digit strings x sign for "
        "durations; geography) and every well-formed identifier of length <=3 over {a,Z,_,1,.,e-acute} plus keyword-prefixed/"
        "suffixed/infixed names and lengths 127/128; each embedded in 8 expression contexts. Expected node class, .val and py_val "
        "come from the generator. non-trivial = distinct spellings.")
ASSUMPTIONS = ["python datetime/uuid/Fraction arithmetic as independent value oracle",
               "years < 1000 and NaN/INF are outside the library's documented literal subset and are only counted"]

_lx, _ps = ODataLexer(), ODataParser()
x = T.I("x")
SKIP = "__SKIP__"


def contexts(text, leaf):
    return [
        ("alone", text, leaf),
        ("eq-r", "x eq " + text, T.binop("Eq", x, leaf)),
        ("eq-l", text + " eq x", T.binop("Eq", leaf, x)),
        ("add-r", "x add " + text, T.binop("Add", x, leaf)),
        ("arg", "f.g(" + text + ")", T.call("g", leaf, ns=("f",))),
        ("list", "(" + text + ", " + text + ")", T.lst(leaf, leaf)),
        ("not", "not (x eq " + text + ")", T.unop("Not", T.binop("Eq", x, leaf))),
        ("in", "x in (" + text + ",)", T.binop("In", x, T.lst(leaf))),
    ] + ([
        # an identifier as a path root keeps its namespace split off; as a later path segment it is kept as written
        ("path-root", text + "/q eq x", T.binop("Eq", T.A(leaf, "q"), x)),
        ("path-segment", "p/" + text + " eq x", T.binop("Eq", T.A(T.I("p"), text), x)),
        ("lambda-owner", "p/" + text + "/any()", T.lam(T.A(T.I("p"), text), "Any")),
    ] if leaf[0] == "Identifier" else [])


def parse(s):
    return _ps.parse(_lx.tokenize(s))


def check(acc, kind, text, leaf, pyval=SKIP, pyeq=None):
    """leaf: expected neutral term; pyval: expected python value"""
    acc.count("states")
    acc.count("nontrivial")
    for cname, ctext, exp in contexts(text, leaf):
        acc.count("executions")
        acc.count("transitions")
        try:
            node = parse(ctext)
            got = decode(node)
        except Exception as e:  # noqa
            got = ("EXC", type(e).__name__, str(e)[:100])
            node = None
        if got != exp:
            acc.violation("%s:%s:%s" % (kind, cname, _cls(got, leaf)), {"kind": kind, "context": cname, "text": ctext, "expected": exp, "observed": got})
            continue
        acc.outcome((kind, cname))
        if cname == "alone" and pyval != SKIP:
            try:
                pv = node.py_val
            except Exception as e:  # noqa
                acc.violation("%s:py_val-exc:%s" % (kind, type(e).__name__), {"kind": kind, "context": "py_val", "text": ctext,
                                                                           "expected": repr(pyval), "observed": repr(e)})
                continue
            ok = pyeq(pv, pyval) if pyeq else (pv == pyval and type(pv) is type(pyval))
            if not ok:
                acc.violation("%s:py_val" % kind, {"kind": kind, "context": "py_val", "text": ctext, "expected": repr(pyval), "observed": repr(pv)})


def _cls(got, leaf):
    if got and got[0] == "EXC":
        return got[1]
    kinds = {s[0] for s in T.subterms(got)} if isinstance(got, tuple) else set()
    return "wrong-tree" if leaf[0] in kinds else "wrong-kind"


# ------------------------------------------------------------------ generators
def gen_numbers():
    out = []
    for sign in ("", "-", "+"):
        for ip in ("0", "7", "007", "9" * 19, "12345678901234567890123"):
            s = sign + ip
            out.append(("Integer", s, ("Integer", s), int(s)))
            for frac in ("", ".0", ".5", ".000001", ".12345678901234567"):
                for exp in ("", "e0", "E+3", "e-2", "e10"):
                    if not frac and not exp:
                        continue
                    d = s + frac + exp
                    out.append(("Float", d, ("Float", d), float(Fraction(d.replace("E", "e")))))
    return out


def case_variants(word):
    for mask in product((0, 1), repeat=len(word)):
        yield "".join(c.upper() if m else c for c, m in zip(word, mask))


def gen_keywords():
    out = []
    for w in ("true", "false"):
        for v in case_variants(w):
            out.append(("Boolean", v, ("Boolean", v), w == "true"))
    for v in case_variants("null"):
        out.append(("Null", v, ("Null",), None))
    return out


SIGMA = ["a", "'", " ", "%", "é", "\U0001F600", "\n", "\\"]


def gen_strings(maxlen):
    out = []
    for n in range(maxlen + 1):
        for tup in product(SIGMA, repeat=n):
            s = "".join(tup)
            out.append(("String", "'" + s.replace("'", "''") + "'", ("String", s), s))
    for s in ("null", "true", " eq ", "x' or 1 eq 1 or '", "a,b", "(", "duration'P1D'", "2020-01-01"):
        out.append(("String", "'" + s.replace("'", "''") + "'", ("String", s), s))
    return out


def gen_guids(full=False):
    out = []
    # first groups that look like the start of another token: digit runs, digits+e+digits (DECIMAL), dates, durations ...
    for tup in product("1eEa0" if full else "1e", repeat=8):
        g = "".join(tup) + "-89ab-4cde-8f01-23456789abcd"
        out.append(("GUID", g, ("GUID", g), uuid.UUID(g)))
    for first in ("20200229", "2020e229", "00000e10", "1e5abcde", "12e45678", "0e000000", "9e9e9e9e", "deadbeef", "fa15e000", "a11ab1e5", "ddddddd1"):
        g = first + "-1999-4123-8f01-23456789abcd"
        out.append(("GUID", g, ("GUID", g), uuid.UUID(g)))
    for g in ("01234567-8901-2345-6789-012345678901", "abcdefab-cdef-abcd-efab-cdefabcdefab", "ABCDEFAB-CDEF-ABCD-EFAB-CDEFABCDEFAB",
              "a1B2c3D4-e5F6-a7B8-c9D0-e1F2a3B4c5D6", "00000000-0000-0000-0000-000000000000", "ffffffff-ffff-ffff-ffff-ffffffffffff"):
        out.append(("GUID", g, ("GUID", g), uuid.UUID(g)))
    return out


YEARS = ["1000", "1999", "2024", "9999"]
MONTHS = ["01", "02", "09", "10", "12"]
DAYS = ["01", "09", "10", "28", "29", "30", "31"]


def valid_dates():
    for y, m, d in product(YEARS, MONTHS, DAYS):
        try:
            yield "%s-%s-%s" % (y, m, d), dt.date(int(y), int(m), int(d))
        except ValueError:
            continue


def gen_dates():
    return [("Date", s, ("Date", s), v) for s, v in valid_dates()]


FRACS = ["", ".1", ".0", ".000", ".120", ".123456", ".999999", ".123456789012"]


def micro(frac):
    return int(frac[1:7].ljust(6, "0")) if frac else 0


def gen_times():
    out = []
    for hh, mm, ss, fr in product(["00", "09", "10", "19", "20", "23"], ["00", "59"], ["00", "59"], FRACS):
        s = "%s:%s:%s%s" % (hh, mm, ss, fr)
        out.append(("Time", s, ("Time", s), dt.time(int(hh), int(mm), int(ss), micro(fr))))
    return out


OFFSETS = ["", "Z", "+00:00", "-23:59", "+14:00", "-00:30"]


def tz_of(off):
    if off == "":
        return None
    if off == "Z":
        return dt.timezone.utc
    sign = 1 if off[0] == "+" else -1
    return dt.timezone(sign * dt.timedelta(hours=int(off[1:3]), minutes=int(off[4:6])))


def gen_datetimes(full):
    out = []
    dates = list(valid_dates())
    if not full:
        dates = dates[::9] + dates[-2:]
    times = []
    for hh, mm in product(["00", "09", "19", "23"], ["00", "59"]):
        times.append(("%s:%s" % (hh, mm), (int(hh), int(mm), 0, 0)))
        for ss, fr in product(["00", "59"], FRACS if full else ["", ".123456"]):
            times.append(("%s:%s:%s%s" % (hh, mm, ss, fr), (int(hh), int(mm), int(ss), micro(fr))))
    for (ds, dv), (ts, tv), off in product(dates, times, OFFSETS):
        s = ds + "T" + ts + off
        v = dt.datetime(dv.year, dv.month, dv.day, *tv, tzinfo=tz_of(off))
        out.append(("DateTime", s, ("DateTime", s), v))
    return out


def dt_eq(a, b):
    if not isinstance(a, dt.datetime):
        return False
    if (a.tzinfo is None) != (b.tzinfo is None):
        return False
    return a == b and a.utcoffset() == b.utcoffset() and a.replace(tzinfo=None) == b.replace(tzinfo=None)


DIG = ["1", "10", "007"]


def gen_durations(full):
    out = []
    parts = ["Y", "M", "D", "H", "Mi", "S"]
    for mask in product((0, 1), repeat=6):
        if not any(mask):
            continue
        for sign in ("", "-", "+"):
            for dg in (DIG if full else DIG[:2]):
                for sfrac in (("", ".5", ".000001") if mask[5] else ("",)):
                    for prefix in ("duration", "Duration", "DURATION") if (full or sum(mask) == 1) else ("duration",):
                        body = "P"
                        if mask[0]:
                            body += dg + "Y"
                        if mask[1]:
                            body += dg + "M"
                        if mask[2]:
                            body += dg + "D"
                        if any(mask[3:]):
                            body += "T"
                        if mask[3]:
                            body += dg + "H"
                        if mask[4]:
                            body += dg + "M"
                        if mask[5]:
                            body += dg + sfrac + "S"
                        n = Fraction(int(dg))
                        days = (n if mask[2] else 0) + (n * Fraction("365.25") if mask[0] else 0) + (n * Fraction("30.44") if mask[1] else 0)
                        secs = days * 86400 + (n * 3600 if mask[3] else 0) + (n * 60 if mask[4] else 0) + \
                            ((n + Fraction(sfrac or "0")) if mask[5] else 0)
                        if sign == "-":
                            secs = -secs
                        val = sign + body
                        spelling = prefix + "'" + val + "'"
                        out.append(("Duration", spelling, ("Duration", val), secs))
    # carry boundaries: a unit's count may exceed the next unit's size (P12M is 12 x 30.44 days, not one 365.25-day year; PT90M, PT3600S)
    unit_secs = {"Y": Fraction("365.25") * 86400, "M": Fraction("30.44") * 86400, "D": Fraction(86400), "H": Fraction(3600), "Mi": Fraction(60), "S": Fraction(1)}
    for unit in unit_secs:
        for v in (11, 12, 13, 18, 23, 24, 25, 30, 31, 59, 60, 61, 100, 120, 365, 366, 1000, 86400):
            body = "P" + ("T" if unit in ("H", "Mi", "S") else "") + str(v) + unit[0]
            for sign in ("", "-"):
                out.append(("Duration", "duration'" + sign + body + "'", ("Duration", sign + body), (-1 if sign else 1) * v * unit_secs[unit]))
    for y, mo, d in ((1, 12, 0), (1, 30, 2), (0, 120, 400), (2, 13, 31)):
        body = "P%dY%dM%dDT25H61M61.5S" % (y, mo, d)
        secs = y * unit_secs["Y"] + mo * unit_secs["M"] + d * 86400 + 25 * 3600 + 61 * 60 + Fraction("61.5")
        out.append(("Duration", "duration'" + body + "'", ("Duration", body), secs))
    # lower-case designators are normalised to upper case (documented)
    out.append(("Duration", "duration'p1dt2h'", ("Duration", "P1DT2H"), Fraction(86400 + 7200)))
    return out


def dur_eq(pv, secs):
    if not isinstance(pv, dt.timedelta):
        return False
    got = Fraction(pv.days * 86400 + pv.seconds) + Fraction(pv.microseconds, 10 ** 6)
    return abs(got - secs) <= Fraction(2, 10 ** 6)


def gen_geo():
    out = []
    for g in ("POINT(1 2)", "SRID=4326;POINT(142.1 64.1)", "POLYGON((1 1,1 2,2 2,1 1))", "", "POINT(-1.5e3 +2)"):
        for prefix in ("geography", "Geography", "GEOGRAPHY"):
            out.append(("Geography", prefix + "'" + g + "'", ("Geography", g), SKIP))
    return out


KEYWORDS = ["null", "true", "false", "not", "and", "or", "eq", "ne", "lt", "le", "gt", "ge", "add", "sub", "mul", "div", "mod", "in",
            "any", "all", "duration", "geography"]
BUILTIN_NAMES = ["length", "contains", "now", "date", "time", "year", "round", "floor", "concat", "substring", "tolower", "second"]


def wellformed(s):
    segs = s.split(".")
    for g in segs:
        if not g or not (g[0].isalpha() or g[0] == "_"):
            return False
        if not all(c.isalnum() or c == "_" for c in g):
            return False
    # OData ABNF: every segment is an odataIdentifier of at most 128 characters; checked here only up to 128 name characters in
    # total (the dots between segments are separators, not part of any name)
    return 1 <= sum(len(g) for g in segs) <= 128


def gen_identifiers():
    names = set()
    for n in range(1, 4):
        for tup in product(["a", "Z", "_", "1", ".", "é"], repeat=n):
            s = "".join(tup)
            if wellformed(s):
                names.add(s)
    for k in KEYWORDS + BUILTIN_NAMES:
        names |= {k + "able", k + "x", k + "_", k + "1", "x" + k, "_" + k, "a" + k + "b", k + "." + "x", "x." + k, k.upper() + "y",
                  "ns." + k + "s", k + k}
    names |= {"nullable", "anything", "allowed", "trueness", "notes", "inside", "orange", "android", "divide", "modal", "eqx",
              "x.null", "falsehood", "ink", "orb", "andy", "notary", "all_", "any1", "T", "Z", "P", "e1", "E5", "t10", "d1", "a1b2",
              "durationx", "geographyx", "ge0", "le_", "_1", "__", "a.b.c.d", "A.B"}
    names |= {"a" * 127, "a" * 128, "b" + "1" * 127, "n." + "c" * 126, "_" * 128}
    # the 128 limit counts word characters, not the dots between them
    names |= {"a" * 64 + "." + "b" * 64, ".".join(["c" * 32] * 4), "n." + "d" * 127, ".".join("e" * 16 for _ in range(8))}
    # a keyword followed by a NON-ASCII letter is one identifier too (the look-aheads of the literal keywords are Unicode-aware)
    names |= {k + c for k in ("null", "true", "false", "not", "in", "eq", "any", "NULL", "True") for c in ("\u00e9", "\u00f1o", "\u00df", "\u00c4BLE", ".\u00e9", "\u0131")}
    # letters whose case folding lands on a keyword letter (long s, Kelvin sign, dotless / dotted i): still identifiers
    names |= {"fal\u017fe", "FAL\u017fE", "Fal\u017fe", "\u017fub", "\u0131n", "d\u0131v", "\u0130n", "\u212a", "nu\u017fll", "x.fal\u017fe", "fal\u017fe.x", "\u017f"}
    # null/true/false/not are keywords wherever they stand; every other keyword only in its own syntactic position (an infix operator
    # between operands, any/all before "(", a literal prefix before a quote), so as a name it is a plain field reference
    reserved = {"null", "true", "false", "not"}
    names -= reserved | {k.upper() for k in reserved} | {k.capitalize() for k in reserved}
    names |= {k2 for k in KEYWORDS if k not in reserved for k2 in (k, k.upper(), k.capitalize())}
    out = []
    for s in sorted(names):
        if not wellformed(s):
            continue
        segs = s.split(".")
        out.append(("Identifier", s, T.I(segs[-1], tuple(segs[:-1])), SKIP))
    return out


def _unit(items):
    acc = Acc()
    for kind, text, leaf, pv in items:
        pyeq = dt_eq if kind == "DateTime" else dur_eq if kind == "Duration" else None
        if kind == "Float":
            pyeq = lambda a, b: isinstance(a, float) and a == b  # noqa
        check(acc, kind, text, leaf, pv, pyeq)
    if items:
        acc.sample({"kind": items[0][0], "text": items[0][1]}, cap=1)
    return acc


def run(ctx):
    full = not ctx.quick
    groups = [
        ("numbers", gen_numbers()), ("keywords", gen_keywords()), ("strings", gen_strings(3 if full else 2)),
        ("guids", gen_guids(full)), ("dates", gen_dates()), ("times", gen_times()), ("datetimes", gen_datetimes(full)),
        ("durations", gen_durations(full)), ("geography", gen_geo()), ("identifiers", gen_identifiers()),
    ]
    for name, items in groups:
        before = ctx.counts["violating_cases"]
        ctx.pmap(_unit, list(chunked(items, max(1, len(items) // 64 + 1))))
        ctx.layer(name, spellings=len(items), contexts=8, exhaustive=True, violating=int(ctx.counts["violating_cases"] - before))
    # informational: literals the library's subset does not cover
    for s in ("0001-01-01", "0999-12-31", "NaN", "INF", "-INF"):
        try:
            ctx.notes.append((s, type(parse(s)).__name__))
        except Exception as e:  # noqa
            ctx.notes.append((s, type(e).__name__))
    ctx.extra["outside_subset"] = ctx.notes


def _untuple(v):
    return tuple(_untuple(e) for e in v) if isinstance(v, list) else v


def replay(ctx, case):
    if case["context"] == "py_val":
        node = parse(case["text"])
        try:
            pv = repr(node.py_val)
        except Exception as e:  # noqa
            pv = repr(e)
        return {"text": case["text"], "expected": case["expected"], "observed": pv, "ok": pv == case["expected"]}
    try:
        got = decode(parse(case["text"]))
    except Exception as e:  # noqa
        got = ("EXC", type(e).__name__, str(e)[:100])
    exp = _untuple(case["expected"])
    return {"text": case["text"], "expected": exp, "observed": got, "ok": got == exp}
