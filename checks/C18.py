"""C18 - Type inference never reports a wrong type."""
from odata_query import ast, exceptions, typing as otyping
from odata_query.grammar import ODataLexer, ODataParser
from odata_query.sql import AstToSqlVisitor

from vt import terms as T, typed
from vt.refprint import to_odata
from vt.runner import Acc

RULE = ("all typed terms with <=k constructor nodes over EVERY built-in function of the OData table (string, date/time, math, geo, "
        "set functions, list overloads) plus arithmetic, comparisons, logic, in and null tests; the generator knows each term's type "
        "by construction; infer_type(parse(text)) must be None ('unknown') or the class of that type. typecheck() as performed by "
        "the backends (contains/startswith/endswith operands on Django, SQLAlchemy ORM/Core and the SQL dialects' own inference) "
        "must accept every well-typed operand expression and reject every literal operand of a kind outside the allowed set "
        "(all literal kinds x all checked positions). non-trivial = distinct terms whose inferred type is not None.")
ASSUMPTIONS = ["return types follow OData 4.01 part 2 section 5.1.1.5-13 mapped onto the library's literal classes "
               "(Edm.Int32->Integer, Edm.Decimal/Double->Float, DateTimeOffset->DateTime)"]

I, R, S, B, TT, D, TM, DUR, G, GL, GP, LI, LS, NOW = "I", "R", "S", "B", "T", "D", "TM", "DUR", "G", "GL", "GP", "LI", "LS", "NOW"
CLASS_OF = {I: ast.Integer, R: ast.Float, S: ast.String, B: ast.Boolean, TT: ast.DateTime, D: ast.Date, TM: ast.Time, DUR: ast.Duration,
            G: ast.Geography, GL: ast.Geography, GP: ast.Geography, LI: ast.List, LS: ast.List, NOW: ast.DateTime, "LX": ast.List}
_lx, _ps = ODataLexer(), ODataParser()


def sigs():
    sg = typed.signatures({"neg": True, "null_left": True, "matchesPattern": True, "second": True, "time": True})
    Sg = typed.Sig
    c = lambda name, ns=(): (lambda *a: T.call(name, *a, ns=ns))  # noqa
    sg += [
        Sg("fractionalseconds", (TT,), R, c("fractionalseconds")), Sg("totaloffsetminutes", (TT,), I, c("totaloffsetminutes")),
        Sg("totalseconds", (DUR,), R, c("totalseconds")), Sg("mindatetime", (), TT, c("mindatetime")), Sg("maxdatetime", (), TT, c("maxdatetime")),
        Sg("now", (), TT, c("now")),
        Sg("round:I", (I,), R, c("round")), Sg("floor:I", (I,), R, c("floor")),
        Sg("geo.distance", (G, G), R, c("distance", ("geo",))), Sg("geo.length", (GL,), R, c("length", ("geo",))),
        Sg("geo.intersects", (G, GP), B, c("intersects", ("geo",))),
        Sg("hassubset:I", (LI, LI), B, c("hassubset")), Sg("hassubsequence:I", (LI, LI), B, c("hassubsequence")),
        Sg("hassubset:S", (LS, LS), B, c("hassubset")),
        Sg("concat:L", (LI, LI), "LX", c("concat")), Sg("substring:L2", (LI, I), "LX", c("substring")), Sg("substring:L3", (LI, I, I), "LX", c("substring")),
        Sg("length:LX", ("LX",), I, c("length")), Sg("hassubset:X", ("LX", LI), B, c("hassubset")), Sg("concat:LX", ("LX", LI), "LX", c("concat")),
        Sg("concat:LXLX", ("LX", "LX"), "LX", c("concat")), Sg("concat:LLX", (LI, "LX"), "LX", c("concat")), Sg("substring:LX2", ("LX", I), "LX", c("substring")),
        Sg("length:L", (LI,), I, c("length")), Sg("length:LS", (LS,), I, c("length")),
        Sg("contains:L", (LI, I), B, c("contains")), Sg("indexof:L", (LS, S), I, c("indexof")),
        Sg("startswith:L", (LI, LI), B, c("startswith")), Sg("endswith:L", (LI, LI), B, c("endswith")),
        Sg("add:TDur", (TT, DUR), TT, lambda a_, b_: T.binop("Add", a_, b_)), Sg("sub:TT", (TT, TT), DUR, lambda a_, b_: T.binop("Sub", a_, b_)),
        Sg("add:DurDur", (DUR, DUR), DUR, lambda a_, b_: T.binop("Add", a_, b_)), Sg("neg:Dur", (DUR,), DUR, lambda a_: T.unop("USub", a_)),
        Sg("eq:DurDur", (DUR, DUR), B, lambda a_, b_: T.binop("Eq", a_, b_)), Sg("eq:GG", (G, G), B, lambda a_, b_: T.binop("Eq", a_, b_)),
    ]
    return sg


LEAVES = dict(typed.DEFAULT_LEAVES)
LEAVES.update({
    I: [typed.F("n"), T.Int(1)], R: [typed.F("x"), T.Flt("1.5")], S: [typed.F("s"), T.Str("a")], B: [typed.F("b"), T.Bool(True)],
    TT: [typed.F("d"), typed.dtlit("2020-02-29T23:59:59Z")], D: [typed.F("dd"), ("Date", "2020-02-29")], TM: [("Time", "23:59:59")],
    DUR: [typed.F("du"), ("Duration", "P1D")], G: [typed.F("g"), ("Geography", "POINT(1 2)")], GL: [("Geography", "LINESTRING(1 1,2 2)")],
    GP: [("Geography", "POLYGON((1 1,1 2,2 2,1 1))")], LI: [T.lst(T.Int(0), T.Int(1))], LS: [T.lst(T.Str("a"), T.Str("b"))],
    NOW: [T.call("now")], "RX": [T.Str("^a")],
})
TYPES = [I, R, S, B, TT, D, TM, DUR, G, LI, "LX"]
_EN = None


def enum():
    global _EN
    if _EN is None:
        _EN = typed.Enumerator(sigs(), LEAVES)
    return _EN


def check_term(acc, term, ty):
    text = to_odata(term)
    acc.count("states")
    acc.count("executions")
    acc.count("transitions")
    try:
        node = _ps.parse(_lx.tokenize(text))
    except Exception as e:  # noqa
        acc.violation("parse-failed", {"text": text, "type": ty, "error": repr(e)[:120]})
        return
    try:
        inferred = otyping.infer_type(node)
    except Exception as e:  # noqa
        acc.violation("infer-exception:%s" % type(e).__name__, {"text": text, "type": ty, "error": repr(e)[:120]})
        return
    exp = CLASS_OF[ty]
    if inferred is None:
        acc.outcome((ty, None))
        return
    acc.count("nontrivial")
    acc.outcome((ty, inferred.__name__))
    is_field = term[0] == "Identifier"
    if inferred is not exp:
        acc.violation("wrong-type:%s:%s->%s" % (_head(term), exp.__name__, inferred.__name__),
                      {"text": text, "type": ty, "expected": [None, exp.__name__], "observed": inferred.__name__, "check": "infer"})


def _head(t):
    if t[0] == "Call":
        return t[1][1]
    if t[0] in ("BinOp", "Compare", "BoolOp", "UnaryOp"):
        return t[1][0]
    return t[0]


def _unit(unit):
    ty, k, si, split = unit[:4]
    stripe = unit[4] if len(unit) > 4 else None
    acc = Acc()
    en = enum()
    for i, term in enumerate(en.apply(en.sigs[si], k, only_split=split)):
        if stripe and i % stripe[1] != stripe[0]:
            continue
        check_term(acc, term, ty)
        if i == 0:
            acc.sample({"text": to_odata(term), "type": ty}, cap=1)
    return acc


# ---------------------------------------------------------------- typecheck as performed by the backends
LITERALS = {
    "Integer": T.Int(1), "Float": T.Flt("1.5"), "Boolean": T.Bool(True), "String": T.Str("a"), "Date": ("Date", "2020-02-29"),
    "Time": ("Time", "10:30:00"), "DateTime": typed.dtlit("2020-02-29T23:59:59Z"), "Duration": ("Duration", "P1D"),
    "GUID": ("GUID", "123e4567-e89b-12d3-a456-426614174000"), "Geography": ("Geography", "POINT(1 2)"), "List": T.lst(T.Int(1), T.Int(2)),
}


def backends():
    from vt.dbs import django_h, sa_h
    django_h.setup()
    from odata_query.django.django_q import AstToDjangoQVisitor
    from odata_query.sqlalchemy import AstToSqlAlchemyCoreVisitor, AstToSqlAlchemyOrmVisitor
    Mdj, _ = django_h.scalar_model(("s", "u", "n"))
    Msa, _ = sa_h.scalar_model(("s", "u", "n"))
    return {"django": lambda: AstToDjangoQVisitor(Mdj), "sa-orm": lambda: AstToSqlAlchemyOrmVisitor(Msa),
            "sa-core": lambda: AstToSqlAlchemyCoreVisitor(Msa.__table__), "sql": lambda: AstToSqlVisitor()}


def direct_typecheck(ctx):
    """typing.typecheck itself: every literal kind against every allowed set the backends use"""
    kinds = [ast.String, ast.Integer, ast.Float, ast.Boolean, ast.Date, ast.Time, ast.DateTime, ast.Duration, ast.GUID, ast.Geography, ast.List, ast.Identifier]
    # every single class (class names that contain one another - Date / DateTime, Time / DateTime - must not be confused), every
    # one-element tuple, every ordered pair, and the sets the backends use
    allowed_sets = kinds + [(k,) for k in kinds] + [(a_, b_) for a_ in kinds for b_ in kinds if a_ is not b_] + [(ast.Identifier, ast.String), (ast.Integer, ast.Float)]
    for kind, lit in LITERALS.items():
        node = _ps.parse(_lx.tokenize(to_odata(lit)))
        cls = type(node)
        for allowed in allowed_sets:
            ok_set = allowed if isinstance(allowed, tuple) else (allowed,)
            should_accept = cls in ok_set
            ctx.count("executions")
            ctx.count("states")
            try:
                otyping.typecheck(node, allowed, "arg")
                accepted = True
            except exceptions.ArgumentTypeException:
                accepted = False
            except Exception as e:  # noqa
                ctx.violation("typecheck-direct-foreign:%s" % type(e).__name__, {"text": to_odata(lit), "allowed": repr(allowed), "check": "typecheck-direct", "backend": "-"})
                continue
            if accepted != should_accept:
                ctx.violation("typecheck-direct:%s:%s" % (kind, "accepted" if accepted else "rejected"),
                              {"text": to_odata(lit), "allowed": repr(allowed), "expected": "accept" if should_accept else "reject", "check": "typecheck-direct", "backend": "-"})
            else:
                ctx.outcome(("tc-direct", kind, accepted))


def named_param_layer(ctx):
    """built-ins called with NAMED parameters in every order (the Django backend binds them by name): the inferred type must
    not depend on the order in which the arguments are written"""
    from itertools import permutations
    s_, u_, n_ = typed.F("s"), typed.F("u"), typed.F("n")
    specs = [("substring", [("fullstr", s_), ("index", T.Int(1))], S), ("substring", [("fullstr", s_), ("index", T.Int(1)), ("nchars", T.Int(2))], S),
             ("substring", [("fullstr", T.path("a", "b")), ("index", n_)], S), ("contains", [("field", s_), ("substr", T.Str("a"))], B),
             ("startswith", [("field", s_), ("substr", u_)], B), ("indexof", [("first", s_), ("second", T.Str("a"))], I),
             ("concat", [("a", s_), ("b", T.Str("x"))], S), ("length", [("arg", s_)], I), ("round", [("field", typed.F("x"))], R),
             ("matchesPattern", [("field", s_), ("pattern", T.Str("^a"))], B)]
    n = 0
    for fname, params, ty in specs:
        for perm in permutations(params):
            call = T.call(fname, *[T.named(k, v) for k, v in perm])
            for wrapped, wty in ((call, ty), (T.call("concat", call, T.Str("z")) if ty == S else None, S), (T.call("length", call) if ty == S else None, I)):
                if wrapped is None:
                    continue
                check_term(ctx, wrapped, wty)
                n += 1
    return n


def typecheck_layer(ctx):
    nn = named_param_layer(ctx)
    ctx.extra["named_parameter_calls"] = nn
    direct_typecheck(ctx)
    bks = backends()
    en = enum()
    good_str = [t for k in (0, 1) for t in en.terms(S, k) if "indexof" not in to_odata(t)]
    s_field, lit_a = typed.F("s"), T.Str("a")
    for fn in ("contains", "startswith", "endswith"):
        for pos in (0, 1):
            # well-typed operands must never be rejected by a type check
            for arg in good_str:
                args = [s_field, lit_a]
                args[pos] = arg
                text = to_odata(T.call(fn, *args))
                node = _ps.parse(_lx.tokenize(text))
                for bname, mk in bks.items():
                    ctx.count("executions")
                    try:
                        mk().visit(node)
                        ctx.outcome(("tc-ok", bname))
                    except exceptions.ArgumentTypeException as e:
                        ctx.violation("typecheck-rejects-well-typed:%s:%s" % (bname, _head(arg)),
                                      {"text": text, "backend": bname, "error": str(e), "check": "typecheck"})
                    except Exception as e:  # noqa   other refusals are C12's business
                        ctx.outcome(("tc-other", bname, type(e).__name__))
            # literals of a kind outside the allowed set must be rejected
            for kind, lit in LITERALS.items():
                if kind == "String":
                    continue
                args = [s_field, lit_a]
                args[pos] = lit
                text = to_odata(T.call(fn, *args))
                node = _ps.parse(_lx.tokenize(text))
                for bname, mk in bks.items():
                    if bname == "sql":
                        # the SQL dialects do not call typecheck(); their own overload inference rejects a literal of another kind
                        # when the OTHER operand is a field (unknown type) - that much is pinned here (a string literal next to it
                        # makes them assume the string overload, see DESIGN 7 "C18, SQL dialects")
                        a2 = [s_field, s_field]
                        a2[pos] = lit
                        n2 = _ps.parse(_lx.tokenize(to_odata(T.call(fn, *a2))))
                        ctx.count("executions")
                        try:
                            mk().visit(n2)
                            if kind not in ("List", "Geography"):
                                ctx.violation("typecheck-accepts-ill-typed-literal:sql:%s" % kind, {"text": to_odata(T.call(fn, *a2)), "backend": "sql", "literal_kind": kind, "position": pos, "check": "typecheck"})
                        except exceptions.ODataException:
                            ctx.outcome(("tc-rejected", "sql", kind))
                        except Exception as e:  # noqa
                            ctx.outcome(("tc-other", "sql", type(e).__name__))
                        continue
                    ctx.count("executions")
                    ctx.count("states")
                    try:
                        mk().visit(node)
                        ctx.violation("typecheck-accepts-ill-typed-literal:%s:%s" % (bname, kind),
                                      {"text": text, "backend": bname, "literal_kind": kind, "position": pos, "check": "typecheck"})
                    except exceptions.ArgumentTypeException:
                        ctx.outcome(("tc-rejected", bname, kind))
                    except exceptions.ODataException as e:
                        ctx.outcome(("tc-rejected-other", bname, type(e).__name__))
                    except Exception as e:  # noqa
                        ctx.violation("typecheck-foreign-exception:%s:%s:%s" % (bname, kind, type(e).__name__),
                                      {"text": text, "backend": bname, "literal_kind": kind, "error": repr(e)[:150], "check": "typecheck"})


def history_layer(ctx, stride=1):
    """serial, ONE process: all terms with <=2 constructors of every type plus the k=3 concat/substring terms (string and list
    flavours have the same outer shape), forward and then in reverse order - inference must not depend on what was inferred before"""
    en = enum()
    seq = []
    for ty in TYPES:
        seq += [(t, ty) for t in en.terms(ty, 1)]
    for ty in (S, "LX", LI):        # the argument-derived return types (concat, substring) live here
        seq += [(t, ty) for i, t in enumerate(en.terms(ty, 2)) if i % stride == 0]
    for ty in (S, "LX"):
        for si, sig in enumerate(en.sigs):
            if sig.ret == ty and sig.name.split(":")[0] in ("concat", "substring", "substring2", "substring3"):
                seq += [(t, ty) for i, t in enumerate(en.apply(sig, 3)) if i % (stride * 4) == 0 or stride == 1]
    # interleave the string and list flavours so that equal outer shapes meet in both orders
    seq.sort(key=lambda it: (to_odata(it[0]).split("(")[0], len(to_odata(it[0])), it[1]))
    for t, ty in seq + seq[::-1]:
        check_term(ctx, t, ty)
    return 2 * len(seq)


def null_argument_layer(ctx):
    """`null` is a value of every type: as an argument of the functions whose return type is derived from their arguments
    (concat, substring) it must not become the inferred type, and a call that contains it must not be rejected by a type check."""
    s, a = typed.F("s"), T.Str("a")
    L = T.lst(T.Int(1), T.Int(2))
    cases = [(T.call("concat", T.NULL, a), "String"), (T.call("concat", a, T.NULL), "String"), (T.call("concat", T.NULL, s), None),
             (T.call("concat", s, T.NULL), None), (T.call("concat", T.NULL, T.NULL), None), (T.call("concat", T.NULL, L), "List"),
             (T.call("concat", T.call("concat", T.NULL, a), T.NULL), "String"), (T.call("substring", T.NULL, T.Int(1)), None),
             (T.call("substring", T.call("concat", T.NULL, a), T.Int(1)), "String"), (T.call("tolower", T.NULL), "String"),
             (T.call("length", T.NULL), "Integer"), (T.call("concat", T.call("tolower", T.NULL), T.NULL), "String")]
    bks = backends()
    for term, exp in cases:
        text = to_odata(term)
        node = _ps.parse(_lx.tokenize(text))
        ctx.count("states")
        ctx.count("executions")
        inferred = otyping.infer_type(node)
        name = inferred.__name__ if inferred else None
        if name not in (None, exp):
            ctx.violation("wrong-type:%s:null-argument:%s->%s" % (_head(term), exp, name), {"text": text, "type": exp, "expected": [None, exp], "observed": name, "check": "infer"})
        else:
            ctx.outcome(("null-arg", name))
        if exp in ("String", None) and term[1][1] in ("concat", "substring", "tolower"):
            for fn in ("contains", "startswith", "endswith"):
                for pos in (0, 1):
                    args = [s, a]
                    args[pos] = term
                    t2 = to_odata(T.call(fn, *args))
                    n2 = _ps.parse(_lx.tokenize(t2))
                    for bname, mk in bks.items():
                        ctx.count("executions")
                        try:
                            mk().visit(n2)
                            ctx.outcome(("tc-ok", bname))
                        except exceptions.ArgumentTypeException as e:
                            ctx.violation("typecheck-rejects-well-typed:%s:null-argument" % bname, {"text": t2, "backend": bname, "error": str(e), "check": "typecheck"})
                        except Exception as e:  # noqa
                            ctx.outcome(("tc-other", bname, type(e).__name__))
    return len(cases)


def run(ctx):
    en = enum()
    kmax = 3
    for k in range(0, kmax + 1):
        for j in range(k):
            for ty in TYPES + [NOW, GL, GP, LS]:
                en.terms(ty, j)
        for ty in TYPES:
            if k == 0:
                for t in en.terms(ty, 0):
                    check_term(ctx, t, ty) if t[0] != "Identifier" else None
                continue
            units = [(ty, k, si, split, (j, 4)) for si, split in en.work_units(ty, k) for j in range(4)]
            ctx.pmap(_unit, units)
    ctx.layer("infer_type", k_max=kmax, terms=int(ctx.counts["states"]), builtin_functions=33, exhaustive=True)
    nh = history_layer(ctx, stride=5 if ctx.quick else 1)
    ctx.layer("history-forward-reverse", terms=nh, exhaustive=True)
    typecheck_layer(ctx)
    ctx.layer("typecheck", functions=3, positions=2, literal_kinds=len(LITERALS), backends=4, exhaustive=True)
    nn = null_argument_layer(ctx)
    ctx.layer("null-arguments", calls=nn, exhaustive=True)


def replay(ctx, case):
    node = _ps.parse(_lx.tokenize(case["text"]))
    if case.get("check") == "infer":
        inf = otyping.infer_type(node)
        name = inf.__name__ if inf else None
        return {"text": case["text"], "expected": case["expected"], "observed": name, "ok": name in case["expected"]}
    bks = backends()
    try:
        bks[case["backend"]]().visit(node)
        res = "accepted"
    except Exception as e:  # noqa
        res = type(e).__name__
    return {"text": case["text"], "backend": case["backend"], "observed": res, "ok": False}
