"""C08 - ORM backends pass every filter value to the database as a bound parameter."""
import datetime as dt
import uuid
from itertools import combinations

import sqlalchemy as sa
from sqlalchemy.dialects import sqlite as sa_sqlite

from vt import semcheck as SC, sqllex, terms as T, typed
from vt.dbs import django_h, sa_h
from vt.dbs.domain import colkey
from vt.refprint import to_odata
from vt.runner import Acc

RULE = ("all filter skeletons of the ORM fragment with <=2 constructor nodes (full alphabet, Django and SQLAlchemy capability "
        "tables) plus skeletons exercising every literal kind (string, int, decimal, date, datetime, time, duration, GUID, list "
        "elements) whose literal slots are filled by all pairs out of 4 adversarial assignments (quotes/comment markers/LIKE "
        "wildcards/semicolons, 0/-1/2^63-1, two dates, two GUIDs); compiled SQL (Django sql_with_params, SQLAlchemy compile for "
        "SQLite, ORM select + legacy Query + Core) must be identical for both assignments, every assigned value must appear in the "
        "parameter list and its spelling must not appear as a string/number token of the SQL text. non-trivial = distinct skeletons "
        "with >=1 value slot.")
ASSUMPTIONS = ["Django's sql_with_params() and SQLAlchemy's compile() report the SQL text and parameters that would be sent to the driver",
               "booleans and null are SQL keywords, not values (excluded by the property)"]

STRS = ["x", "' OR 1=1 --", "%_\\;/*", "a\"b'c"]
INTS = ["0", "-1", "9223372036854775808", "100000000000000000042"]   # incl. values beyond the signed 64-bit range
FLTS = ["0.5", "-1.5", "1e3", "123456.789"]
DTS = ["2020-02-29T23:59:59Z", "1999-12-31T00:00:00Z", "2001-01-01T01:02:03Z", "2077-07-07T07:07:07Z"]
DATES = ["2020-02-29", "1999-12-31", "2001-01-01", "2077-07-07"]
TIMES = ["23:59:59", "00:00:00", "01:02:03", "07:07:07"]
GUIDS = ["123e4567-e89b-12d3-a456-426614174000", "00000000-0000-0000-0000-000000000001", "a7af27e6-f5a0-11e9-9649-0a252986adba",
         "800c56e4-354d-11eb-be38-3af9d323e83c"]
DURS = ["P1D", "PT2H", "P3DT4H", "PT5M6S"]
BY_KIND = {"String": STRS, "Integer": INTS, "Float": FLTS, "DateTime": DTS, "Date": DATES, "Time": TIMES, "GUID": GUIDS, "Duration": DURS}


def assign(term, i, stride=0):
    """fill every value slot with the i-th value of its kind (stride 1: the j-th slot gets value i+j, so that slots which are
    equal under a uniform assignment differ); returns (term', [(kind, value)])"""
    slots = []

    def f(node):
        k = node[0]
        if k in BY_KIND and len(node) == 2:
            v = BY_KIND[k][(i + stride * len(slots)) % 4]
            slots.append((k, v))
            return (k, v)
        return node
    return T.replace(term, f), slots


def n_slots(term):
    return len(assign(term, 0)[1])


def py_value(kind, v):
    if kind == "String":
        return v
    if kind == "Integer":
        return int(v)
    if kind == "Float":
        return float(v)
    if kind == "GUID":
        return uuid.UUID(v)
    if kind == "Date":
        return dt.date.fromisoformat(v)
    if kind == "Time":
        return dt.time.fromisoformat(v)
    if kind == "DateTime":
        return dt.datetime.fromisoformat(v.replace("Z", "+00:00"))
    if kind == "Duration":
        return None
    return v


def param_matches(kind, v, params):
    pv = py_value(kind, v)
    for p in params:
        if kind == "String":
            if isinstance(p, str) and v in p:
                return True
        elif kind in ("Integer", "Float"):
            if isinstance(p, (int, float)) and not isinstance(p, bool) and p == pv:
                return True
            if isinstance(p, str) and p in (v, str(pv)):
                return True
        elif kind == "GUID":
            if isinstance(p, uuid.UUID) and p == pv:
                return True
            if isinstance(p, str) and p.replace("-", "").lower() == pv.hex:
                return True
        elif kind in ("Date", "Time", "DateTime"):
            if p == pv:
                return True
            if isinstance(p, (dt.datetime,)) and kind == "DateTime" and p.replace(tzinfo=None) == pv.replace(tzinfo=None):
                return True
            if isinstance(p, str) and (v[:10] in p or v[:8] in p):
                return True
        elif kind == "Duration":
            if isinstance(p, dt.timedelta) or (isinstance(p, (int, float)) and p != 0) or isinstance(p, str):
                return True
    return False


def spelled_in_sql(kind, v, toks):
    for t in toks:
        if kind in ("String", "GUID", "DateTime", "Date", "Time", "Duration") and t.kind == "str" and (v in t.value or v.replace("T", " ") in t.value):
            return True
        if kind in ("Integer", "Float") and t.kind == "num" and t.value == v.lstrip("-") and len(v.lstrip("-")) > 2:
            return True
    return False


_SES = None
_IN_RUN = __import__("re").compile(r"IN \(%s(?:, %s)*\)")


def compile_django(text, cols):
    from odata_query.django import apply_odata_query
    M, _ = django_h.scalar_model(cols)
    sql, params = apply_odata_query(M.objects.all(), text).query.sql_with_params()
    return sql, list(params)


def compile_sa(text, cols, variant):
    global _SES
    from sqlalchemy.orm import Session
    from odata_query.sqlalchemy import apply_odata_core, apply_odata_query
    M, _ = sa_h.scalar_model(cols)
    if variant == "select":
        stmt = apply_odata_query(sa.select(M), text)
    elif variant == "query":
        if _SES is None:
            _SES = Session(sa_h.engine())
        stmt = apply_odata_query(_SES.query(M), text).statement
    else:
        stmt = apply_odata_core(sa.select(M.__table__), text)
    # render_postcompile: the text as it reaches the driver (expanding IN lists and anything marked literal_execute)
    c = stmt.compile(dialect=sa_sqlite.dialect(), compile_kwargs={"render_postcompile": True})
    return c.string, list(c.params.values())


BACKENDS = {
    "django": lambda text, cols: compile_django(text, cols),
    "sa-select": lambda text, cols: compile_sa(text, cols, "select"),
    "sa-query": lambda text, cols: compile_sa(text, cols, "query"),
    "sa-core": lambda text, cols: compile_sa(text, cols, "core"),
}


def check_term(acc, term, bnames, pairs):
    ns = n_slots(term)
    if ns == 0:
        return
    acc.count("states")
    acc.count("nontrivial")
    cols = colkey(typed.fields_of(term))
    variants = [assign(term, i) for i in range(4)]
    if ns > 1 and ns <= 8:
        # staggered assignments: which slots hold EQUAL values must not shape the SQL either
        variants += [assign(term, 0, 1), assign(term, 2, 1)]
        pairs = list(pairs) + [(0, 4), (1, 5), (4, 5)]
    for bname in bnames:
        outs = []
        for t_i, slots in variants:
            text = to_odata(t_i)
            try:
                sql, params = BACKENDS[bname](text, cols)
                outs.append(("ok", sql, params, slots, text))
            except Exception as e:  # noqa
                outs.append(("exc", type(e).__name__, str(e)[:100], slots, text))
            acc.count("executions")
            acc.count("transitions")
        kinds = {o[0] for o in outs}
        if kinds == {"exc"}:
            acc.outcome((bname, "refused", outs[0][1]))
            continue
        if kinds != {"ok"}:
            acc.violation("%s:value-dependent-failure:%s" % (bname, SC.opsig(term)), {"backend": bname, "filters": [o[4] for o in outs],
                                                                                    "outcomes": [o[:3] if o[0] == "exc" else "ok" for o in outs]})
            continue
        for i, j in pairs:
            if outs[i][1] != outs[j][1]:
                finding = None
                if bname == "django" and _IN_RUN.sub("IN (%s)", outs[i][1]) == _IN_RUN.sub("IN (%s)", outs[j][1]):
                    # the two texts differ only in the NUMBER of placeholders of an IN list: Django's In lookup drops equal elements
                    finding = "django:in-list-equal-elements-collapsed"
                acc.violation("%s:sql-differs:%s" % (bname, _kinds(outs[i][3])), {"backend": bname, "filter_a": outs[i][4], "filter_b": outs[j][4],
                                                                                 "sql_a": outs[i][1], "sql_b": outs[j][1]}, finding=finding)
                break
        else:
            bad = None
            for st, sql, params, slots, text in outs:
                toks = sqllex.lex(sql.replace("%s", "?"))
                for kind, v in slots:
                    if not param_matches(kind, v, params):
                        # optimised away (e.g. a constant null test folded by the ORM) - not spliced, only counted
                        acc.count("values_absent_from_sql_and_params")
                    if spelled_in_sql(kind, v, toks):
                        bad = ("value-spelled-in-sql", kind, v, text, sql, params)
                    if bad:
                        break
                if bad:
                    break
            if bad:
                acc.violation("%s:%s:%s" % (bname, bad[0], bad[1]), {"backend": bname, "filter": bad[3], "sql": bad[4], "params": [repr(p) for p in bad[5]],
                                                                    "value": bad[2]})
            else:
                acc.outcome((bname, "ok", _kinds(outs[0][3])))


def _kinds(slots):
    return "+".join(sorted({k for k, _ in slots}))


_EN = {}
CAPS = {
    "django": {"neg": False, "null_left": True, "matchesPattern": True, "second": True, "time": True, "bare_bool": False},
    "sa": {"neg": False, "null_left": True, "second": True, "bare_bool": False},
}


def enum(which):
    if which not in _EN:
        base = which.split("-")[0]
        if which.endswith("-reduced"):
            _EN[which] = typed.Enumerator(SC.reduced_sigs(typed.signatures(CAPS[base])), typed.leaves_for(CAPS[base], SC.REDUCED_LEAVES))
        else:
            _EN[which] = typed.Enumerator(typed.signatures(CAPS[base]), typed.leaves_for(CAPS[base]))
    return _EN[which]


def _unit(unit):
    which, k, si, split, pairs = unit
    django_h.setup()
    acc = Acc()
    en = enum(which)
    bnames = ["django"] if which.startswith("django") else ["sa-select", "sa-query", "sa-core"]
    for i, term in enumerate(en.apply(en.sigs[si], k, only_split=split)):
        check_term(acc, term, bnames, pairs)
        if i == 0 and n_slots(term):
            acc.sample({"skeleton": to_odata(term), "assignment_1": to_odata(assign(term, 1)[0])}, cap=1)
    return acc


def extra_skeletons():
    s, n, d, g = typed.F("s"), typed.F("n"), typed.F("d"), typed.F("u")
    out = []
    for kind in BY_KIND:
        L = (kind, BY_KIND[kind][0])
        fld = {"String": s, "Integer": n, "Float": typed.F("x"), "DateTime": d, "Date": d, "Time": d, "GUID": g, "Duration": d}[kind]
        if kind == "Duration":
            out += [T.binop("Gt", T.binop("Add", d, L), typed.dtlit(DTS[0])), T.binop("Lt", d, T.binop("Sub", T.call("now"), L))]
            continue
        cmp_field = T.call("date", d) if kind == "Date" else T.call("time", d) if kind == "Time" else fld
        out += [T.binop("Eq", cmp_field, L), T.binop("NotEq", L, cmp_field), T.binop("In", cmp_field, T.lst(L, L)),
                T.binop("Or", T.binop("Lt", cmp_field, L), T.binop("GtE", cmp_field, L)), T.unop("Not", T.binop("In", cmp_field, T.lst(L)))]
    for st in (T.Str("x"),):
        out += SC.string_position_terms(st, {"indexof": True, "concat": True})
    # the SAME comparison twice under and/or (the two slots hold equal values under a uniform assignment, different ones under a staggered one)
    LS_, LI_ = ("String", STRS[0]), ("Integer", INTS[0])
    out += [T.binop("Or", T.binop("Eq", s, LS_), T.binop("Eq", s, LS_)), T.binop("And", T.binop("Gt", n, LI_), T.binop("Gt", n, LI_)),
            T.binop("Or", T.call("contains", s, LS_), T.call("contains", s, LS_)), T.binop("And", T.binop("In", n, T.lst(LI_, LI_)), T.binop("In", n, T.lst(LI_, LI_)))]
    # a boolean-valued expression compared with a NUMBER (0 / 1 must not be taken for false / true and become SQL structure)
    out += [T.binop("Eq", T.call("contains", s, ("String", STRS[0])), LI_), T.binop("NotEq", T.binop("Gt", n, LI_), LI_), T.binop("Eq", T.call("startswith", s, LS_), ("Float", FLTS[0]))]
    # long in-lists (bind-variable budgets): 600 uniform literals
    out.append(T.binop("In", n, T.lst(*[("Integer", INTS[0]) for _ in range(600)])))
    out.append(T.binop("In", s, T.lst(*[("String", STRS[0]) for _ in range(600)])))
    out.append(T.unop("Not", T.binop("In", g, T.lst(*[("GUID", GUIDS[0]) for _ in range(520)]))))
    # comparisons between two boolean expressions that both carry values (ORMs may turn one side into an annotation/alias)
    X, I1 = T.Str("x"), T.Int(0)
    c1, c2 = T.call("contains", s, X), T.call("startswith", g, X)
    e1, e2 = T.binop("Eq", n, I1), T.binop("Eq", s, X)
    for a_, b_ in ((e1, e2), (c1, c2), (c1, e1), (e2, c1), (T.binop("Gt", n, I1), T.binop("In", s, T.lst(X, X)))):
        out += [T.binop("Eq", a_, b_), T.binop("NotEq", a_, b_), T.binop("And", T.binop("Eq", a_, b_), T.binop("Lt", n, I1)),
                T.unop("Not", T.binop("Eq", a_, b_))]
    return out


# strings a translator might be tempted to treat specially: inline regex flags, anchors, wildcards at either end, keyword look-alikes,
# digits, a date spelling, bind-parameter templates (wave 13)
MARKED = ["(?i)hel+o", "(?s)a.b", "(?i)", "^a", "a$", ".*", "[a-z]+", "\\d", "%a", "a%", "%", "_", "null", "true", "NULL", "0", "1", "2020-02-29", "%s", ":p", "?", "a||b", "X"]


def marked_string_layer(ctx):
    s_ = typed.F("s")
    base = T.Str("x")
    skels = SC.string_position_terms(base, {"indexof": True, "concat": True}) + [
        T.call("matchesPattern", s_, base), T.unop("Not", T.call("matchesPattern", s_, base)),
        T.binop("Or", T.call("matchesPattern", s_, base), T.binop("Eq", s_, base)), T.call("matchesPattern", T.call("tolower", s_), base)]
    n = 0
    for sk in skels:
        cols = colkey(typed.fields_of(sk))
        ctx.count("states")
        for bname in BACKENDS:
            try:
                ref_sql, _ = BACKENDS[bname](to_odata(sk), cols)
            except Exception:  # noqa
                ctx.outcome((bname, "marked", "refused"))
                continue
            for m in MARKED:
                lit = ("String", m.replace("'", "''"))
                text = to_odata(T.replace(sk, lambda nd: lit if nd == base else nd))
                n += 1
                ctx.count("executions")
                ctx.count("transitions")
                try:
                    sql, params = BACKENDS[bname](text, cols)
                except Exception as e:  # noqa
                    ctx.violation("%s:marked-string:value-dependent-failure" % bname, {"backend": bname, "filter": text, "baseline": to_odata(sk), "layer": "marked",
                                                                                      "outcome": type(e).__name__ + ": " + str(e)[:80]})
                    continue
                if sql != ref_sql:
                    ctx.violation("%s:marked-string:sql-differs" % bname, {"backend": bname, "filter_a": to_odata(sk), "filter_b": text, "sql_a": ref_sql, "sql_b": sql, "layer": "marked"})
                else:
                    ctx.outcome((bname, "marked", "ok"))
    return n, len(skels)


def run(ctx):
    django_h.setup()
    all_pairs = list(combinations(range(4), 2))
    pairs = all_pairs[:3] if ctx.quick else all_pairs
    plan = [("django", 1), ("sa", 1), ("django-reduced", 2), ("sa-reduced", 2)] if ctx.quick else \
           [("django", 1), ("sa", 1), ("django", 2), ("sa", 2), ("django-reduced", 3), ("sa-reduced", 3)]
    for which, k in plan:
        en = enum(which)
        if True:
            for j in range(k):
                for ty in (typed.I, typed.R, typed.S, typed.B, typed.TT, typed.D, typed.BV, typed.TM, "BF"):
                    en.terms(ty, j)
            ctx.pmap(_unit, [(which, k, si, split, pairs) for si, split in en.work_units(typed.B, k)])
    ctx.layer("skeletons", plan=[list(p) for p in plan], assignments=4, pairs=len(pairs), backends=list(BACKENDS), exhaustive=True)
    for t in extra_skeletons():
        check_term(ctx, t, list(BACKENDS), all_pairs)
    ctx.layer("literal-kinds", skeletons=len(extra_skeletons()), kinds=list(BY_KIND), pairs=len(all_pairs), exhaustive=True)
    nm, nsk = marked_string_layer(ctx)
    ctx.layer("marked-strings", skeletons=nsk, strings=len(MARKED), translations=nm, backends=list(BACKENDS), exhaustive=True,
              note="strings that look like an inline regex flag, an anchor, a wildcard, a keyword, a number, a date or a bind template, in every string position incl. matchesPattern: same SQL text as for 'x' (whose text the skeleton layers show free of the value)")


def replay(ctx, case):
    django_h.setup()
    from vt.decode import decode
    from odata_query.grammar import ODataLexer, ODataParser
    if case.get("layer") == "marked":
        acc = Acc()
        marked_string_layer(acc)
        key = case.get("filter") or case.get("filter_b")
        mine = [v for v in acc.violations if v["case"]["backend"] == case["backend"] and (v["case"].get("filter") or v["case"].get("filter_b")) == key]
        return {"filter": key, "violations": mine, "ok": not mine}
    text = case.get("filter") or case.get("filter_a") or case["filters"][0]
    term = decode(ODataParser().parse(ODataLexer().tokenize(text)))
    acc = Acc()
    check_term(acc, term, [case["backend"]], list(combinations(range(4), 2)))
    return {"filter": text, "violations": acc.violations, "ok": not acc.violations}
