"""C03 - SQLAlchemy ORM and Core shorthands return exactly the rows the filter denotes."""
import sqlalchemy as sa
from sqlalchemy.orm import Session

from vt import semcheck as SC, typed, terms as T
from vt.dbs import sa_h
from vt.runner import Acc

RULE = ("all typed Bool terms with <=k constructor nodes over the SQLAlchemy capability table as executable on SQLite (no unary "
        "minus, indexof, concat, date(), time(); boolean fields/literals only as comparison operands), printed minimally and fully "
        "parenthesised, applied through apply_odata_query to select(Model) and session.query(Model) and through apply_odata_core to "
        "select(table); every entry style must return the rows R-EVAL makes true (hence agree with each other). Every keyword "
        "occurrence (eq, and, not, true, null, in, ...) is additionally upper-cased / title-cased (all single deviations, all-upper, "
        "all-title): the result must not change. Plus every string of length <=2 over {a,A,%,_,',\\\\,space} in every string-literal "
        "position. non-trivial = distinct filters whose truth vector is not constant.")
ASSUMPTIONS = ["R-EVAL reference semantics (DESIGN.md Appendix B)", "SQLAlchemy 2.0 + SQLite 3.40 with case_sensitive_like=ON"]

_SES = None


def session():
    global _SES
    if _SES is None:
        _SES = Session(sa_h.engine())
    return _SES


class SA(SC.Backend):
    name = "sqlalchemy"
    cap = {"neg": False, "null_left": True, "matchesPattern": False, "second": True, "time": False, "date": False, "bare_bool": False,
           "indexof": False, "concat": False, "literal_haystack": True, "floor": False, "ceiling": False}
    defect_models = ["like-all-wildcards", "int-true-div"]
    variants = ["select", "query", "core"]

    def run(self, text, cols, variant):
        from odata_query.sqlalchemy import apply_odata_core, apply_odata_query
        M, rows = sa_h.scalar_model(cols)
        ses = session()
        try:
            if variant == "select":
                return set(r.id for r in ses.execute(apply_odata_query(sa.select(M), text)).scalars())
            if variant == "query":
                return set(r.id for r in apply_odata_query(ses.query(M), text).all())
            return set(r.id for r in ses.execute(apply_odata_core(sa.select(M.__table__), text)))
        except Exception as e:  # noqa
            ses.rollback()
            return ("EXC", type(e).__name__, str(e)[:200].replace("\n", " "))


BK = SA()


# ---- two mapped classes with the SAME class name (separate registries, different tables): nothing may be keyed by the bare class name
_TWIN = None


def twin_model(cols):
    """a second declarative class called exactly like the harness model of `cols`, in its own registry, over its own table that holds
    every second row with id + 1000"""
    global _TWIN
    if _TWIN is None:
        from sqlalchemy.orm import declarative_base
        M, rows = sa_h.scalar_model(cols)
        Base2 = declarative_base()
        attrs = {"__tablename__": "twin_" + M.__tablename__, "id": sa.Column(sa.Integer, primary_key=True)}
        for c in M.__table__.columns:
            if c.name != "id":
                attrs[c.name] = sa.Column(c.type.__class__)
        Tw = type(M.__name__, (Base2,), attrs)
        Tw.__table__.create(sa_h.engine())
        kept = [r for r in rows if r["id"] % 2 == 0]
        with Session(sa_h.engine()) as ses:
            for r in kept:
                d = r["d"].replace(tzinfo=None) if r["d"] is not None else None
                ses.add(Tw(id=r["id"] + 1000, n=r["n"], m=r["m"], x=r["x"], s=r["s"], u=r["u"], b=r["b"], d=d))
            ses.commit()
        _TWIN = (Tw, {r["id"] for r in kept})
    return _TWIN


def same_named_models_layer(ctx):
    from odata_query.sqlalchemy import apply_odata_core, apply_odata_query
    n_, s_ = typed.F("n"), typed.F("s")
    cols = ("n", "s")
    terms = [T.binop("Gt", n_, T.Int(1)), T.binop("Eq", s_, T.Str("a")), T.binop("Or", T.binop("In", n_, T.lst(T.Int(1), T.Int(2))), T.binop("NotEq", s_, T.NULL)),
             T.unop("Not", T.binop("LtE", n_, T.Int(0))), T.call("contains", s_, T.Str("a")), T.binop("Eq", T.call("length", s_), n_)]
    M, _ = sa_h.scalar_model(cols)
    Tw, kept = twin_model(cols)
    ses = session()
    from vt.refprint import to_odata
    count = 0
    for order in (("own", "twin"), ("twin", "own"), ("own", "twin", "own")):
        for term in terms:
            text = to_odata(term)
            true_ids, undef, _n = SC.expected_ids(term, SC.colkey(cols) if hasattr(SC, "colkey") else cols)
            if undef:
                continue
            for which in order:
                model = M if which == "own" else Tw
                want = true_ids if which == "own" else {i + 1000 for i in true_ids if i in kept}
                for variant in ("select", "query", "core"):
                    count += 1
                    ctx.count("executions")
                    ctx.count("transitions")
                    try:
                        if variant == "select":
                            got = set(r.id for r in ses.execute(apply_odata_query(sa.select(model), text)).scalars())
                        elif variant == "query":
                            got = set(r.id for r in apply_odata_query(ses.query(model), text).all())
                        else:
                            got = set(r.id for r in ses.execute(apply_odata_core(sa.select(model.__table__), text)))
                    except Exception as e:  # noqa
                        ses.rollback()
                        got = ("EXC", type(e).__name__, str(e)[:160].replace("\n", " "))
                    if got != want:
                        ctx.violation("same-named-models:%s:%s" % (variant, which), {"layer": "same-named-models", "filter": text, "variant": variant, "model": which, "order": list(order),
                                                                                    "expected": sorted(want)[:20], "observed": sorted(got)[:20] if isinstance(got, set) else list(got)})
                    else:
                        ctx.outcome(("same-named", variant, which))
    return count


# ---- `add` between strings: concatenation, which is NOT commutative (the library's tests pin 'donut' add 'tello')
def string_add_terms():
    s_, u_ = typed.F("s"), typed.F("u")
    E = [s_, u_, T.Str("x"), T.Str("ab"), T.Str("")]
    out = []
    for e1 in E:
        for e2 in E:
            cat = T.binop("Add", e1, e2)
            out += [T.binop("Eq", cat, s_), T.binop("Eq", T.Str("xab"), cat), T.binop("NotEq", cat, u_), T.call("startswith", cat, T.Str("x")),
                    T.binop("Eq", T.call("length", cat), T.Int(2))]
            for e3 in E[:3]:
                out += [T.binop("Eq", T.binop("Add", cat, e3), s_), T.binop("Eq", T.binop("Add", e3, cat), s_)]
    seen, uniq = set(), []
    for t in out:
        if t not in seen and typed.fields_of(t):
            seen.add(t)
            uniq.append(t)
    return uniq


def _string_add_unit(terms):
    SC.init_now()
    acc = Acc()
    for t in terms:
        SC.check_term_generic(acc, BK, t, kwcase=True)
    return acc


def run(ctx):
    SC.init_now()
    n = SC.generic_layer(ctx, BK, "full", 0, kwcase=True) + SC.generic_layer(ctx, BK, "full", 1, kwcase=True)
    ctx.layer("full-alphabet-k1+keyword-case", k_max=1, filters=n, kwcase_variants=int(ctx.counts["kwcase_variants"]), exhaustive=True)
    if ctx.quick:
        B = 4
        n2 = SC.generic_layer(ctx, BK, "full", 2, block=(ctx.seed % B, B))
        ctx.layer("full-alphabet-k2-block", block="%d of %d (VERIF_SEED mod %d)" % (ctx.seed % B, B, B), filters=n2, exhaustive=False,
                  note="thorough covers all blocks")
        n2r = SC.generic_layer(ctx, BK, "reduced", 2, kwcase=True)
        ctx.layer("reduced-alphabet-k2+keyword-case", filters=n2r, exhaustive=True)
    else:
        n2 = SC.generic_layer(ctx, BK, "full", 2)
        ctx.layer("full-alphabet-k2", filters=n2, exhaustive=True)
        n3 = SC.generic_layer(ctx, BK, "reduced", 3, kwcase=True)
        ctx.layer("reduced-alphabet-k3+keyword-case", filters=n3, exhaustive=True)
    nrf = SC.refusable_layer(ctx, BK)
    ctx.layer("logic-as-comparison-operand", filters=nrf, exhaustive=True,
              note="and/or/not as an operand of eq / ne / a null test: refused with a library exception, or answered with the right rows")
    nb = SC.boolean_operand_layer(ctx, BK)
    ctx.layer("boolean-operands", filters=nb, exhaustive=True,
              note="eq/ne between every ordered pair of boolean-valued lookups (comparisons, boolean functions, null tests, in-tests, the boolean field, literals), alone, negated and beside another clause; the bare boolean field as a predicate")
    nd = SC.deep_layer(ctx, BK, (4, 6) if ctx.quick else (4, 6, 8))
    ctx.layer("pumped-towers", filters=nd, depths=[4, 6] if ctx.quick else [4, 6, 8], exhaustive=True,
              note="every self-composable constructor and every ordered pair of them, stacked on the left and right spine; long in-lists and and/or chains")
    nr = SC.reverse_pass(ctx, BK)
    ctx.layer("reverse-order-pass", k=1, filters=nr, exhaustive=True, note="same filters, opposite translation history per worker")
    ns = SC.generic_strings(ctx, BK, 2)
    ctx.layer("string-literals", strings=ns, positions=len(SC.string_position_terms(T.Str("x"), BK.cap)), exhaustive=True)
    sat = string_add_terms()
    ctx.pmap(_string_add_unit, [sat[i::16] for i in range(16)])
    ctx.layer("string-add", filters=len(sat), exhaustive=True, note="concatenation through `add`: every ordered pair of {field, field, literal, literal, empty literal}, nested on either side")
    nsn = same_named_models_layer(ctx)
    ctx.layer("same-named-models", translations=nsn, orders=3, exhaustive=True,
              note="a second mapped class with the same class name over another table, filtered alternately with the first: each gets its own rows")
    ctx.extra["entry_styles_disagree"] = int(ctx.counts["entry_styles_disagree"])


def _untuple(x):
    return tuple(_untuple(e) for e in x) if isinstance(x, list) else x


def replay(ctx, case):
    if case.get("layer") == "same-named-models":
        acc = Acc()
        SC.init_now()
        same_named_models_layer(acc)
        mine = [v for v in acc.violations if v["case"]["filter"] == case["filter"] and v["case"]["variant"] == case["variant"] and v["case"]["model"] == case["model"]]
        return {"filter": case["filter"], "violations": mine, "ok": not mine}
    SC.init_now()
    term = _untuple(case["term"])
    from vt.dbs.domain import colkey
    cols = colkey(typed.fields_of(term))
    acc = Acc()
    ok = True
    for v in BK.variants:
        got = BK.run(case["text"], cols, v)
        ok = SC.judge(acc, "sqlalchemy", term, case["text"], cols, got, [], {"variant": v}) and ok
    return {"text": case["text"], "violations": acc.violations, "ok": ok}
