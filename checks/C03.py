"""C03 - SQLAlchemy ORM and Core shorthands return exactly the rows the filter denotes."""
import sqlalchemy as sa
from sqlalchemy.orm import Session

from vt import semcheck as SC, typed, terms as T
from vt.dbs import sa_h
from vt.runner import Acc

RULE = ("all typed Bool terms with <=k constructor nodes over the SQLAlchemy capability table as executable on SQLite (no unary "
        "minus, indexof, concat, date(), time(); boolean fields/literals only as comparison operands), printed minimally and fully "
        "parenthesised, applied through apply_odata_query to select(Model) and session.query(Model) and through apply_odata_core to "
        "select(table); every entry style must return the rows R-EVAL makes true (hence agree with each other). Every keyword "
        "occurrence (eq, and, not, true, null, in, ...) is additionally upper-cased / title-cased (all single deviations, all-upper, "
        "all-title): the result must not change. Plus every string of length <=2 over {a,A,%,_,',\\\\,space} in every string-literal "
        "position. non-trivial = distinct filters whose truth vector is not constant.")
ASSUMPTIONS = ["R-EVAL reference semantics (DESIGN.md Appendix B)", "SQLAlchemy 2.0 + SQLite 3.40 with case_sensitive_like=ON"]

_SES = None


def session():
    global _SES
    if _SES is None:
        _SES = Session(sa_h.engine())
    return _SES


class SA(SC.Backend):
    name = "sqlalchemy"
    cap = {"neg": False, "null_left": True, "matchesPattern": False, "second": True, "time": False, "date": False, "bare_bool": False,
           "indexof": False, "concat": False, "literal_haystack": True, "floor": False, "ceiling": False}
    defect_models = ["like-all-wildcards", "int-true-div"]
    variants = ["select", "query", "core"]

    def run(self, text, cols, variant):
        from odata_query.sqlalchemy import apply_odata_core, apply_odata_query
        M, rows = sa_h.scalar_model(cols)
        ses = session()
        try:
            if variant == "select":
                return set(r.id for r in ses.execute(apply_odata_query(sa.select(M), text)).scalars())
            if variant == "query":
                return set(r.id for r in apply_odata_query(ses.query(M), text).all())
            return set(r.id for r in ses.execute(apply_odata_core(sa.select(M.__table__), text)))
        except Exception as e:  # noqa
            ses.rollback()
            return ("EXC", type(e).__name__, str(e)[:200].replace("\n", " "))


BK = SA()


def run(ctx):
    SC.init_now()
    n = SC.generic_layer(ctx, BK, "full", 0, kwcase=True) + SC.generic_layer(ctx, BK, "full", 1, kwcase=True)
    ctx.layer("full-alphabet-k1+keyword-case", k_max=1, filters=n, kwcase_variants=int(ctx.counts["kwcase_variants"]), exhaustive=True)
    if ctx.quick:
        B = 4
        n2 = SC.generic_layer(ctx, BK, "full", 2, block=(ctx.seed % B, B))
        ctx.layer("full-alphabet-k2-block", block="%d of %d (VERIF_SEED mod %d)" % (ctx.seed % B, B, B), filters=n2, exhaustive=False,
                  note="thorough covers all blocks")
        n2r = SC.generic_layer(ctx, BK, "reduced", 2, kwcase=True)
        ctx.layer("reduced-alphabet-k2+keyword-case", filters=n2r, exhaustive=True)
    else:
        n2 = SC.generic_layer(ctx, BK, "full", 2)
        ctx.layer("full-alphabet-k2", filters=n2, exhaustive=True)
        n3 = SC.generic_layer(ctx, BK, "reduced", 3, kwcase=True)
        ctx.layer("reduced-alphabet-k3+keyword-case", filters=n3, exhaustive=True)
    nrf = SC.refusable_layer(ctx, BK)
    ctx.layer("logic-as-comparison-operand", filters=nrf, exhaustive=True,
              note="and/or/not as an operand of eq / ne / a null test: refused with a library exception, or answered with the right rows")
    nb = SC.boolean_operand_layer(ctx, BK)
    ctx.layer("boolean-operands", filters=nb, exhaustive=True,
              note="eq/ne between every ordered pair of boolean-valued lookups (comparisons, boolean functions, null tests, in-tests, the boolean field, literals), alone, negated and beside another clause; the bare boolean field as a predicate")
    nd = SC.deep_layer(ctx, BK, (4, 6) if ctx.quick else (4, 6, 8))
    ctx.layer("pumped-towers", filters=nd, depths=[4, 6] if ctx.quick else [4, 6, 8], exhaustive=True,
              note="every self-composable constructor and every ordered pair of them, stacked on the left and right spine; long in-lists and and/or chains")
    nr = SC.reverse_pass(ctx, BK)
    ctx.layer("reverse-order-pass", k=1, filters=nr, exhaustive=True, note="same filters, opposite translation history per worker")
    ns = SC.generic_strings(ctx, BK, 2)
    ctx.layer("string-literals", strings=ns, positions=len(SC.string_position_terms(T.Str("x"), BK.cap)), exhaustive=True)
    ctx.extra["entry_styles_disagree"] = int(ctx.counts["entry_styles_disagree"])


def _untuple(x):
    return tuple(_untuple(e) for e in x) if isinstance(x, list) else x


def replay(ctx, case):
    SC.init_now()
    term = _untuple(case["term"])
    from vt.dbs.domain import colkey
    cols = colkey(typed.fields_of(term))
    acc = Acc()
    ok = True
    for v in BK.variants:
        got = BK.run(case["text"], cols, v)
        ok = SC.judge(acc, "sqlalchemy", term, case["text"], cols, got, [], {"variant": v}) and ok
    return {"text": case["text"], "violations": acc.violations, "ok": ok}
