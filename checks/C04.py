"""C04 - Navigation paths and any/all lambdas mean what OData says on ORM backends."""
import sqlalchemy as sa
from sqlalchemy.orm import Session

from vt import relational as RL, terms as T
from vt.dbs import django_h, rel_load, sa_h
from vt.refprint import to_odata
from vt.runner import Acc

RULE = ("relational grammar per root entity (Person, Blog, Post, Comment, Tag): to-one paths of depth 1..3 in scalar predicates "
        "(eq/ne/gt/in/null tests/arith/string function, literal on either side), any(), any(x:p), all(x:p) on one-to-many and "
        "many-to-many collections reached directly or through a to-one prefix, lambda nesting <=2, bodies over non-null child "
        "columns, all and/or/not compositions of two atoms (thorough: plus three-atom compositions) x database instances: a product "
        "instance (disjoint union of the small instances, so each parent must be matched on its own rows only) and ALL small "
        "instances of 6 families (A: 2 posts x comment multisets <=3 over FK{NULL,p1,p2} x score{0,2} = 84; B: the same for "
        "Person<-Post; C: 2 posts x 2 tags, all 16 link matrices; D: nested Person<-Blog<-Post, 219; E: to-one chains with every "
        "NULL pattern; F: globally empty tables). Django shorthand, SQLAlchemy select() and legacy Query must each return exactly "
        "(as a multiset) the ids relational R-EVAL computes. non-trivial = distinct (filter, instance) pairs whose expected id set is "
        "neither empty nor everything.")
ASSUMPTIONS = ["relational R-EVAL: missing related row = null; any over empty = false; all over empty = true",
               "lambda bodies that navigate a to-one relationship are a flagged extension of the quantifier"]

ROOTS = ("Person", "Blog", "Post", "Comment", "Tag", "City")
_SES = None
_FILTERS = None
_INST = None


def session():
    global _SES
    if _SES is None:
        _SES = Session(sa_h.engine())
    return _SES


def filters(thorough):
    global _FILTERS
    if _FILTERS is None:
        out = {}
        for root in ROOTS:
            plain = RL.plain_atoms(root)
            paths = RL.path_atoms(root)
            lams = RL.lambda_atoms(root, allow_body_nav=True)
            fs = plain + paths + lams
            # two-atom compositions: (path|lambda) x plain, lambda x path, lambda x lambda (strided)
            nav = paths + lams
            fs += RL.compositions(nav[::9], plain[:2])
            fs += RL.compositions(lams[::11], paths[::13])
            fs += RL.compositions(lams[::13], lams[1::17])
            # two to-one paths in one filter (incl. same-named relationships on different models), and a nested lambda
            # followed / preceded by another collection lambda at the outer level
            fs += RL.compositions(paths[::6], paths[3::7])
            nested = [x for x in lams if x[0] in ("any-any", "all-any", "any-all", "all-any0", "any-notany0")]
            simple = [x for x in lams if x[0] in ("any", "all", "any0")]
            for (ka, a), (kb, b) in list(zip(nested, (simple * 9)[:len(nested)]))[:10]:
                fs.append((ka + "&" + kb, T.binop("And", a, b)))
                fs.append((kb + "&" + ka, T.binop("And", b, a)))
                fs.append((ka + "|!" + kb, T.binop("Or", a, T.unop("Not", b))))
            if root == "Post":
                # the two same-NAMED relationships (Post.owner -> City, Blog.owner -> Person) in one filter, both orders
                o_city = T.binop("Eq", T.path("owner", "name"), T.Str("c1"))
                o_pers = T.binop("Eq", T.path("blog", "owner", "name"), T.Str("p1"))
                o_age = T.binop("Eq", T.path("blog", "owner", "age"), T.NULL)
                for a_, b_ in ((o_city, o_pers), (o_pers, o_city), (o_city, o_age), (o_age, o_city)):
                    fs += [("same-name&", T.binop("And", a_, b_)), ("same-name|", T.binop("Or", a_, b_)), ("same-name|!", T.binop("Or", T.unop("Not", a_), b_))]
            # two lambdas over the SAME collection with the same quantifier and variable under and / or: each quantifies on its own
            # (all(p) or all(q) is not all(p or q); any(p) and any(q) is not any(p and q))
            for rel, (ct, _) in RL.SCHEMA[root]["many"].items():
                bodies = RL.nonnull_body_atoms("x", ct)
                for i in range(len(bodies)):
                    for j in range(len(bodies)):
                        if i == j or (i + j) % 3 == 2:
                            continue
                        for q in ("All", "Any"):
                            la, lb = T.lam(T.I(rel), q, "x", bodies[i]), T.lam(T.I(rel), q, "x", bodies[j])
                            fs.append(("same-coll:%s|%s" % (q, q), T.binop("Or", la, lb)))
                            fs.append(("same-coll:%s&%s" % (q, q), T.binop("And", la, lb)))
            # three distinct relationships in one filter (and / or / not), strided
            for (ka, a), (kb, b), (kc, c) in list(zip(lams[::5], (paths[1::3] * 9)[:len(lams)], (paths[::4] * 9)[:len(lams)]))[:12]:
                fs.append((ka + "&" + kb + "|" + kc, T.binop("Or", T.binop("And", a, b), c)))
                fs.append(("!" + ka + "&" + kb + "&" + kc, T.binop("And", T.binop("And", T.unop("Not", a), b), c)))
            if thorough:
                fs += RL.compositions(nav[::2], plain[:3])
                fs += RL.compositions(lams[::3], paths[::4])
                fs += RL.compositions(lams[::5], lams[1::7])
                fs += RL.compositions(nav, plain)
                three = []
                for (ka, a), (kb, b), (kc, c) in zip(lams[::2], paths[::2] * 5, plain * 20):
                    three.append((ka + "&(" + kb + "|" + kc + ")", T.binop("And", a, T.binop("Or", b, c))))
                    three.append(("!(" + ka + "|" + kb + ")&" + kc, T.binop("And", T.unop("Not", T.binop("Or", a, b)), c)))
                fs += three
            seen, uniq = set(), []
            for k, t in fs:
                if t not in seen:
                    seen.add(t)
                    uniq.append((k, t, to_odata(t)))
            out[root] = uniq
        _FILTERS = out
    return _FILTERS


def instances():
    global _INST
    if _INST is None:
        _INST = RL.small_instances()
    return _INST


def run_backend(bk, M, R, root, text):
    try:
        if bk == "django":
            from odata_query.django import apply_odata_query
            return sorted(apply_odata_query(getattr(M, root).objects.all(), text).values_list("id", flat=True))
        from odata_query.sqlalchemy import apply_odata_query
        ses = session()
        if bk == "sa-select":
            return sorted(r.id for r in ses.execute(apply_odata_query(sa.select(R[root]), text)).scalars())
        return sorted(r.id for r in apply_odata_query(ses.query(R[root]), text).all())
    except Exception as e:  # noqa
        if bk != "django":
            session().rollback()
        return ("EXC", type(e).__name__, str(e)[:160].replace("\n", " "))


BACKENDS = ("django", "sa-select", "sa-query")


def _segments(t):
    segs = []
    while t[0] == "Attribute":
        segs.append(t[2])
        t = t[1]
    if t[0] != "Identifier":
        return None
    segs.append(t[1])
    return tuple(reversed(segs))


def joined_prefixes(root, term):
    """to-one relationship prefixes the ROOT query has to join (outside lambda bodies), with their target tables"""
    out = {}

    def walk(t):
        k = t[0]
        if k == "Attribute":
            segs = _segments(t)
            if segs:
                tbl = root
                for i, sname in enumerate(segs):
                    if sname in RL.SCHEMA[tbl]["one"]:
                        tbl = RL.SCHEMA[tbl]["one"][sname]
                        out[segs[:i + 1]] = tbl
                    else:
                        break
            return
        if k == "CollectionLambda":
            walk(t[1])
            return          # bodies are translated by a nested visitor
        if k == "Call":
            for a in t[2][1:]:
                walk(a)
            return
        if k == "List":
            for a in t[1][1:]:
                walk(a)
            return
        for c in t[1:]:
            if isinstance(c, tuple) and c and isinstance(c[0], str) and c[0][:1].isupper() and len(c) > 1:
                walk(c)
    walk(term)
    return out


def classify(bk, kind, term, root, got):
    """catalogued findings, attributed by a precise trigger (see known_findings.json)"""
    if bk.startswith("sa") and isinstance(got, tuple) and got[1] == "OperationalError" and "ambiguous column name" in got[2]:
        targets = list(joined_prefixes(root, term).values())
        if len(targets) != len(set(targets)):
            return "sa:same-table-joined-via-two-paths"
    if bk.startswith("sa") and "bodynav" in kind and not isinstance(got, tuple):
        return "sa:lambda-body-navigation-join-dropped"
    return None


def coarse(kind):
    import re
    parts = sorted(set(p for p in re.split(r"[&|!()]+", kind) if p))
    return "+".join(parts)


def check_instance(acc, fam, db, thorough, only_root=None):
    import warnings
    warnings.simplefilter("ignore")
    M = rel_load.load_django(db)
    R = rel_load.load_sa(db)
    session().expire_all()
    ev = RL.RelEval(db)
    acc.count("states")
    for root, fs in filters(thorough).items():
        if only_root and root != only_root:
            continue
        nroot = len(db.rows[root])
        for kind, term, text in fs:
            exp = ev.rows_true(root, term)
            if exp is None:
                acc.count("undef_filter_instance_pairs")
                continue
            exp = sorted(exp)
            if 0 < len(exp) < nroot:
                acc.count("nontrivial")
            for bk in BACKENDS:
                got = run_backend(bk, M, R, root, text)
                acc.count("executions")
                acc.count("transitions")
                if got == exp:
                    acc.outcome((bk, kind.split("&")[0].split("|")[0][:12], bool(exp)))
                    continue
                finding = classify(bk, kind, term, root, got)
                ck = coarse(kind)
                if isinstance(got, tuple):
                    cls = "%s:exc:%s:%s" % (bk, got[1], ck)
                elif sorted(set(got)) == exp:
                    cls = "%s:duplicates:%s" % (bk, ck)
                else:
                    cls = "%s:rows:%s" % (bk, ck)
                acc.violation(cls, {"backend": bk, "root": root, "filter": text, "kind": kind, "family": fam, "instance": db.describe() if db.size() < 40 else "product",
                                    "expected": exp[:30], "observed": got[:30] if not isinstance(got, tuple) else list(got)}, finding=finding)


def _unit(unit):
    idxs, thorough = unit
    django_h.setup()
    acc = Acc()
    inst = instances()
    for i in idxs:
        fam, db = inst[i]
        check_instance(acc, fam, db, thorough)
    if idxs:
        fam, db = inst[idxs[0]]
        acc.sample({"family": fam, "instance": db.describe(), "filter": filters(thorough)["Post"][40][2]}, cap=1)
    return acc


def _product_unit(unit):
    root, idxs, thorough = unit
    django_h.setup()
    acc = Acc()
    inst = instances()
    db = RL.product_instance([inst[i] for i in idxs])
    check_instance(acc, "product", db, thorough, only_root=root)
    return acc


# ---------------------------------------------------------------- alternate schema shapes
# Node(code unique) <- Item.node (foreign key on the non-primary-key column `code`; Item's only manager is called `rows`);
# Node <- Extra.node one-to-one (Node.extra is the reverse side). Every small instance; oracle written out per filter.
ALT_CODES = ["c2", "c1", "c3"]        # node ids 1..3 - codes deliberately NOT in id order


def alt_instances():
    from itertools import product
    out = []
    for assign in product([None, 0, 1, 2], repeat=2):           # node index of item 1 / item 2
        for names in (("i1", "i1"), ("i1", "i2")):
            for extras in product([False, True], repeat=3):
                out.append({"items": list(zip(names, assign)), "extras": extras})
    return out


def _alt_children(db, k):
    return [nm for nm, nd in db["items"] if nd == k]


ALT_FILTERS = {
    "Node": {
        "items/any()": lambda db, k: bool(_alt_children(db, k)),
        "items/any(i: i/name eq 'i1')": lambda db, k: "i1" in _alt_children(db, k),
        "items/all(i: i/name eq 'i1')": lambda db, k: all(c == "i1" for c in _alt_children(db, k)),
        "not items/any()": lambda db, k: not _alt_children(db, k),
        "extra eq null": lambda db, k: not db["extras"][k],
        "extra ne null": lambda db, k: db["extras"][k],
        "items/any(i: i/name eq 'i2') or extra eq null": lambda db, k: "i2" in _alt_children(db, k) or not db["extras"][k],
        "extra/note eq 'e'": lambda db, k: db["extras"][k],
        "code eq 'c1' and items/all(i: i/name ne 'i2')": lambda db, k: ALT_CODES[k] == "c1" and all(c != "i2" for c in _alt_children(db, k)),
    },
    "Item": {
        "node eq null": lambda db, j: db["items"][j][1] is None,
        "node ne null": lambda db, j: db["items"][j][1] is not None,
        "node/code eq 'c2'": lambda db, j: db["items"][j][1] is not None and ALT_CODES[db["items"][j][1]] == "c2",
        "node/extra eq null": lambda db, j: db["items"][j][1] is None or not db["extras"][db["items"][j][1]],
        "node/extra ne null": lambda db, j: db["items"][j][1] is not None and db["extras"][db["items"][j][1]],
        "node/items/any(j: j/name eq 'i2')": lambda db, j: db["items"][j][1] is not None and "i2" in _alt_children(db, db["items"][j][1]),
        # the related row's PRIMARY key, while the foreign key holds another column of it (codes are not in id order)
        "node/id eq 2": lambda db, j: db["items"][j][1] == 1,
        "node/id ne 1": lambda db, j: db["items"][j][1] is not None and db["items"][j][1] != 0,
        "node/id in (1, 3)": lambda db, j: db["items"][j][1] in (0, 2),
        "node/id eq 2 or name eq 'i2'": lambda db, j: db["items"][j][1] == 1 or db["items"][j][0] == "i2",
        "node/extra/note eq 'e' or name eq 'i2'": lambda db, j: (db["items"][j][1] is not None and db["extras"][db["items"][j][1]]) or db["items"][j][0] == "i2",
    },
}


def _alt_load(db):
    M = django_h.alternate_models()
    R = sa_h.alternate()
    M.Extra.objects.all().delete()
    M.Item.rows.all().delete()
    M.Node.objects.all().delete()
    ses = session()
    for cls in ("Extra", "Item", "Node"):
        ses.execute(sa.delete(R[cls]))
    for k, code in enumerate(ALT_CODES):
        M.Node.objects.create(id=k + 1, code=code)
        ses.add(R["Node"](id=k + 1, code=code))
    for j, (nm, nd) in enumerate(db["items"]):
        M.Item.rows.create(id=j + 1, name=nm, node_id=None if nd is None else ALT_CODES[nd])
        ses.add(R["Item"](id=j + 1, name=nm, node_code=None if nd is None else ALT_CODES[nd]))
    for k, has in enumerate(db["extras"]):
        if has:
            M.Extra.objects.create(id=k + 1, note="e", node_id=k + 1)
            ses.add(R["Extra"](id=k + 1, note="e", node_id=k + 1))
    ses.commit()
    return M, R


def _alt_run(bk, M, R, root, text):
    try:
        if bk == "django":
            from odata_query.django import apply_odata_query
            mgr = M.Item.rows if root == "Item" else M.Node.objects
            return sorted(apply_odata_query(mgr.all(), text).values_list("id", flat=True))
        from odata_query.sqlalchemy import apply_odata_query
        ses = session()
        if bk == "sa-select":
            return sorted(r.id for r in ses.execute(apply_odata_query(sa.select(R[root]), text)).scalars())
        return sorted(r.id for r in apply_odata_query(ses.query(R[root]), text).all())
    except Exception as e:  # noqa
        if bk != "django":
            session().rollback()
        return ("EXC", type(e).__name__, str(e)[:160].replace("\n", " "))


def _alt_unit(dbs):
    django_h.setup()
    acc = Acc()
    for db in dbs:
        M, R = _alt_load(db)
        acc.count("states")
        for root, fl in ALT_FILTERS.items():
            n = 3 if root == "Node" else 2
            for text, pred in fl.items():
                want = [i + 1 for i in range(n) if pred(db, i)]
                for bk in BACKENDS:
                    got = _alt_run(bk, M, R, root, text)
                    acc.count("executions")
                    acc.count("transitions")
                    if 0 < len(want) < n:
                        acc.count("nontrivial")
                    if got != want:
                        kind = "exc:" + got[1] if isinstance(got, tuple) else "rows"
                        acc.violation("alt-schema:%s:%s:%s" % (bk, kind, "lambda" if "any(" in text or "all(" in text else "to-one-null" if "null" in text else "path"),
                                      {"layer": "alt-schema", "backend": bk, "root": root, "filter": text, "db": {"items": [list(x) for x in db["items"]], "extras": list(db["extras"])},
                                       "expected": want, "observed": list(got) if isinstance(got, tuple) else got})
                    else:
                        acc.outcome(("alt", root, len(want)))
    return acc


def run(ctx):
    django_h.setup()
    inst = instances()
    n = len(inst)
    fam_idx = {}
    for i, (fam, _) in enumerate(inst):
        fam_idx.setdefault(fam, []).append(i)
    if ctx.quick:
        # fixed core: families C, E, F completely + every 12th of A, B, D; plus a seed-selected block of A/B/D
        core = fam_idx["C"][::4] + fam_idx["E"] + fam_idx["F"]
        B = 32
        block = [i for fam in ("A", "B", "D") for j, i in enumerate(fam_idx[fam]) if j % B == ctx.seed % B]
        chosen = sorted(set(core + block))
        prod_members = sorted(set(fam_idx["E"] + fam_idx["C"][::5] + fam_idx["A"][::9] + fam_idx["B"][::9] + fam_idx["D"][::20]))
    else:
        chosen = list(range(n))
        prod_members = sorted(set(fam_idx["E"] + fam_idx["C"] + fam_idx["A"][::2] + fam_idx["B"][::2] + fam_idx["D"][::4]))
    ctx.pmap(_product_unit, [(root, prod_members, not ctx.quick) for root in ROOTS])
    ctx.layer("product-instance", members=len(prod_members), exhaustive=True)
    ctx.pmap(_unit, [(chosen[i::48], not ctx.quick) for i in range(48) if chosen[i::48]])
    nf = sum(len(v) for v in filters(not ctx.quick).values())
    ctx.layer("small-instances", instances=len(chosen), of=n, families={k: len(v) for k, v in fam_idx.items()}, filters=nf,
              backends=list(BACKENDS), exhaustive=not ctx.quick,
              note="quick: families C(1/4), E, F + block VERIF_SEED mod 32 of A, B, D; thorough: all instances")
    alt = alt_instances()
    ctx.pmap(_alt_unit, [alt[i::32] for i in range(32)])
    ctx.layer("alternate-schema", instances=len(alt), filters=sum(len(v) for v in ALT_FILTERS.values()), backends=list(BACKENDS), exhaustive=True,
              note="foreign key on a unique non-primary-key column (to_field), child manager not called `objects`, reverse side of a one-to-one compared with null")


def replay(ctx, case):
    django_h.setup()
    if case.get("layer") == "alt-schema":
        db = {"items": [tuple(x) for x in case["db"]["items"]], "extras": tuple(case["db"]["extras"])}
        M, R = _alt_load(db)
        got = _alt_run(case["backend"], M, R, case["root"], case["filter"])
        return {"filter": case["filter"], "backend": case["backend"], "expected": case["expected"], "observed": list(got) if isinstance(got, tuple) else got,
                "ok": got == case["expected"]}
    if case["instance"] == "product":
        return {"ok": False, "note": "product-instance case: rerun ./check C04 (the same filter is also run on the small instances)"}
    db = RL.DB()
    for t, rows in case["instance"].items():
        if t == "post_tags":
            db.links = [tuple(l) for l in rows]
        else:
            db.rows[t] = rows
    from vt.decode import decode
    from odata_query.grammar import ODataLexer, ODataParser
    term = decode(ODataParser().parse(ODataLexer().tokenize(case["filter"])))
    M = rel_load.load_django(db)
    R = rel_load.load_sa(db)
    exp = sorted(RL.RelEval(db).rows_true(case["root"], term))
    got = run_backend(case["backend"], M, R, case["root"], case["filter"])
    return {"filter": case["filter"], "backend": case["backend"], "expected": exp, "observed": got, "ok": got == exp}
