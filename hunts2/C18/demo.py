"""
Reproduces the violations of "Type inference never reports a wrong type".

Run as:  cd /tmp/si_C18 && PYTHONPATH=/tmp/si_C18 /venv/bin/python OUT/demo.py
Exit code 1 if at least one finding reproduces, 0 otherwise.
"""
import sqlite3
import sys

sys.path.insert(0, "/tmp/si_C18")

import sqlalchemy as sa
from sqlalchemy.orm import Session, declarative_base

from odata_query import ast, exceptions as ex, typing
from odata_query.grammar import ODataLexer, ODataParser
from odata_query.sql import (
    AstToAthenaSqlVisitor,
    AstToSqliteSqlVisitor,
    AstToSqlVisitor,
)
from odata_query.sqlalchemy import apply_odata_query

lexer, parser = ODataLexer(), ODataParser()


def parse(text):
    return parser.parse(lexer.tokenize(text))


def outcome(fn):
    try:
        return "accepted: %s" % (fn(),)
    except ex.ODataException as e:
        return "%s(%s)" % (type(e).__name__, e)


found = 0

###############################################################################
# FINDING 1: concat / substring derive the type `Null` from a `null` argument
###############################################################################
name = lambda t: t.__name__ if t is not None else "unknown"  # noqa: E731

wrong = []
for text, actual in [
    ("concat(null, 'a')", ast.String),
    ("concat(name, null)", ast.String),
    ("substring(null, 1)", ast.String),
    ("concat(null, (1, 2))", ast.List),
    ("concat(concat(null, 'a'), 'b')", ast.String),
]:
    got = typing.infer_type(parse(text))
    if got is not None and got is not actual:
        wrong.append("%s is %s" % (text, name(got)))
mirror = typing.infer_type(parse("concat('a', null)"))

# consequence 1: SQL visitors reject a well-typed call, and only in one argument order
sql_a = outcome(lambda: AstToSqlVisitor().visit(parse("contains(name, concat(null, 'a'))")))
sql_b = outcome(lambda: AstToSqlVisitor().visit(parse("contains(name, concat('a', null))")))
sql_c = outcome(lambda: AstToSqlVisitor().visit(parse("length(concat(name, null))")))

# consequence 2: SQLAlchemy's typecheck rejects the call, although the same call
# with a nullable column instead of the literal runs fine
Base = declarative_base()


class Person(Base):
    __tablename__ = "person"
    id = sa.Column(sa.Integer, primary_key=True)
    name = sa.Column(sa.String)
    nick = sa.Column(sa.String, nullable=True)


engine = sa.create_engine("sqlite://")


@sa.event.listens_for(engine, "connect")
def _register_concat(dbapi_con, _record):
    # SQLite older than 3.44 has no concat(); SQLAlchemy's `concat` needs one.
    dbapi_con.create_function(
        "concat", 2, lambda a, b: None if a is None or b is None else a + b
    )


Base.metadata.create_all(engine)
with Session(engine) as session:
    session.add_all([Person(id=1, name="ann", nick="a"), Person(id=2, name="bob", nick=None)])
    session.commit()

    def sa_run(flt):
        q = apply_odata_query(sa.select(Person.id), flt)
        return sorted(r[0] for r in session.execute(q))

    sa_col = outcome(lambda: sa_run("contains(concat(name, nick), 'a')"))
    sa_null = outcome(lambda: sa_run("contains(concat(name, null), 'a')"))

if wrong and "ArgumentTypeException" in sql_a and "ArgumentTypeException" in sa_null:
    found += 1
    print(
        "FINDING 1: infer_type of concat/substring with a null argument -> %s "
        "(while concat('a', null) is %s); hence AstToSqlVisitor: contains(name, concat(null, 'a')) -> %s "
        "but contains(name, concat('a', null)) -> %s ; length(concat(name, null)) -> %s ; "
        "SQLAlchemy: contains(concat(name, null), 'a') -> %s but contains(concat(name, nick), 'a') -> %s "
        "(expected the inferred type to be String/List or unknown, and no type check to reject these well-typed calls)"
        % ("; ".join(wrong), name(mirror), sql_a, sql_b, sql_c, sa_null, sa_col)
    )

###############################################################################
# FINDING 2: SQL visitors: the type check of the string functions passes as soon
# as ANY argument is a string, whatever the kind of the other literal argument
###############################################################################
accepted = []
for V in (AstToSqlVisitor, AstToSqliteSqlVisitor, AstToAthenaSqlVisitor):
    for text in [
        "contains(tolower(name), 1)",
        "contains('abc', 1)",
        "contains(1, 'a')",
        "startswith(trim(name), 2000-01-01)",
        "endswith(concat(name, 'x'), true)",
        "indexof(1.5, 'a')",
        "indexof(tolower(name), 12345678-1234-1234-1234-123456789012)",
        "contains((1, 2), 'a')",
    ]:
        try:
            accepted.append("%s: %s => %s" % (V.__name__, text, V().visit(parse(text))))
        except ex.ODataException:
            pass

# The check exists and does reject the very same literal next to a plain field:
control = outcome(lambda: AstToSqlVisitor().visit(parse("contains(name, 1)")))

# ... and the accepted text runs on SQLite, matching rows by the digits of the number:
con = sqlite3.connect(":memory:")
con.execute("create table t (name text)")
con.executemany("insert into t values (?)", [("A1",), ("b",)])
where = AstToSqliteSqlVisitor().visit(parse("contains(tolower(name), 1)"))
rows = con.execute("select name from t where " + where).fetchall()

if accepted and "ArgumentTypeException" in control:
    found += 1
    print(
        "FINDING 2: contains(tolower(name), 1) -> AstToSqlVisitor emits %r, SQLite returns %r; "
        "%d such calls with an Integer/Float/Date/Boolean/GUID/List literal in a string position are accepted, e.g. %s "
        "(expected ArgumentTypeException, as for contains(name, 1) -> %s)"
        % (
            AstToSqlVisitor().visit(parse("contains(tolower(name), 1)")),
            rows,
            len(accepted),
            " | ".join(accepted[1:5]),
            control,
        )
    )

sys.exit(1 if found else 0)
