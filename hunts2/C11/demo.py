"""
C11 hunt (second pass): no violation of the function-call property was found.

The script re-runs a compact version of the sweeps that were used, through the
public API (ODataLexer / ODataParser), and prints a FINDING line for anything
that contradicts the property.  Exit code 1 if a finding reproduces, else 0.
"""
import random
import sys

sys.path.insert(0, "/tmp/si_C11")

from odata_query import ast, exceptions as ex  # noqa: E402
from odata_query.grammar import ODATA_FUNCTIONS, ODataLexer, ODataParser  # noqa: E402

LEXER, PARSER = ODataLexer(), ODataParser()


def run(s):
    try:
        return ("ok", PARSER.parse(LEXER.tokenize(s)))
    except ex.ArgumentCountException as e:
        return ("cnt", e.function_name, e.exp_min_args, e.exp_max_args, e.n_args_given)
    except ex.UnknownFunctionException as e:
        return ("unk", e.function_name)
    except Exception as e:  # noqa: BLE001
        return ("err", type(e).__name__, str(e))


def rng(name):
    v = ODATA_FUNCTIONS[name]
    return (v, v) if isinstance(v, int) else v


def ident(name):
    parts = name.split(".")
    return ast.Identifier(parts[-1], tuple(parts[:-1]))


ARGS = [
    "1", "-1", "+1", "1.5", "'s'", "''", "'(,)='", "null", "true", "f", "a/b", "ns.x/y",
    "a/any(x: x eq 1)", "a/any()", "a/all(x:x/y eq 1)", "(1,2)", "(1,)", "(a)",
    "1 add 2", "a eq 1", "a in (1,2)", "not a", "- a", "-a", "a and b",
    "concat('a','b')", "ns.f()", "ns.f(a=1)", "now( )", "2020-01-01", "12:00:00",
    "2020-01-01t00:00:00z", "duration'P1D'", "geography'POINT(1 2)'",
    "12345678-1234-1234-1234-123456789abc", "in", "eq", "any", "all", "a/not",
    "a/any(x: ns.f(x, (1,2)))", "not a eq 1", "a or b and c", "geo", "duration",
]
ARG_ASTS = {a: run(a)[1] for a in ARGS}
PARAMS = ["p", "q", "eq", "in", "and", "or", "any", "all", "x.y", "geo.x", "concat", "e1", "T", "_"]
SEPS = [",", " , ", ", ", "\t,\n", " , "]

findings = []


def expect(s, got, want, what):
    if got != want:
        findings.append((s, got, what))


def sweep():
    random.seed(11)
    n = 0
    names = set()
    for b in ODATA_FUNCTIONS:
        base = b.split(".")[-1]
        names.update([
            b, b.upper(), b.capitalize(), b.swapcase(), b[:-1], b[1:], b + "s", b + "_", "_" + b,
            base, "geo." + base, "Geo." + base, "GEO." + base, "geo." + base.upper(),
            "geo.geo." + base, "ns." + b, "odata." + base, "geo.x." + base, "x.geo." + base,
            base + ".geo", "geo" + base, b.replace("o", "о"), b.replace("i", "ı"),
            b.replace("s", "ſ"), b + "é",
        ])
    names.update([
        "eq", "and", "or", "not", "in", "any", "all", "add", "duration", "geography", "geo",
        "INF", "NaN", "e1", "__class__", "name__in", "cast", "isof", "ns.eq", "ns.not", "ns.any",
        "not.f", "any.f", "all.f", "eq.f", "in.x", "geo.any", "geo.not", "ns.1f", "_._", "ns.null",
        "null.f", "true.f", "nulls", "truex",
    ])
    for name in sorted(names):
        nsx = ident(name).namespace
        for cnt in range(6):
            for named in (False, True):
                if named and cnt == 0:
                    continue
                args = [random.choice(ARGS) for _ in range(cnt)]
                pnames = [random.choice(PARAMS) for _ in range(cnt)]
                texts = [f"{p}={a}" for p, a in zip(pnames, args)] if named else args
                sep = random.choice(SEPS)
                pad = random.choice(["", " ", "\n"])
                s = f"{name}({pad}{sep.join(texts)}{pad})"
                nodes = [ARG_ASTS[a] for a in args]
                if named:
                    nodes = [ast.NamedParam(ident(p), v) for p, v in zip(pnames, nodes)]
                accepted = ("ok", ast.Call(ident(name), nodes))
                if nsx in ((), ("geo",)):
                    if name in ODATA_FUNCTIONS:
                        lo, hi = rng(name)
                        want = accepted if lo <= cnt <= hi else ("cnt", name, lo, hi, cnt)
                    else:
                        want = ("unk", name)
                else:
                    want = accepted
                n += 1
                expect(s, run(s), want, want[0])
                # the same call inside other constructs must give the same verdict
                for wrap in ("{} eq 1", "not {}", "x/any(z: {})", "ns.q({}, 1)", "ns.q(k={})", "({}, 2)"):
                    got = run(wrap.format(s))
                    n += 1
                    if want[0] == "ok":
                        if got[0] != "ok":
                            findings.append((wrap.format(s), got, "accepted"))
                    else:
                        expect(wrap.format(s), got, want, want[0])
    return n


n = sweep()
for i, (s, got, want) in enumerate(findings, 1):
    print(f"FINDING {i}: {s!r} -> {got!r} (expected {want})")
print(f"checked {n} calls; {len(findings)} findings")
sys.exit(1 if findings else 0)
