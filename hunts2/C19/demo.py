"""
Reproduces the violations of the property
"Whitespace layout and keyword case do not change the meaning of a filter"
found at this worktree's HEAD.

Run:  cd /tmp/si_C19 && PYTHONPATH=/tmp/si_C19 /venv/bin/python OUT/demo.py
"""
import sqlite3
import sys

from odata_query.grammar import ODataLexer, ODataParser
from odata_query.roundtrip import AstToODataVisitor
from odata_query.sql.athena import AstToAthenaSqlVisitor
from odata_query.sql.base import AstToSqlVisitor
from odata_query.sql.sqlite import AstToSqliteSqlVisitor


def parse(text):
    return ODataParser().parse(ODataLexer().tokenize(text))


findings = set()


def report(n, text, observed, expected):
    # One FINDING line per finding; further variants of it are indented below.
    if n not in findings:
        findings.add(n)
        print(f"FINDING {n}: {text} -> {observed} (expected {expected})")
    else:
        print(f"    variant of {n}: {text} -> {observed}")


# ---------------------------------------------------------------------------
# 1. LIKE pattern built from the *spelling* of a boolean / number keyword:
#    a different pattern, and different rows on a case sensitive LIKE.
# ---------------------------------------------------------------------------
pairs = [
    ("contains(tolower(s), true)", "contains(tolower(s), TRUE)"),
    ("endswith(tolower(s), false)", "endswith(tolower(s), False)"),
    ("startswith(tolower(s), 1e5)", "startswith(tolower(s), 1E5)"),
]
con = sqlite3.connect(":memory:")
con.execute("PRAGMA case_sensitive_like=ON")  # LIKE as in the SQL standard
con.execute("CREATE TABLE t (id INTEGER PRIMARY KEY, s TEXT)")
con.executemany(
    "INSERT INTO t VALUES (?, ?)",
    [(1, "it is TRUE"), (2, "this is false"), (3, "1E5 apples"), (4, "other")],
)
for lower, other in pairs:
    for visitor in (AstToSqliteSqlVisitor, AstToSqlVisitor, AstToAthenaSqlVisitor):
        sql_a = visitor().visit(parse(lower))
        sql_b = visitor().visit(parse(other))
        if sql_a == sql_b:
            continue
        rows = ""
        if visitor is AstToSqliteSqlVisitor:
            rows_a = [r[0] for r in con.execute(f"SELECT id FROM t WHERE {sql_a}")]
            rows_b = [r[0] for r in con.execute(f"SELECT id FROM t WHERE {sql_b}")]
            rows = f"; rows on SQLite (case sensitive LIKE) {rows_a} vs {rows_b}"
        report(
            1,
            f"{lower!r} vs {other!r} [{visitor.__name__}]",
            f"{sql_a!r} vs {sql_b!r}{rows}",
            "the same WHERE clause and the same rows for both spellings",
        )

# ---------------------------------------------------------------------------
# 2. The exponent letter is copied into the SQL text of every SQL dialect.
# ---------------------------------------------------------------------------
for visitor in (AstToSqlVisitor, AstToSqliteSqlVisitor, AstToAthenaSqlVisitor):
    sql_a = visitor().visit(parse("x eq 1.5e3"))
    sql_b = visitor().visit(parse("x eq 1.5E3"))
    if sql_a != sql_b:
        report(
            2,
            f"'x eq 1.5e3' vs 'x eq 1.5E3' [{visitor.__name__}]",
            f"{sql_a!r} vs {sql_b!r}",
            "identical SQL, as for 't'/'T' and 'z'/'Z' in date-times",
        )

# ---------------------------------------------------------------------------
# 3. The OData renderer gives back the spelling of true/false and of `e`.
# ---------------------------------------------------------------------------
for a, b in (("x eq true", "x eq TRUE"), ("x eq 1e5", "x eq 1E5")):
    out_a = AstToODataVisitor().visit(parse(a))
    out_b = AstToODataVisitor().visit(parse(b))
    if out_a != out_b:
        report(
            3,
            f"{a!r} vs {b!r} [AstToODataVisitor]",
            f"{out_a!r} vs {out_b!r}",
            "one canonical rendering (duration'p1d' and 2020-01-01t10:00z are canonicalised)",
        )

# ---------------------------------------------------------------------------
# 4. The trees themselves are unequal (and hash differently).
# ---------------------------------------------------------------------------
for a, b in (
    ("x eq true", "x eq TRUE"),
    ("x eq false", "x eq False"),
    ("x eq 1e5", "x eq 1E5"),
    ("x in (1.0e-3, true)", "x IN (1.0E-3, True)"),
):
    tree_a, tree_b = parse(a), parse(b)
    if tree_a != tree_b:
        report(
            4,
            f"parse({a!r}) == parse({b!r})",
            f"False: {tree_a.right!r} vs {tree_b.right!r}",
            "equal trees, like parse(\"x eq duration'p1d'\") == parse(\"x eq DURATION'P1D'\")",
        )

# Controls: spellings the library does canonicalise.
assert parse("x eq duration'p1dt2h'") == parse("x EQ DURATION'P1DT2H'")
assert parse("x eq 2020-01-01t10:00:00z") == parse("x eq 2020-01-01T10:00:00Z")
assert parse("x eq null") == parse("x eq NULL")

sys.exit(1 if findings else 0)
