"""
Reproduces the findings of OUT/findings.md through the public API.

    cd /tmp/si_C12 && PYTHONPATH=/tmp/si_C12 /venv/bin/python OUT/demo.py

Prints one line per finding: FINDING <n>: <input> -> <observed> (expected <...>)
Exit code 1 if at least one finding reproduces, 0 otherwise.
"""
import datetime as dt
import os
import sqlite3
import sys
import types
import warnings

sys.path.insert(0, "/tmp/si_C12")
warnings.simplefilter("ignore")

# --------------------------------------------------------------------------------------
# Django: in-memory SQLite, one throw-away app defined in this file
# --------------------------------------------------------------------------------------
import django
from django.apps import AppConfig
from django.conf import settings

_mod = types.ModuleType("demoapp")
_mod.__file__ = os.path.abspath(__file__)
sys.modules["demoapp"] = _mod


class DemoConfig(AppConfig):
    name = "demoapp"
    path = os.path.dirname(os.path.abspath(__file__))


_mod.DemoConfig = DemoConfig

settings.configure(
    DATABASES={"default": {"ENGINE": "django.db.backends.sqlite3", "NAME": ":memory:"}},
    INSTALLED_APPS=["django.contrib.contenttypes", "demoapp.DemoConfig"],
    USE_TZ=True,
    TIME_ZONE="UTC",
    DEFAULT_AUTO_FIELD="django.db.models.AutoField",
)
django.setup()
from django.db import connection, models  # noqa: E402


class DAuthor(models.Model):
    name = models.CharField(max_length=50)

    class Meta:
        app_label = "demoapp"


class DPost(models.Model):
    title = models.CharField(max_length=50)
    score = models.IntegerField(default=0)
    created = models.DateTimeField(null=True)
    dur = models.DurationField(null=True)
    tags = models.JSONField(default=list)
    author = models.ForeignKey(DAuthor, null=True, on_delete=models.CASCADE, related_name="posts")
    editor = models.ForeignKey(DAuthor, null=True, on_delete=models.CASCADE, related_name="edited")

    class Meta:
        app_label = "demoapp"


class DComment(models.Model):
    text = models.CharField(max_length=50)
    post = models.ForeignKey(DPost, on_delete=models.CASCADE, related_name="comments")
    author = models.ForeignKey(DAuthor, null=True, on_delete=models.CASCADE, related_name="comments")

    class Meta:
        app_label = "demoapp"


with connection.schema_editor() as editor:
    for m in (DAuthor, DPost, DComment):
        editor.create_model(m)

# --------------------------------------------------------------------------------------
# SQLAlchemy: in-memory SQLite
# --------------------------------------------------------------------------------------
import sqlalchemy as sa  # noqa: E402
from sqlalchemy.orm import Session, declarative_base, relationship  # noqa: E402
from sqlalchemy.pool import StaticPool  # noqa: E402

Base = declarative_base()


class Author(Base):
    __tablename__ = "author"
    id = sa.Column(sa.Integer, primary_key=True)
    name = sa.Column(sa.String)


class Post(Base):
    __tablename__ = "post"
    id = sa.Column(sa.Integer, primary_key=True)
    title = sa.Column(sa.String)
    score = sa.Column(sa.Integer)
    created = sa.Column(sa.DateTime)
    dur = sa.Column(sa.Interval)
    tags = sa.Column(sa.JSON)
    author_id = sa.Column(sa.ForeignKey("author.id"))
    editor_id = sa.Column(sa.ForeignKey("author.id"))
    author = relationship(Author, foreign_keys=[author_id], backref="posts")
    editor = relationship(Author, foreign_keys=[editor_id], backref="edited")


class Comment(Base):
    __tablename__ = "comment"
    id = sa.Column(sa.Integer, primary_key=True)
    text = sa.Column(sa.String)
    post_id = sa.Column(sa.ForeignKey("post.id"))
    author_id = sa.Column(sa.ForeignKey("author.id"))
    post = relationship(Post, backref="comments")
    author = relationship(Author, backref="comments")


class Node(Base):
    __tablename__ = "node"
    id = sa.Column(sa.Integer, primary_key=True)
    name = sa.Column(sa.String)
    parent_id = sa.Column(sa.ForeignKey("node.id"))
    parent = relationship("Node", remote_side=[id], backref="children")


engine = sa.create_engine(
    "sqlite://", poolclass=StaticPool, connect_args={"check_same_thread": False}
)
Base.metadata.create_all(engine)
sa.orm.configure_mappers()

# --------------------------------------------------------------------------------------
# The same rows in both databases
#   authors: 1 'x' (never commented), 2 'y'
#   posts:   1 'Hello' (author x, editor y), 2 'world' (author y, no editor)
#   comments: 1 on post 1 by y, 2 on post 2 by y
# --------------------------------------------------------------------------------------
AUTHORS = [dict(id=1, name="x"), dict(id=2, name="y")]
POSTS = [
    dict(id=1, title="Hello", score=5, created=dt.datetime(2020, 1, 1, 12, 0, 0), dur=dt.timedelta(days=1), tags=["a", "b"], author_id=1, editor_id=2),
    dict(id=2, title="world", score=3, created=dt.datetime(2021, 1, 1, 12, 0, 0), dur=dt.timedelta(hours=2), tags=[], author_id=2, editor_id=None),
]
COMMENTS = [dict(id=1, text="nice", post_id=1, author_id=2), dict(id=2, text="meh", post_id=2, author_id=2)]
with Session(engine) as s:
    s.add_all([Author(**r) for r in AUTHORS] + [Post(**r) for r in POSTS] + [Comment(**r) for r in COMMENTS])
    # node 1 'root' -> child 2 'kid' -> child 3 'root'
    s.add_all([Node(id=1, name="root", parent_id=None), Node(id=2, name="kid", parent_id=1), Node(id=3, name="root", parent_id=2)])
    s.commit()
for r in AUTHORS:
    DAuthor.objects.create(**r)
for r in POSTS:
    r = dict(r)
    r["created"] = r["created"].replace(tzinfo=dt.timezone.utc)
    DPost.objects.create(**r)
for r in COMMENTS:
    DComment.objects.create(**r)

# --------------------------------------------------------------------------------------
# The library
# --------------------------------------------------------------------------------------
from odata_query import exceptions as ex  # noqa: E402
from odata_query.django.django_q import AstToDjangoQVisitor  # noqa: E402
from odata_query.django.shorthand import apply_odata_query as django_apply  # noqa: E402
from odata_query.grammar import ODataLexer, ODataParser  # noqa: E402
from odata_query.sql import AstToSqliteSqlVisitor, AstToSqlVisitor  # noqa: E402
from odata_query.sqlalchemy.core import AstToSqlAlchemyCoreVisitor  # noqa: E402
from odata_query.sqlalchemy.orm import AstToSqlAlchemyOrmVisitor  # noqa: E402
from odata_query.sqlalchemy.shorthand import apply_odata_query as sa_apply  # noqa: E402


def parse(text):
    return ODataParser().parse(ODataLexer().tokenize(text))


def is_lib(exc):
    return isinstance(exc, ex.ODataException)


def describe(exc):
    return f"{type(exc).__module__}.{type(exc).__name__}: {' '.join(str(exc).split())[:110]}"


def django_ids(text):
    return sorted(o.id for o in django_apply(DPost.objects.all(), text))


def sa_ids(text, model=Post):
    q = sa_apply(sa.select(model), text)
    with Session(engine) as ses:
        return sorted(row[0].id for row in ses.execute(q).all())


def sa_where(text, model=Post):
    q = sa_apply(sa.select(model), text)
    sql = " ".join(str(q.compile(engine)).split())
    return sql[sql.find("FROM"):]


def attempt(fn, *args):
    """-> ('ok', value) | ('lib', exc) | ('leak', exc)"""
    try:
        return "ok", fn(*args)
    except Exception as exc:  # noqa: BLE001
        return ("lib" if is_lib(exc) else "leak"), exc


REPRODUCED = []


def finding(n, text, observed, expected, reproduced):
    mark = "" if reproduced else "  [NOT REPRODUCED]"
    print(f"FINDING {n}: {text} -> {observed} (expected {expected}){mark}")
    if reproduced:
        REPRODUCED.append(n)


# ======================================================================================
# 1. SQLAlchemy ORM: a navigation path inside a lambda body loses its join
# ======================================================================================
f = "comments/any(c: c/author/name eq 'x')"
kind, got = attempt(sa_ids, f)
want = django_ids(f)  # [] : nobody called 'x' ever commented
finding(
    "1a", f"SQLAlchemy ORM {f!r}",
    f"rows {got}; {sa_where(f)}" if kind == "ok" else describe(got),
    f"rows {want} (Django backend), or a refusal; 'comment' and 'author' must be joined",
    kind == "ok" and got != want,
)

f = "children/any(c: c/parent/name eq 'root')"
kind, got = attempt(sa_ids, f, Node)
finding(
    "1b", f"SQLAlchemy ORM (self-referential model) {f!r}",
    f"rows {got}; {sa_where(f, Node)}" if kind == "ok" else describe(got),
    "rows [1] (node 1 is called 'root' and has a child); the hop c/parent is gone, c/name is tested instead",
    kind == "ok" and got != [1],
)

f = "author/comments/any(c: c/post/title eq 'Hello')"
kind, got = attempt(sa_ids, f)
want = django_ids(f)
finding(
    "1c", f"SQLAlchemy ORM {f!r}",
    f"rows {got}; {sa_where(f)}" if kind == "ok" else describe(got),
    f"rows {want} (Django backend); 'post.title' binds to the OUTER post instead of the comment's post",
    kind == "ok" and got != want,
)

# ======================================================================================
# 2. SQLAlchemy ORM: two relationships to one table become the same column
# ======================================================================================
f = "author/name eq 'x' and editor/name eq 'y'"
v = AstToSqlAlchemyOrmVisitor(Post)
clause = str(v.visit(parse(f)))
kind, got = attempt(sa_ids, f)
want = django_ids(f)
finding(
    2, f"SQLAlchemy ORM {f!r}",
    f"WHERE {clause} (both fields are the column author.name); shorthand: "
    + (f"rows {got}" if kind == "ok" else describe(got)),
    f"rows {want} through two aliases of 'author', or one of the library's exceptions",
    clause.count("author.name") == 2 and (kind == "leak" or (kind == "ok" and got != want)),
)

# ======================================================================================
# 3. Lambda / path over a column that is not a relationship: internal errors
# ======================================================================================
f = "tags/any(t: t eq 'a')"
kind, got = attempt(django_ids, f)
finding("3a", f"Django {f!r} (tags is a JSONField)", describe(got) if kind != "ok" else got,
        "a refusal with one of the library's exceptions", kind == "leak" and isinstance(got, AttributeError))
kind, got = attempt(sa_ids, f)
finding("3b", f"SQLAlchemy ORM {f!r} (tags is a JSON column)", describe(got) if kind != "ok" else got,
        "a refusal with one of the library's exceptions", kind == "leak" and isinstance(got, AttributeError))
for n, f in (("3c", "tags/key eq 1"), ("3d", "title/nope eq 1")):
    kind, got = attempt(sa_ids, f)
    finding(n, f"SQLAlchemy ORM {f!r}", describe(got) if kind != "ok" else got,
            "InvalidFieldException (or another library exception), not ValueError", kind == "leak")

# ======================================================================================
# 4. Django: named parameters
# ======================================================================================
f = "substring(fullstr='zzz', fullstr=title, index=0) eq 'Hello'"
kind, got = attempt(django_ids, f)
q = str(AstToDjangoQVisitor(DPost).visit(parse(f)))
finding("4a", f"Django {f!r}", f"rows {got}; Q = {q} (the literal 'zzz' is gone)" if kind == "ok" else describe(got),
        "a refusal (ArgumentTypeException) or every argument represented", kind == "ok" and "zzz" not in q)

f = "length(arg=(1,2)) eq 2"
kind, got = attempt(django_ids, f)
kind2, got2 = attempt(django_ids, "length((1,2)) eq 2")
finding("4b", f"Django {f!r}", describe(got) if kind != "ok" else got,
        f"the refusal the positional form gets: {type(got2).__name__}", kind == "leak" and kind2 == "lib")

# ======================================================================================
# 5. Literal conversions that overflow leak OverflowError / ValueError
# ======================================================================================
f = "dur gt duration'P1000000000D'"
for n, label, fn in (
    ("5a", "Django", lambda t: AstToDjangoQVisitor(DPost).visit(t)),
    ("5b", "SQLAlchemy ORM", lambda t: AstToSqlAlchemyOrmVisitor(Post).visit(t)),
    ("5c", "SQLAlchemy Core", lambda t: AstToSqlAlchemyCoreVisitor(Post.__table__).visit(t)),
):
    kind, got = attempt(fn, parse(f))
    finding(n, f"{label} {f!r}", describe(got) if kind != "ok" else got,
            f"ValueException like an invalid date (standard SQL renders {AstToSqlVisitor().visit(parse(f))!r})",
            kind == "leak")
f = "dur lt duration'P2737908Y'"
kind, got = attempt(lambda t: AstToDjangoQVisitor(DPost).visit(t), parse(f))
finding("5d", f"Django {f!r}", describe(got) if kind != "ok" else got, "a library exception", kind == "leak")
f = "score eq " + "9" * 4301
kind, got = attempt(lambda t: AstToSqlAlchemyCoreVisitor(Post.__table__).visit(t), parse(f))
finding("5e", "SQLAlchemy Core 'score eq <4301 digits>'", describe(got) if kind != "ok" else "ok",
        "a library exception (the SQL dialects render the number)", kind == "leak")

# ======================================================================================
# 6. Django: a field name with a double underscore (or `pk`) is not a field name
# ======================================================================================
for n, f in (("6a", "title__length eq 5"), ("6b", "author__name eq 'x'"), ("6c", "created__year eq 2020"), ("6d", "pk eq 1")):
    kind, got = attempt(django_ids, f)
    sql = ""
    if kind == "ok":
        sql = str(django_apply(DPost.objects.all(), f).query)
        sql = sql[sql.find("WHERE"):]
    kind_sa, got_sa = attempt(sa_ids, f)
    finding(n, f"Django {f!r}", f"rows {got}; {sql}" if kind == "ok" else describe(got),
            f"no such field (SQLAlchemy: {type(got_sa).__name__}; SQL dialects: {AstToSqlVisitor().visit(parse(f))})",
            kind == "ok")

# ======================================================================================
# 7. SQLite dialect: duration literals are not SQLite syntax and are not refused
# ======================================================================================
f = "dur gt duration'PT1H'"
where = AstToSqliteSqlVisitor().visit(parse(f))
con = sqlite3.connect(":memory:")
con.execute("create table post (id integer, dur text)")
try:
    con.execute("select id from post where " + where).fetchall()
    err = None
except sqlite3.Error as exc:
    err = exc
finding(7, f"SQLite dialect {f!r}", f"{where!r}; sqlite3: {err}", "a refusal (SQLite has no INTERVAL literal)", err is not None)

# ======================================================================================
# 8. Django: the geo functions
# ======================================================================================
import odata_query.django.django_q as django_q  # noqa: E402

f = "geo.length(title) gt 1"
if django_q.gis_functions is None:
    kind, got = attempt(django_ids, f)
    finding("8a", f"Django without GeoDjango {f!r}", describe(got) if kind != "ok" else got,
            "UnsupportedFunctionException, as on every other backend", kind == "leak" and isinstance(got, ImportError))
    # GDAL is not installed here: stand-ins for the two names the module imports,
    # to reach the code that runs when GeoDjango is available.
    django_q.gis_functions = types.SimpleNamespace(Length=lambda *a: None, Distance=lambda *a: None)
    django_q.GEOSGeometry = lambda wkt: wkt
    stubbed = " (GeoDjango replaced by stand-ins)"
else:
    stubbed = ""
for n, f in (("8b", "geo.length(author/name) gt 1"), ("8c", "geo.intersects(geography'POINT(1 2)', title)")):
    kind, got = attempt(lambda t: AstToDjangoQVisitor(DPost).visit(t), parse(f))
    finding(n, f"Django{stubbed} {f!r}", describe(got) if kind != "ok" else got,
            "a translation or a library exception", kind == "leak" and isinstance(got, AttributeError))

# ======================================================================================
# 9. SQLAlchemy shorthand: a base query without an entity column
# ======================================================================================
f = "title eq 'Hello'"
kind, got = attempt(sa_apply, sa.select(sa.func.count()).select_from(Post), f)
finding(9, f"apply_odata_query(select(func.count()).select_from(Post), {f!r})", describe(got) if kind != "ok" else "ok",
        "the filtered count query or a library exception", kind == "leak" and isinstance(got, IndexError))

# ======================================================================================
# 10. SQLAlchemy ORM: a relationship as an element of an in-list
# ======================================================================================
f = "author in (editor,)"
kind, got = attempt(sa_ids, f)
want = django_ids(f)  # [] : no post is edited by its own author
finding(10, f"SQLAlchemy ORM {f!r}", f"rows {got}; {sa_where(f)}" if kind == "ok" else describe(got),
        f"rows {want} (as 'author eq editor' gives), or a refusal", kind == "ok" and got != want)

# ======================================================================================
# 11. (minor) SQL dialects: the table alias is not quoted safely
# ======================================================================================
out = AstToSqlVisitor(table_alias='a"b').visit(parse("title eq 'x'"))
finding(11, "AstToSqlVisitor(table_alias='a\"b') \"title eq 'x'\"", out, "'\"a\"\"b\".\"title\" = ...'", out.startswith('"a"b"'))

# ======================================================================================
# 12. (minor) Django: duration multiplied / divided by a number
# ======================================================================================
f = "dur mul 2 gt duration'P1D'"
kind, got = attempt(django_ids, f)
finding(12, f"Django {f!r}", describe(got) if kind != "ok" else got,
        "a translation (SQLAlchemy gives one) or a library exception", kind == "leak")

print(f"\n{len(REPRODUCED)} finding lines reproduced: {', '.join(map(str, REPRODUCED))}")
sys.exit(1 if REPRODUCED else 0)
