"""No violation of the round-trip property was found; this script re-runs a
compact version of the probes and prints a FINDING line (exit 1) only if one of
them starts to fail."""
import sys

sys.path.insert(0, "/tmp/si_C13")
from odata_query import exceptions
from odata_query.grammar import ODataLexer, ODataParser
from odata_query.roundtrip import AstToODataVisitor

lexer, parser, render = ODataLexer(), ODataParser(), AstToODataVisitor()


def parse(s):
    return parser.parse(lexer.tokenize(s))


NAMES = ["a", "not", "NOT", "and", "or", "eq", "in", "add", "any", "all", "ns.a", "a.not", "not.a", "true.a",
         "a.true", "x.null", "a.1", "a.1e5", "e5", "T", "Z", "P1D", "deadbeef", "name__in", "__class__",
         "ſ", "K", "İ", "duration", "geography", "nullable", "trueness", "a" + ".b" * 127]
LITS = ["1", "-1", "+1", "-0", "007", "-1.5e10", "1E-5", "null", "TRUE", "''", "''''", "' and '", "'not '",
        "'\x00'", "'\U0001d4b3'", "2020-01-01", "2020-01-01t00:00:00z", "2020-12-31T23:59:59.999999999999+23:59",
        "23:59:59.123456789012", "00:00::00", "duration'-pt1.5s'", "duration'PT1ſ'", "duration'P'",
        "GEOGRAPHY'x''y'", "geography''", "A7AF27E6-F5A0-11E9-9649-0A252986ADBA"]
FILL = NAMES + LITS + ["a/not", "not/a", "a/ns.b/c", "a/any/any(any: any)", "a/any()", "ns.not(1)", "(1,)",
                       "((1, 2),)", "not not", "- -1", "-a", "not a in (1,)", "- a in (1, 2)", "(not) eq 1",
                       "a sub (b sub c)", "a eq (b ne c)", "a and (b and c)", "not (not a)", "-(-a)"]
OPS = ["and", "or", "eq", "ne", "lt", "le", "gt", "ge", "add", "sub", "mul", "div", "mod"]
CTX = (["{}", "( {} )", "not {}", "not ({})", "-{}", "-({})", "( {} , )", "({}, 1)", "(1, {})", "{} in (1, 2)",
        "a in ({},)", "ns.f({})", "ns.f({},)", "ns.f(x={}, y={})", "ns.f(not={})", "length({})",
        "concat(({}), {})", "a/any(x: {})", "a/b/all(not:{})", "ns.a/ns.b/any( ns.x : {} )"]
       + [f"{{}} {o} 1" for o in OPS] + [f"1 {o} {{}}" for o in OPS] + [f"1 {o} ({{}})" for o in OPS])

findings = 0
checked = 0
for c1 in CTX:
    for f in FILL:
        for c2 in ("{}", "not ({})", "(1, {})", "ns.f(x={})", "a/any(x: {})", "{} eq 1", "1 sub {}"):
            s = c2.replace("{}", c1.replace("{}", f))
            try:
                t = parse(s)
            except exceptions.ODataException:
                continue  # outside the image of the parser
            checked += 1
            r = render.visit(t)
            try:
                t2 = parse(r)
                obs = None if (t2 == t and render.visit(t2) == r) else repr(t2)
            except Exception as e:  # noqa
                obs = type(e).__name__
            if obs is not None:
                findings += 1
                print(f"FINDING {findings}: {s!r} -> rendered {r!r}, re-parse gives {obs} (expected {t!r})")

print(f"checked {checked} parser-accepted filters, {findings} violation(s) of parse(render(t)) == t")
sys.exit(1 if findings else 0)
