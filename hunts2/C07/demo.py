"""
Reproduces the violations of the property
"No filter string can inject SQL through the raw SQL dialects"
found at this worktree's HEAD.

Run:  cd /tmp/si_C07 && PYTHONPATH=/tmp/si_C07 /venv/bin/python OUT/demo.py
Exit code 1 if at least one finding reproduces, 0 otherwise.
"""
import re
import sys

from odata_query.grammar import ODataLexer, ODataParser
from odata_query.sql import (
    AstToAthenaSqlVisitor,
    AstToSqliteSqlVisitor,
    AstToSqlVisitor,
)

DIALECTS = [
    ("standard", AstToSqlVisitor),
    ("sqlite", AstToSqliteSqlVisitor),
    ("athena", AstToAthenaSqlVisitor),
]

# A plain SQL tokenizer: string literals ('' escapes), quoted identifiers
# ("" escapes), numbers, words, comment markers, operators / punctuation.
TOKEN = re.compile(
    r"""(?P<ws>\s+)
      |(?P<str>'(?:[^']|'')*')
      |(?P<qid>"(?:[^"]|"")*")
      |(?P<num>\d+(?:\.\d+)?(?:[eE][+-]?\d+)?)
      |(?P<word>[A-Za-z_][A-Za-z_0-9]*)
      |(?P<cmt>--|/\*|\*/)
      |(?P<op>\|\||!=|<=|>=|<>|[-+*/%=<>(),.;])""",
    re.S | re.X,
)


def tokenize(sql):
    pos, out = 0, []
    while pos < len(sql):
        m = TOKEN.match(sql, pos)
        if not m:
            raise ValueError(f"untokenizable SQL at {pos}: {sql[pos:pos + 20]!r}")
        if m.lastgroup != "ws":
            out.append((m.lastgroup, m.group()))
        pos = m.end()
    return out


def outside(tokens):
    """The token sequence with string literals / quoted identifiers masked."""
    return [(k, None if k in ("str", "qid") else v) for k, v in tokens]


def to_sql(visitor_cls, odata_filter):
    # A fresh lexer / parser / visitor per call: no shared state involved.
    tree = ODataParser().parse(ODataLexer().tokenize(odata_filter))
    return visitor_cls().visit(tree)


findings = 0


def report(n, inp, observed, expected):
    global findings
    findings += 1
    print(f"FINDING {n}: {inp} -> {observed} (expected {expected})")


# ---------------------------------------------------------------------------
# FINDING 1: floor()/ceiling() of the standard dialect copy their argument
# 4 / 5 times: a string ends up in 4 / 5 string-literal tokens, a field name
# in 4 / 5 quoted identifiers (4**n / 5**n when nested) instead of exactly one.
# ---------------------------------------------------------------------------
cases_1 = [
    # (filter, marker, token kind that must contain the marker exactly once)
    ("floor(price) eq 1", "price", "qid"),
    ("ceiling(price) eq 1", "price", "qid"),
    ("floor(length('it''s')) eq 1", "it''s", "str"),
    ("ceiling(indexof(name, 'it''s')) eq 1", "it''s", "str"),
    ("floor(floor(floor(length('it''s')))) eq 1", "it''s", "str"),
    ("ceiling(ceiling(price)) eq 1", "price", "qid"),
]
for flt, marker, kind in cases_1:
    sql = to_sql(AstToSqlVisitor, flt)
    toks = tokenize(sql)
    n = sum(1 for k, v in toks if k == kind and marker in v)
    opened = sum(1 for k, v in toks if v == "(")
    closed = sum(1 for k, v in toks if v == ")")
    if n != 1:
        what = "string-literal tokens" if kind == "str" else "quoted identifiers"
        extra = (
            f"; parentheses unbalanced: {opened} '(' vs {closed} ')'"
            if opened != closed
            else ""
        )
        report(
            1,
            f"[standard] {flt!r}",
            f"{marker!r} occurs in {n} {what} ({len(sql)} chars of SQL){extra}",
            f"exactly 1, as in sqlite/athena: {to_sql(AstToSqliteSqlVisitor, flt)!r}",
        )

# ---------------------------------------------------------------------------
# FINDING 2: the content of the pattern string of contains / startswith /
# endswith decides whether the tokens  ESCAPE '\'  are emitted *outside* the
# literal: replacing the content changes the outer token sequence.
# ---------------------------------------------------------------------------
cases_2 = [
    ("contains(name, '{}')", "a", "_"),
    ("startswith(name, '{}')", "a", "100%"),
    ("endswith(name, '{}')", "a", "\\"),
    ("not contains(tolower(name), '{}') and id in (1, 2)", "a", "a_b"),
]
for name, cls in DIALECTS:
    for tmpl, plain, payload in cases_2:
        sql_a = to_sql(cls, tmpl.format(plain))
        sql_b = to_sql(cls, tmpl.format(payload))
        out_a, out_b = outside(tokenize(sql_a)), outside(tokenize(sql_b))
        if out_a != out_b:
            report(
                2,
                f"[{name}] {tmpl!r} with content {plain!r} vs {payload!r}",
                f"{len(out_a)} vs {len(out_b)} tokens: {sql_a!r} vs {sql_b!r}",
                "the same token sequence outside the string literal",
            )

sys.exit(1 if findings else 0)
