"""Reproduces the findings of OUT/findings.md through the public API.

Run: cd /tmp/si_C17 && PYTHONPATH=/tmp/si_C17 /venv/bin/python OUT/demo.py
"""
import sys

sys.path.insert(0, "/tmp/si_C17")

from odata_query import ast
from odata_query.grammar import ODataLexer, ODataParser
from odata_query.roundtrip import AstToODataVisitor
from odata_query.utils import expression_relative_to_identifier

lexer, parser = ODataLexer(), ODataParser()


def parse(text):
    return parser.parse(lexer.tokenize(text))


def render(tree):
    return AstToODataVisitor().visit(tree)


found = 0

# FINDING 1: a path whose first segment after the variable is qualified.
# (variable, filter with the variable, the same filter with every path rooted
# at the variable re-rooted one step down)
cases = [
    ("x", "x/ns.a", "ns.a"),
    ("x", "x/ns.a/b eq 1", "ns.a/b eq 1"),
    ("x", "contains(x/ns.a/b, 'k')", "contains(ns.a/b, 'k')"),
    ("x", "x/ns.items/any(y: y/c eq x/ns.a)", "ns.items/any(y: y/c eq ns.a)"),
    ("ns.x", "ns.x/ns.x/b eq 1", "ns.x/b eq 1"),
]
for var, text, rerooted in cases:
    got = expression_relative_to_identifier(parse(var), parse(text))
    expected = parse(rerooted)
    reparsed = parse(render(got))
    if got != expected:
        found = 1
        print(
            f"FINDING 1: strip {var!r} from {text!r} -> {got!r}; "
            f"renders as {render(got)!r} but is not that text's tree "
            f"(re-parse equal: {reparsed == got}) "
            f"(expected {expected!r}, the tree of {rerooted!r})"
        )

# Control: unqualified segments behave as stated.
assert expression_relative_to_identifier(parse("x"), parse("x/a/b eq 1")) == parse(
    "a/b eq 1"
)

sys.exit(found)
