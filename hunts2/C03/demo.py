"""
Reproduces the violations of

    "SQLAlchemy ORM and Core shorthands return exactly the rows the filter denotes"

found at this worktree's HEAD.  Run as

    cd /tmp/si_C03 && PYTHONPATH=/tmp/si_C03 /venv/bin/python OUT/demo.py

Every filter is sent through the three public entry styles
(apply_odata_query(select(Model)), apply_odata_query(session.query(Model)),
apply_odata_core(select(table))) against an in-memory SQLite database.
"""
import datetime as dt
import sys
import uuid

sys.path.insert(0, "/tmp/si_C03")

import sqlalchemy as sa
from sqlalchemy.orm import Session, declarative_base

from odata_query.sqlalchemy.shorthand import apply_odata_core, apply_odata_query

Base = declarative_base()


class Row(Base):
    __tablename__ = "row"
    id = sa.Column(sa.Integer, primary_key=True)
    i = sa.Column(sa.Integer)
    flag = sa.Column(sa.Boolean)
    flag2 = sa.Column(sa.Boolean)
    ts = sa.Column(sa.DateTime)
    g = sa.Column(sa.Uuid)  # SQLAlchemy 2.0's portable GUID type
    gs = sa.Column(sa.String)  # a GUID kept as text
    iv = sa.Column(sa.Interval)


engine = sa.create_engine("sqlite://")
Base.metadata.create_all(engine)
sess = Session(engine)
sess.add_all(
    [
        Row(id=1, i=1, flag=True, flag2=False, ts=dt.datetime(2020, 1, 1, 12, 30),
            g=uuid.UUID("aaaaaaaa-0000-0000-0000-000000000001"),
            gs="aaaaaaaa-0000-0000-0000-000000000001", iv=dt.timedelta(days=1)),
        Row(id=2, i=2, flag=False, flag2=False, ts=dt.datetime(2020, 1, 1, 10, 30),
            g=uuid.UUID("bbbbbbbb-0000-0000-0000-000000000002"),
            gs="bbbbbbbb-0000-0000-0000-000000000002", iv=dt.timedelta(days=-1)),
        Row(id=3, i=3, flag=True, flag2=True, ts=dt.datetime(2020, 1, 1, 11, 0),
            g=uuid.UUID("cccccccc-0000-0000-0000-000000000003"),
            gs="cccccccc-0000-0000-0000-000000000003", iv=dt.timedelta(0)),
    ]
)
sess.commit()
ALL = [1, 2, 3]
TABLE = Row.__table__

STYLES = (
    ("select(Model)", lambda f: [r.id for r in sess.execute(apply_odata_query(sa.select(Row), f)).scalars()]),
    ("session.query(Model)", lambda f: [r.id for r in apply_odata_query(sess.query(Row), f).all()]),
    ("select(table)", lambda f: [r.id for r in sess.execute(apply_odata_core(sa.select(TABLE), f))]),
)


def observe(filt):
    """Result of the filter in the three entry styles (a sorted id list or the exception)."""
    out = []
    for _name, fn in STYLES:
        try:
            out.append(sorted(fn(filt)))
        except Exception as exc:  # noqa: BLE001 - the leak of a foreign exception is the finding
            sess.rollback()
            out.append(f"{type(exc).__module__}.{type(exc).__name__}")
    return out


reproduced = set()


def report(n, line):
    """One 'FINDING <n>:' line per root cause, further inputs of the same cause as variants."""
    head = f"FINDING {n}:" if n not in reproduced else f"   variant of {n}:"
    reproduced.add(n)
    print(f"{head} {line}")


def check(n, filt, expected, why):
    obs = observe(filt)
    if any(o != expected for o in obs):
        shown = obs[0] if obs[0] == obs[1] == obs[2] else dict(zip([s[0] for s in STYLES], obs))
        text = filt if len(filt) < 90 else filt[:40] + f"...<{len(filt)} chars>"
        report(n, f"{text} -> {shown} (expected {expected}: {why})")
    else:
        print(f"  (not reproduced, finding {n}: {filt[:80]} -> {obs[0]})")


# ---------------------------------------------------------------------------
# 1. Ordering comparisons of Boolean operands (true is greater than false).
#    rows: 1 = (T, F)   2 = (F, F)   3 = (T, T)   as (flag, flag2)
# ---------------------------------------------------------------------------
check(1, "flag gt false", [1, 3], "same rows as the mirrored spelling 'false lt flag', which works")
check(1, "flag ge true", [1, 3], "same rows as 'true le flag'")
check(1, "flag lt not flag2", [2], "same rows as 'flag lt (flag2 eq false)'; SQL is 'flag < flag2 = 0'")
check(1, "not flag2 gt flag", [2], "same rows as '(flag2 eq false) gt flag'; SQL is 'flag2 = 0 > flag'")
# controls: equivalent spellings that are translated correctly
assert observe("false lt flag") == [[1, 3]] * 3
assert observe("flag lt (flag2 eq false)") == [[2]] * 3
assert observe("(flag2 eq false) gt flag") == [[2]] * 3

# ---------------------------------------------------------------------------
# 2. The UTC offset of a date-time literal is dropped.
# ---------------------------------------------------------------------------
check(2, "2020-01-01T10:30:00Z eq 2020-01-01T12:30:00+02:00", ALL, "both literals are the same instant")
check(2, "2020-01-01T10:30:00Z lt 2020-01-01T11:00:00+02:00", [], "11:00+02:00 is 09:00Z")
same_a = observe("ts eq 2020-01-01T12:30:00+02:00")
same_b = observe("ts eq 2020-01-01T10:30:00Z")
if same_a != same_b:
    report(
        2,
        "ts eq 2020-01-01T12:30:00+02:00 -> "
        f"{same_a[0]} but ts eq 2020-01-01T10:30:00Z -> {same_b[0]} "
        "(expected the same rows: the two literals denote the same instant)",
    )

# ---------------------------------------------------------------------------
# 3. A GUID literal is bound as its source text.
# ---------------------------------------------------------------------------
check(3, "g eq aaaaaaaa-0000-0000-0000-000000000001", [1], "row 1 holds that GUID (sqlalchemy.Uuid column)")
check(3, "g ne aaaaaaaa-0000-0000-0000-000000000001", [2, 3], "row 1 holds that GUID")
check(3, "g in (aaaaaaaa-0000-0000-0000-000000000001, bbbbbbbb-0000-0000-0000-000000000002)", [1, 2], "rows 1 and 2 hold these GUIDs")
check(3, "AAAAAAAA-0000-0000-0000-000000000001 eq aaaaaaaa-0000-0000-0000-000000000001", ALL, "hex digits of a GUID are case insensitive")
check(3, "gs eq AAAAAAAA-0000-0000-0000-000000000001", [1], "same GUID as the stored 'aaaaaaaa-...' (text column)")

# ---------------------------------------------------------------------------
# 4. Literals beyond the range of the Python/driver value leak a foreign
#    exception instead of selecting the rows the comparison denotes.
# ---------------------------------------------------------------------------
check(4, "i lt 9223372036854775808", ALL, "every stored integer is smaller than 2**63")
check(4, "i gt -9223372036854775809", ALL, "every stored integer is greater than -2**63-1")
check(4, "i eq 18446744073709551616", [], "no stored integer equals 2**64")
check(4, "i lt " + "9" * 5000, ALL, "every stored integer is smaller")
check(4, "iv lt duration'P1000000000D'", ALL, "every stored duration is shorter")
check(4, "iv lt duration'P2933000D'", ALL, "every stored duration is shorter")

print(f"{len(reproduced)} finding(s) reproduced: {sorted(reproduced)}")
sys.exit(1 if reproduced else 0)
