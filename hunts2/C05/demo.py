"""Reproduces the C05 findings (parser grouping / explicit parentheses) through the public API.

Run:  cd /tmp/si_C05 && PYTHONPATH=/tmp/si_C05 /venv/bin/python OUT/demo.py
"""
import sys

from odata_query import ast
from odata_query.grammar import ODataLexer, ODataParser


def parse(text):
    return ODataParser().parse(ODataLexer().tokenize(text))


def outcome(text):
    try:
        return parse(text)
    except Exception as exc:  # noqa: BLE001
        return "%s(%s)" % (type(exc).__name__, str(exc)[:70])


found = 0

# ---------------------------------------------------------------------------
# FINDING 1: explicit parentheses around the list operand of `in` are refused
# ---------------------------------------------------------------------------
a = ast.Identifier("a")
lst = ast.List([ast.Integer("1"), ast.Integer("2")])
expected = ast.Compare(ast.In(), a, lst)

# control: minimal text gives the tree; a parenthesised list is the same list
# everywhere else (operand of eq, left operand of in, call argument, unary operand)
assert parse("a in (1, 2)") == expected
assert parse("((1, 2)) eq a") == ast.Compare(ast.Eq(), lst, a)
assert parse("((1, 2)) in ((1, 2),)") == ast.Compare(ast.In(), lst, ast.List([lst]))
assert parse("hassubset(((1, 2)), a)") == ast.Call(ast.Identifier("hassubset"), [lst, a])
assert parse("not ((1, 2))") == ast.UnaryOp(ast.Not(), lst)

variants = [
    ("a in ((1, 2))", expected),
    ("(a) in ((1, 2))", expected),                       # every operand of the operator wrapped
    ("((a) in (((1), (2))))", expected),                 # fully parenthesised, leaves included
    ("a in ( (1, 2) )", expected),
    ("a in (((1, 2)))", expected),
    ("a in ((1,))", ast.Compare(ast.In(), a, ast.List([ast.Integer("1")]))),
    ("not a in ((1, 2))", ast.UnaryOp(ast.Not(), expected)),
    ("a in (1, 2) in ((3, 4))",
     ast.Compare(ast.In(), expected, ast.List([ast.Integer("3"), ast.Integer("4")]))),
    ("xs/any(x: x in ((1, 2)))",
     ast.CollectionLambda(ast.Identifier("xs"), ast.Any(),
                          ast.Lambda(ast.Identifier("x"), ast.Compare(ast.In(), ast.Identifier("x"), lst)))),
]
for text, want in variants:
    got = outcome(text)
    if got != want:
        found += 1
        print("FINDING 1: %r -> %s (expected %s)" % (text, got, want))

sys.exit(1 if found else 0)
