"""
C08 - ORM backends pass every filter value to the database as a bound parameter.

No violation was found for any filter STRING (see findings.md); one borderline,
AST-only observation is reproduced at the end (FINDING 1).  This script re-runs
a compact version of the checks that were used, through the public API only,
on in-memory SQLite:

  1. differential check: for every template x every pair of literal values of
     the same kind, the compiled SQL text must be identical (Django,
     SQLAlchemy ORM, SQLAlchemy Core);
  2. driver-level check: a marker value must never occur in the statement text
     that reaches sqlite3, only in the parameters.

The behaviours that are already KNOWN / judged outside the property (Django
in-list de-duplication, SQLAlchemy's inline boolean constants, PostgreSQL bind
casts) are deliberately kept out of the templates.

Prints 'FINDING <n>: ...' for every violation that reproduces and exits 1 in
that case; prints a summary and exits 0 otherwise.
"""
import sys
import warnings

sys.path.insert(0, "/tmp/si_C08")
warnings.simplefilter("ignore")

import django
from django.conf import settings

settings.configure(
    DATABASES={"default": {"ENGINE": "django.db.backends.sqlite3", "NAME": ":memory:"}},
    INSTALLED_APPS=["django.contrib.contenttypes", __name__],
    USE_TZ=False,
    DEFAULT_AUTO_FIELD="django.db.models.AutoField",
)
django.setup()
from django.db import connection, models


class Author(models.Model):
    name = models.CharField(max_length=100, null=True)
    age = models.IntegerField(null=True)

    class Meta:
        app_label = __name__


class Post(models.Model):
    title = models.CharField(max_length=100, null=True)
    s = models.CharField(max_length=100, null=True)
    n = models.IntegerField(null=True)
    f = models.FloatField(null=True)
    b = models.BooleanField(null=True)
    d = models.DateField(null=True)
    dt = models.DateTimeField(null=True)
    t = models.TimeField(null=True)
    du = models.DurationField(null=True)
    g = models.UUIDField(null=True)
    author = models.ForeignKey(Author, null=True, on_delete=models.CASCADE, related_name="posts")

    class Meta:
        app_label = __name__


class Comment(models.Model):
    text = models.CharField(max_length=100, null=True)
    n = models.IntegerField(null=True)
    post = models.ForeignKey(Post, null=True, on_delete=models.CASCADE, related_name="comments")

    class Meta:
        app_label = __name__


with connection.schema_editor() as se:
    for m in (Author, Post, Comment):
        se.create_model(m)

import re

import sqlalchemy as sa
from sqlalchemy.orm import Session, declarative_base, relationship

from odata_query.django import apply_odata_query as dj_apply
from odata_query.sqlalchemy import apply_odata_core as sa_core_apply
from odata_query.sqlalchemy import apply_odata_query as sa_apply

Base = declarative_base()


class SAuthor(Base):
    __tablename__ = "author"
    id = sa.Column(sa.Integer, primary_key=True)
    name = sa.Column(sa.String)
    age = sa.Column(sa.Integer)
    posts = relationship("SPost", back_populates="author")


class SPost(Base):
    __tablename__ = "post"
    id = sa.Column(sa.Integer, primary_key=True)
    title = sa.Column(sa.String)
    s = sa.Column(sa.String)
    n = sa.Column(sa.Integer)
    f = sa.Column(sa.Float)
    b = sa.Column(sa.Boolean)
    d = sa.Column(sa.Date)
    dt = sa.Column(sa.DateTime)
    t = sa.Column(sa.Time)
    du = sa.Column(sa.Interval)
    g = sa.Column(sa.String)
    author_id = sa.Column(sa.ForeignKey("author.id"))
    author = relationship("SAuthor", back_populates="posts")
    comments = relationship("SComment", back_populates="post")


class SComment(Base):
    __tablename__ = "comment"
    id = sa.Column(sa.Integer, primary_key=True)
    text = sa.Column(sa.String)
    n = sa.Column(sa.Integer)
    post_id = sa.Column(sa.ForeignKey("post.id"))
    post = relationship("SPost", back_populates="comments")


engine = sa.create_engine("sqlite://")


@sa.event.listens_for(engine, "connect")
def _connect(dbapi, rec):
    dbapi.create_function(
        "regexp", 2, lambda p, s: s is not None and re.search(p, s) is not None
    )


Base.metadata.create_all(engine)

driver_log = []


def _dj_wrapper(execute, sql, params, many, context):
    driver_log.append((sql, params))
    return execute(sql, params, many, context)


@sa.event.listens_for(engine, "before_cursor_execute")
def _sa_hook(conn, cursor, statement, parameters, context, executemany):
    driver_log.append((statement, parameters))


def run_django(flt):
    qs = dj_apply(Post.objects.all(), flt)
    sql, _ = qs.query.sql_with_params()
    list(qs)
    return sql


def run_sa_orm(flt):
    stmt = sa_apply(sa.select(SPost), flt)
    sql = str(stmt.compile(engine))
    with Session(engine) as s:
        s.execute(stmt).all()
    return sql


def run_sa_core(flt):
    stmt = sa_core_apply(sa.select(SPost.__table__), flt)
    sql = str(stmt.compile(engine))
    with engine.connect() as c:
        c.execute(stmt).all()
    return sql


BACKENDS = {"django": run_django, "sqlalchemy-orm": run_sa_orm, "sqlalchemy-core": run_sa_core}

# kind -> (values, marker literal, marker needle)
VALUES = {
    "int": (["0", "1", "-1", "-0", "+1", "007", "2147483648", "-2147483649", "9223372036854775807"], "7707707", "7707707"),
    "float": (["0.0", "-0.0", "1.5", "1e5", "1e400", "1e-400", "+1.5", "1E5"], "7707.125", "7707.125"),
    "str": (["''", "'a'", "'%'", "'_'", "'\\'", "''''", "'\"'", "'a''; DROP TABLE post;--'", "'%s'", "'%%'", "'%(x)s'", "':x'", "'?'", "'\x00'", "'\U0001F600'", "'é'", "'" + "x" * 5000 + "'"], "'ZQXJ''K%_'", "ZQXJ"),
    "date": (["2020-01-01", "2020-02-29", "9999-12-31", "1000-01-01"], "2077-07-17", "2077-07-17"),
    "datetime": (["2020-01-01T00:00:00", "2020-01-01T00:00", "2020-01-01T23:59:59.999999", "2020-01-01T00:00:00.123456789012", "1000-01-01T00:00:00"], "2077-07-17T07:17:27", "2077-07-17"),
    "time": (["00:00:00", "23:59:59", "12:00:00.123456", "12:00:00.123456789012"], "07:17:27", "07:17:27"),
    "dur": (["duration'P1D'", "duration'PT0S'", "duration'P'", "duration'-P1D'", "duration'PT0.5S'", "duration'P1Y2M3DT4H5M6.7S'", "DURATION'p1d'"], "duration'P7707D'", "7707"),
    "guid": (["00000000-0000-0000-0000-000000000000", "ffffffff-ffff-ffff-ffff-ffffffffffff", "FFFFFFFF-FFFF-FFFF-FFFF-FFFFFFFFFFFF"], "77077077-7707-7707-7707-770770770770", "7707"),
}
TEMPLATES = {
    "int": ["n eq {0}", "{0} eq n", "n in ({0},)", "n in ({0}, n)", "n add {0} eq 1", "n mod {0} eq 1", "n div {0} eq 1", "{0} eq {0}", "substring(s, {0}) eq 'a'", "substring(s, 1, {0}) eq 'a'", "substring(fullstr=s, index={0}) eq 'a'", "s eq {0}", "author/age eq {0}", "author eq {0}", "comments/any(c: c/n eq {0})", "comments/all(c: c/n in ({0}, c/n))", "author/posts/any(p: p/comments/any(c: c/n eq {0}))", "not (n eq {0})", "(n eq {0}) eq (f gt {0})", "year(dt) eq {0}", "round({0}) eq 1", "{0} in (n, f)"],
    "float": ["f eq {0}", "n eq {0}", "f in ({0},)", "f add {0} gt 1", "f div {0} gt 1", "{0} div f gt 1", "round({0}) eq 1", "floor({0}) eq 1", "{0} lt {0}", "comments/any(c: c/n gt {0})"],
    "str": ["s eq {0}", "{0} eq s", "s in ({0},)", "s in ({0}, title)", "contains(s, {0})", "startswith(s, {0})", "endswith(s, {0})", "contains({0}, s)", "contains({0}, {0})", "contains(field=s, substr={0})", "concat(s, {0}) eq 'a'", "indexof(s, {0}) eq 1", "length({0}) eq 1", "tolower({0}) eq s", "trim({0}) eq s", "substring({0}, 1, 2) eq s", "matchesPattern(s, {0})", "author/name eq {0}", "comments/any(c: c/text eq {0})", "comments/all(c: contains(c/text, {0}))", "comments/any(c: c/post/author/name eq {0})", "n eq {0}", "not contains(s, {0})", "contains(s, {0}) eq startswith(title, {0})", "g eq {0}", "d eq {0}"],
    "date": ["d eq {0}", "d in ({0},)", "{0} lt d", "year({0}) eq 2020", "dt gt {0}", "date(dt) eq {0}", "{0} eq {0}"],
    "datetime": ["dt eq {0}", "dt in ({0},)", "{0} lt dt", "year({0}) eq 2020", "hour({0}) eq 1", "date({0}) eq d", "time({0}) eq t", "{0} eq {0}", "now() gt {0}", "dt sub {0} gt duration'P1D'"],
    "time": ["t eq {0}", "t in ({0},)", "{0} lt t", "hour({0}) eq 1", "time(dt) eq {0}", "{0} eq {0}"],
    "dur": ["du eq {0}", "du in ({0},)", "{0} lt du", "dt add {0} gt now()", "dt sub {0} gt now()", "du add {0} eq du", "{0} eq {0}"],
    "guid": ["g eq {0}", "g in ({0},)", "{0} eq g", "s eq {0}", "{0} eq {0}"],
}

findings = []
stats = {"templates": 0, "filters_ok": 0, "driver_statements": 0}

with connection.execute_wrapper(_dj_wrapper):
    for kind, templates in TEMPLATES.items():
        values, marker, needle = VALUES[kind]
        for template in templates:
            for backend, run in BACKENDS.items():
                stats["templates"] += 1
                seen = {}
                for value in values + [marker]:
                    flt = template.replace("{0}", value)
                    driver_log.clear()
                    try:
                        sql = run(flt)
                    except Exception:
                        # refused or failing inside the engine: not an accepted filter
                        continue
                    stats["filters_ok"] += 1
                    seen.setdefault(sql, flt)
                    if value == marker:
                        for statement, params in driver_log:
                            stats["driver_statements"] += 1
                            if needle.lower() in statement.lower():
                                findings.append(
                                    f"{backend}: {flt[:80]} -> marker {needle!r} occurs in the "
                                    f"statement text handed to sqlite3 (expected only in the parameters)"
                                )
                if len(seen) > 1:
                    a, b = list(seen.values())[:2]
                    findings.append(
                        f"{backend}: {a[:80]!r} vs {b[:80]!r} -> {len(seen)} different SQL texts "
                        f"(expected identical SQL, values only in the parameters)"
                    )

# ----------------------------------------------------------------------------
# FINDING 1 (AST-only, borderline): `in` with a right operand that is not a
# List.  The grammar cannot produce this tree, but the SQLAlchemy visitors
# accept it, and SQLAlchemy turns the single bound value into an *expanding*
# parameter: the string is iterated, the number of placeholders in the
# statement handed to sqlite3 depends on the value, and '' becomes SQL text.
# ----------------------------------------------------------------------------
from odata_query import ast as odata_ast
from odata_query.sqlalchemy.core import AstToSqlAlchemyCoreVisitor
from odata_query.sqlalchemy.orm import AstToSqlAlchemyOrmVisitor

finding_1 = []
for visitor_cls, target in (
    (AstToSqlAlchemyOrmVisitor, SPost),
    (AstToSqlAlchemyCoreVisitor, SPost.__table__),
):
    seen = {}
    for value in ("abc", "ab", ""):
        tree = odata_ast.Compare(
            odata_ast.In(), odata_ast.Identifier("s"), odata_ast.String(value)
        )
        try:
            where = visitor_cls(target).visit(tree)
            stmt = sa.select(SPost.__table__.c.id).where(where)
            driver_log.clear()
            with engine.connect() as c:
                c.execute(stmt).all()
            statement, params = driver_log[-1]
            seen[value] = (" ".join(statement.split("WHERE", 1)[-1].split()), tuple(params))
        except Exception as exc:  # refused: nothing to report
            seen[value] = ("refused: " + type(exc).__name__, ())
    texts = {v[0] for v in seen.values() if not v[0].startswith("refused")}
    if len(texts) > 1:
        finding_1.append(
            f"[{visitor_cls.__name__}] "
            + "; ".join(f"v={k!r}: WHERE {v[0]} params={v[1]}" for k, v in seen.items())
        )
if finding_1:
    findings.append(
        "AST Compare(In(), Identifier('s'), String(v)) (AST-only, no filter string parses to it) "
        "-> statement handed to sqlite3 depends on the value: "
        + " | ".join(finding_1)
        + " (expected one SQL text with the whole string as a single parameter, or a TypeException)"
    )

for i, line in enumerate(findings, 1):
    print(f"FINDING {i}: {line}")
print(
    "differential / driver-level sweep over filter strings:",
    stats,
    "| findings:",
    len(findings),
)
sys.exit(1 if findings else 0)
