"""
Reproduces the findings of OUT/findings.md through the public API.

    cd /tmp/si_C20 && PYTHONPATH=/tmp/si_C20 /venv/bin/python OUT/demo.py

Both findings are about OVERLAPPING parse calls (two threads) that share one
lexer or one parser instance. Part (a) of each finding forces the thread switch
at a fixed point (a trace function in the victim thread starts the other thread
and waits for it, exactly what the scheduler may do at that bytecode), so it is
deterministic. Part (b) lets real threads run freely.
"""
import collections
import sys
import threading

from odata_query.grammar import ODataLexer, ODataParser
from odata_query.rewrite import AliasRewriter

GRAMMAR_FILE = sys.modules["odata_query.grammar"].__file__


def outcome(lexer, parser, text):
    try:
        return repr(parser.parse(lexer.tokenize(text)))
    except Exception as exc:  # noqa
        return f"{type(exc).__name__}: {exc}"


def fresh(text):
    return outcome(ODataLexer(), ODataParser(), text)


def run_with_switch_at_token(victim, token_func, nth, intruder):
    """
    Runs ``victim()`` in a thread. When the lexer rule ``token_func`` is entered
    for the ``nth`` time in that thread, the thread is "preempted": another
    thread runs ``intruder()`` to completion, then the victim continues.
    """
    seen = [0]
    box = {}

    def tracer(frame, event, arg):
        code = frame.f_code
        if (
            event == "call"
            and code.co_name == token_func
            and code.co_filename == GRAMMAR_FILE
        ):
            seen[0] += 1
            if seen[0] == nth:
                other = threading.Thread(target=intruder)
                other.start()
                other.join()
        return None

    def body():
        sys.settrace(tracer)
        try:
            box["result"] = victim()
        finally:
            sys.settrace(None)

    thread = threading.Thread(target=body)
    thread.start()
    thread.join()
    return box["result"]


def free_running(share_lexer, share_parser, filters, rounds=3000, threads=4):
    shared_lexer, shared_parser = ODataLexer(), ODataParser()
    expected = {f: fresh(f) for f in filters}
    counts = collections.Counter()
    first = {}

    def worker(offset):
        lexer = shared_lexer if share_lexer else ODataLexer()
        parser = shared_parser if share_parser else ODataParser()
        for n in range(rounds):
            text = filters[(n + offset) % len(filters)]
            got = outcome(lexer, parser, text)
            if got == expected[text]:
                counts["same"] += 1
            else:
                kind = "other-exception"
                if not got.split(":")[0].endswith(("Exception", "Error")):
                    kind = "wrong-ast"
                counts[kind] += 1
                first.setdefault(kind, (text, got))

    old = sys.getswitchinterval()
    sys.setswitchinterval(1e-6)
    try:
        pool = [threading.Thread(target=worker, args=(i,)) for i in range(threads)]
        [t.start() for t in pool]
        [t.join() for t in pool]
    finally:
        sys.setswitchinterval(old)
    return counts, first


FILTERS = [
    "a sub b sub c",
    "a eq 1 and b eq 2 or c eq 3",
    "contains(name, 'x') and not (n lt 10)",
    "x/any(i: i/v gt 1.5)",
    "a eq 'some long string with spaces' and b in (1, 2, 3)",
]

findings = 0

###############################################################################
# FINDING 1: one ODataParser shared by two threads (each has its own lexer)
###############################################################################
probe = "a sub b sub c"
parser = ODataParser()
lexer_a, lexer_b = ODataLexer(), ODataLexer()
got = run_with_switch_at_token(
    victim=lambda: outcome(lexer_a, parser, probe),
    token_func="SUB",
    nth=2,  # the other thread runs while the parser waits for its 4th token
    intruder=lambda: outcome(lexer_b, parser, "x"),
)
if got != fresh(probe):
    findings += 1
    print(
        f"FINDING 1: shared ODataParser, thread A parses {probe!r} (own lexer), "
        f"thread B parses 'x' (own lexer) while A waits for a token -> A gets {got} "
        f"(expected {fresh(probe)})"
    )

probe = "a eq 1 and b eq 2"
parser = ODataParser()
got = run_with_switch_at_token(
    victim=lambda: outcome(lexer_a, parser, probe),
    token_func="AND",
    nth=1,
    intruder=lambda: outcome(lexer_b, parser, "x"),
)
if got != fresh(probe):
    print(
        f"FINDING 1 (variant): same setting, {probe!r} -> {got} "
        f"(expected {fresh(probe)})"
    )

# the alias rewriter built with a caller-supplied parser that another thread uses
aliases = {"total": "price sub discount sub tax"}
parser = ODataParser()
rewriter = run_with_switch_at_token(
    victim=lambda: AliasRewriter(aliases, lexer=ODataLexer(), parser=parser),
    token_func="SUB",
    nth=2,
    intruder=lambda: outcome(lexer_b, parser, "x"),
)
reference = AliasRewriter(aliases)
if rewriter.replacements != reference.replacements:
    print(
        f"FINDING 1 (variant): AliasRewriter({aliases!r}, parser=<shared with thread B>) "
        f"-> replacement {list(rewriter.replacements.values())[0]!r} "
        f"(expected, as with fresh instances, {list(reference.replacements.values())[0]!r})"
    )

counts, first = free_running(share_lexer=False, share_parser=True, filters=FILTERS)
if counts["wrong-ast"] or counts["other-exception"]:
    print(
        f"FINDING 1 (free running, 4 threads x 3000 parses, one parser, own lexers): "
        f"{dict(counts)}; e.g. {first} (expected every result equal to a fresh parse)"
    )

###############################################################################
# FINDING 2: one ODataLexer shared by two threads (each has its own parser)
###############################################################################
probe = "a eq 1 and b eq 2 or c eq 3"
lexer = ODataLexer()
parser_a, parser_b = ODataParser(), ODataParser()
got = run_with_switch_at_token(
    victim=lambda: outcome(lexer, parser_a, probe),
    token_func="INTEGER",
    nth=1,  # the other thread runs while rule INTEGER of A's stream is executing
    intruder=lambda: outcome(lexer, parser_b, "name eq 'abcdefg'"),
)
if got != fresh(probe):
    findings += 1
    print(
        f"FINDING 2: shared ODataLexer, thread A parses {probe!r} (own parser), "
        f"thread B parses \"name eq 'abcdefg'\" (17 characters, own parser) while a lexer rule of A "
        f"runs -> A gets {got} (expected {fresh(probe)})"
    )

counts, first = free_running(share_lexer=True, share_parser=False, filters=FILTERS)
if counts["wrong-ast"] or counts["other-exception"]:
    print(
        f"FINDING 2 (free running, 4 threads x 3000 parses, one lexer, own parsers): "
        f"{dict(counts)}; e.g. {first} (expected every result equal to a fresh parse)"
    )

# control: nothing shared -> always equal to a fresh parse
counts, first = free_running(share_lexer=False, share_parser=False, filters=FILTERS)
print(f"control (nothing shared between the threads): {dict(counts)}")

sys.exit(1 if findings else 0)
