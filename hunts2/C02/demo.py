"""
Reproduces the findings of OUT/findings.md through the public API
(odata_query.django.apply_odata_query) on an in-memory SQLite database.

run:  cd /tmp/si_C02 && PYTHONPATH=/tmp/si_C02 /venv/bin/python OUT/demo.py
exit code 1 if at least one finding reproduces, 0 otherwise.
"""
import datetime as dt
import decimal
import sys
import warnings

sys.path.insert(0, "/tmp/si_C02")

import django
from django.conf import settings

settings.configure(
    DATABASES={"default": {"ENGINE": "django.db.backends.sqlite3", "NAME": ":memory:"}},
    INSTALLED_APPS=[],
    USE_TZ=True,
    TIME_ZONE="UTC",
)
django.setup()

from django.db import connection, models  # noqa: E402

from odata_query.django import apply_odata_query  # noqa: E402

warnings.simplefilter("ignore")


class Row(models.Model):
    i = models.IntegerField(null=True)
    s = models.CharField(max_length=50, null=True)
    t = models.CharField(max_length=50, null=True)
    ts = models.DateTimeField(null=True)
    d = models.DateField(null=True)
    dec = models.DecimalField(max_digits=10, decimal_places=3, null=True)

    class Meta:
        app_label = "demo"


with connection.schema_editor() as se:
    se.create_model(Row)

UTC = dt.timezone.utc
Row.objects.create(id=1, i=1, s="abc", t="ab", d=dt.date(2020, 1, 1),
                   ts=dt.datetime(2020, 1, 1, 12, 0, tzinfo=UTC), dec=decimal.Decimal("4.000"))
Row.objects.create(id=2, i=-3, s="a%b_c\\d", t="%", d=dt.date(2020, 2, 29),
                   ts=dt.datetime(2020, 2, 29, 23, 59, 59, tzinfo=UTC), dec=decimal.Decimal("0.500"))
Row.objects.create(id=3)  # all NULL
ALL = [1, 2, 3]


def run(flt):
    try:
        return sorted(r.pk for r in apply_odata_query(Row.objects.all(), flt))
    except Exception as e:  # noqa
        return "%s: %s" % (type(e).__name__, str(e)[:90])


found = 0


def check(n, flt, expected, why):
    """expected: a list of pks, or the string 'refusal' (an odata_query exception)."""
    global found
    got = run(flt)
    if expected == "refusal":
        ok = isinstance(got, str) and got.split(":")[0].endswith("Exception")
    else:
        ok = got == expected
    if not ok:
        found += 1
        print("FINDING %s: %s -> %s (expected %s; %s)" % (n, flt, got, expected, why))
    else:
        print("not reproduced %s: %s -> %s" % (n, flt, got))


# 1. date/time functions drop the offset of a DateTimeOffset literal
check("1a", "hour(2020-01-01T00:00:00+05:00) eq 0", ALL, "hour() is evaluated in the value's own offset")
check("1b", "date(2020-01-01T00:00:00+05:00) eq 2020-01-01", ALL, "date() is evaluated in the value's own offset")
check("1c", "year(2020-01-01T00:00:00+05:00) eq 2020", ALL, "the literal lies in 2020")
check("1d", "minute(2020-01-01T23:30:00+05:30) eq 30", ALL, "minute of 23:30 is 30")
check("1e", "d eq date(2020-01-01T00:00:00+05:00)", [1], "row 1 has d = 2020-01-01")

# 2. concat() treats NULL as the empty string
check("2a", "concat(s, 'x') eq 'x'", [], "s is NULL in row 3, no row has s = ''; the SQL backends render s || 'x' (NULL)")
check("2b", "concat(s, t) ne 'q'", [1, 2], "NULL operands propagate, row 3 is not selected by any other function")
check("2c", "length(concat(s, t)) eq 0", [], "no row has two empty strings")

# 3. integer literal outside Int64 crashes inside the sqlite3 driver
check("3a", "i lt 9223372036854775808", [1, 2], "every non-NULL Int32 is below 2^63")
check("3b", "i eq 9223372036854775808", [], "no row")
check("3c", "i in (1, 99999999999999999999)", [1], "row 1")

# 4. decimal literals are floats: DecimalField arithmetic
check("4a", "dec add 0.5 gt 1", [1], "4.000 + 0.5 > 1 (0.500 + 0.5 is not)")
check("4b", "dec div 8 eq 0.5", [1], "Edm.Decimal 4.000 div 8 is 0.5 (SQLite divides the integers 4 / 8)")
check("4c", "dec div 8.0 eq 0.5", [1], "no spelling of the divisor avoids it")

# 5. a named parameter given twice: the last one silently wins
check("5", "substring(fullstr=s,index=1,index=0) eq 'abc'", "refusal", "a parameter given twice is an argument error")

# 6. names with '__' / path segments that name a Django transform are resolved as lookups
check("6a", "s__length eq 3", "refusal", "Row has no property s__length")
check("6b", "s/length eq 3", "refusal", "s is a string, not an entity with a property length")
check("6c", "d__year eq 2020", "refusal", "Row has no property d__year")

sys.exit(1 if found else 0)
