"""C10 demo: no violation was found; this re-runs a compact sweep and exits 0 when it stays clean."""
import itertools, signal, sys, time
sys.path.insert(0, "/tmp/si_C10")
from odata_query import ast, exceptions as ex
from odata_query.grammar import ODataLexer, ODataParser

OK_EXC = (ex.TokenizingException, ex.ParsingException, ex.UnknownFunctionException, ex.ArgumentCountException)
class _TO(Exception): pass
def _alarm(*a): raise _TO()
signal.signal(signal.SIGALRM, _alarm)

def outcome(s, lexer=None, parser=None, timeout=20):
    signal.setitimer(signal.ITIMER_REAL, timeout)
    try:
        try:
            r = (parser or ODataParser()).parse((lexer or ODataLexer()).tokenize(s))
        finally:
            signal.setitimer(signal.ITIMER_REAL, 0)
        return ("OK", repr(type(r))) if isinstance(r, ast._Node) else ("NONNODE", repr(r)[:80])
    except OK_EXC as e:
        return ("ERR", type(e).__name__, str(e)[:120])
    except _TO:
        return ("TIMEOUT",)
    except BaseException as e:  # foreign
        return ("FOREIGN", type(e).__name__, str(e)[:120])

atoms = ["a", "not ", "null", "true", "/any(", "x:", "geo.length", "now", "f.g", " in ", " eq ", " and ",
         "1", "-1", "1.5e3", "'s'", "2020-01-01T10:00", "10:00:00", "duration'P1D'", "(", ")", ",", "/",
         ":", "=", " ", "-", "+", ".", "'", "ſ", "²", "\ud800", "\x00"]
N = 65536
longs = [" and a".join(["a"] * 10000), "not " * 16000 + "a", "-" * 65000 + "a", "(" * 32000 + "a" + ")" * 32000,
         "(" * 20000 + "1" + ",)" * 20000, "f.g(" * 16000 + "1" + ")" * 16000, "a/any(x:" * 8000 + "x" + ")" * 8000,
         "f.g(" + ",".join(["a=1"] * 13000) + ")", "'" * N, "'" * (N - 1), "'" + "x" * (N - 1), "9" * N,
         "a" + " " * (N - 6) + "eq 1", "/".join(["a"] * 1000), "duration'PT" + "9" * 60000 + "X'"]
shared_l, shared_p = ODataLexer(), ODataParser()
findings = []
def check(s):
    o1 = outcome(s, shared_l, shared_p)
    o2 = outcome(s)
    label = repr(s) if len(s) < 60 else repr(s[:40]) + "...(%d chars)" % len(s)
    if o1[0] in ("NONNODE", "TIMEOUT", "FOREIGN"):
        findings.append((label, o1, "node or library syntax/function error"))
    elif o1 != o2:
        findings.append((label, (o1, o2), "same outcome on shared and fresh instances"))
n = 0
for k in (1, 2, 3):
    for c in itertools.product(atoms, repeat=k):
        check("".join(c)); n += 1
for s in longs:
    check(s); n += 1
for i, (label, obs, exp) in enumerate(findings, 1):
    print(f"FINDING {i}: {label} -> {obs} (expected {exp})")
if not findings:
    print(f"no finding reproduces ({n} inputs checked: all gave a node or a library syntax/function error)")
sys.exit(1 if findings else 0)
