"""
Reproduces the findings of OUT/findings.md through the public API.

    cd /tmp/si_C16 && PYTHONPATH=/tmp/si_C16 /venv/bin/python OUT/demo.py

Prints one line per finding, exit code 1 if at least one reproduces.
"""
import sys
import warnings

warnings.filterwarnings("ignore")

import django
from django.conf import settings

settings.configure(
    INSTALLED_APPS=["__main__"],
    DATABASES={
        "default": {"ENGINE": "django.db.backends.sqlite3", "NAME": ":memory:"}
    },
    DEFAULT_AUTO_FIELD="django.db.models.AutoField",
)
django.setup()

import sqlite3

import sqlalchemy as sa
from django.db import connection, models
from sqlalchemy.orm import declarative_base, relationship

from odata_query import ast
from odata_query.django.django_q import AstToDjangoQVisitor
from odata_query.grammar import ODataLexer, ODataParser
from odata_query.sql.sqlite import AstToSqliteSqlVisitor
from odata_query.sqlalchemy.orm import AstToSqlAlchemyOrmVisitor
from odata_query.visitor import NodeVisitor


def parse(text):
    return ODataParser().parse(ODataLexer().tokenize(text))


def all_nodes(node, kind, out=None):
    """Reference walk: every node of ``kind`` in depth-first field order."""
    from dataclasses import fields

    out = [] if out is None else out
    if isinstance(node, kind):
        out.append(node)
    for f in fields(node):
        v = getattr(node, f.name)
        for item in v if isinstance(v, list) else [v]:
            if isinstance(item, ast._Node):
                all_nodes(item, kind, out)
    return out


found = 0

###############################################################################
# FINDING 1: a handler installed on a Django / SQLAlchemy-ORM visitor instance
# (the way tests/unit/test_visitor.py installs `visit_Identifier`) is not
# dispatched for the nodes inside a lambda body.
###############################################################################


class Parent(models.Model):
    a = models.IntegerField(null=True)


class Child(models.Model):
    a = models.IntegerField(null=True)
    parent = models.ForeignKey(
        Parent, null=True, on_delete=models.CASCADE, related_name="ys"
    )


Base = declarative_base()


class SParent(Base):
    __tablename__ = "sparent"
    id = sa.Column(sa.Integer, primary_key=True)
    a = sa.Column(sa.Integer)
    ys = relationship("SChild", back_populates="parent")


class SChild(Base):
    __tablename__ = "schild"
    id = sa.Column(sa.Integer, primary_key=True)
    a = sa.Column(sa.Integer)
    parent_id = sa.Column(sa.ForeignKey("sparent.id"))
    parent = relationship("SParent", back_populates="ys")


FILTER_1 = "a eq 1 and ys/any(y: y/a eq 2)"
tree = parse(FILTER_1)
expected = [n.val for n in all_nodes(tree, ast.Integer)]

# The base class honours a handler set on the instance:
base = NodeVisitor()
base_seen = []
base.visit_Integer = lambda node: base_seen.append(node.val)
base.visit(tree)
assert base_seen == expected, base_seen

for label, make in (
    ("AstToDjangoQVisitor", lambda: AstToDjangoQVisitor(Parent)),
    ("AstToSqlAlchemyOrmVisitor", lambda: AstToSqlAlchemyOrmVisitor(SParent)),
):
    visitor = make()
    seen = []
    shipped_handler = visitor.visit_Integer

    def handler(node, seen=seen, shipped_handler=shipped_handler):
        seen.append(node.val)
        return shipped_handler(node)

    visitor.visit_Integer = handler
    visitor.visit(tree)
    if seen != expected:
        found += 1
        print(
            f"FINDING 1: {label} with instance handler visit_Integer on {FILTER_1!r} "
            f"-> handler dispatched for Integer nodes {seen} "
            f"(expected {expected}: every Integer node, as NodeVisitor does: {base_seen})"
        )

###############################################################################
# FINDING 2: the SQL visitors dispatch the pattern argument of
# contains/startswith/endswith twice when it is not a literal, and throw the
# handler's result away when it is one.
###############################################################################


class BindingVisitor(AstToSqliteSqlVisitor):
    """Single-kind override: strings become bind parameters."""

    def __init__(self):
        super().__init__()
        self.params = []

    def visit_String(self, node):
        self.params.append(node.val)
        return "?"


con = sqlite3.connect(":memory:")
con.execute("CREATE TABLE t (name TEXT)")
con.execute("INSERT INTO t VALUES ('xyz')")

for text in (
    "name eq 'xyz'",  # control: works
    "contains(name, 'x')",
    "contains(name, tolower('X'))",
    "startswith(name, concat('x', 'y')) and name eq 'xyz'",
):
    visitor = BindingVisitor()
    tree = parse(text)
    where = visitor.visit(tree)
    n_nodes = len(all_nodes(tree, ast.String))
    try:
        rows = con.execute(f"SELECT name FROM t WHERE {where}", visitor.params).fetchall()
        outcome = f"rows {rows}"
    except Exception as e:  # noqa
        rows = None
        outcome = f"{type(e).__name__}: {e}"
    ok = len(visitor.params) == n_nodes == where.count("?") and rows == [("xyz",)]
    if not ok:
        found += 1
        print(
            f"FINDING 2: AstToSqliteSqlVisitor + visit_String override on {text!r} "
            f"-> SQL {where!r}, handler called {len(visitor.params)}x {visitor.params} "
            f"for {n_nodes} String node(s), {outcome} "
            f"(expected one dispatch per String node, its result used: "
            f"{n_nodes} placeholder(s), rows [('xyz',)])"
        )


class CountingVisitor(AstToSqliteSqlVisitor):
    def __init__(self):
        super().__init__()
        self.count = 0

    def visit_Identifier(self, node):
        self.count += 1
        return super().visit_Identifier(node)


visitor = CountingVisitor()
visitor.visit(parse("endswith(name, b)"))
if visitor.count != 2:
    found += 1
    print(
        f"FINDING 2: AstToSqliteSqlVisitor + visit_Identifier override on 'endswith(name, b)' "
        f"-> handler dispatched {visitor.count} times (expected 2: once per Identifier argument)"
    )

if not found:
    print("no finding reproduced")
sys.exit(1 if found else 0)
