"""
Reproduces the C09 findings (SQL dialects emit well-formed SQL mirroring the filter).
Run:  cd /tmp/si_C09 && PYTHONPATH=/tmp/si_C09 /venv/bin/python OUT/demo.py
"""
import re
import sqlite3
import sys

from odata_query.grammar import ODataLexer, ODataParser
from odata_query.sql import AstToAthenaSqlVisitor, AstToSqliteSqlVisitor, AstToSqlVisitor

DIALECTS = {
    "standard": AstToSqlVisitor,
    "sqlite": AstToSqliteSqlVisitor,
    "athena": AstToAthenaSqlVisitor,
}


def to_sql(filter_str, dialect, alias=None):
    ast = ODataParser().parse(ODataLexer().tokenize(filter_str))
    return DIALECTS[dialect](alias).visit(ast)


def sqlite_accepts(where, alias=None):
    """Prepare the WHERE clause on a real SQLite engine (syntax check only)."""
    con = sqlite3.connect(":memory:")
    con.execute('CREATE TABLE t ("t1", "t2", "s1", "x")')
    frm = "t"
    if alias is not None:
        frm = 't AS "%s"' % alias.replace('"', '""')
    try:
        con.execute(f"EXPLAIN SELECT 1 FROM {frm} WHERE {where}")
        return None
    except Exception as e:  # noqa
        return f"{type(e).__name__}: {e}"


# A strict SQL tokenizer: strings, quoted identifiers, numbers, words, operators.
TOKEN = re.compile(
    r"""\s+|'(?:[^'\x00]|'')*'|"(?:[^"\x00]|"")*"|[0-9]+(?:\.[0-9]+)?(?:[eE][+-]?[0-9]+)?"""
    r"""|[A-Za-z_][A-Za-z_0-9]*|\|\||!=|<=|>=|[<>=+\-*/%(),.]"""
)


def tokens(sql):
    pos, out = 0, []
    while pos < len(sql):
        m = TOKEN.match(sql, pos)
        if not m:
            return None, pos
        if m.group().strip():
            out.append(m.group())
        pos = m.end()
    return out, None


found = 0

# ---------------------------------------------------------------------------
# FINDING 1: SQLite dialect renders durations as INTERVAL literals, which is
# not SQLite syntax.
for flt in (
    "t1 add duration'P1D' gt t2",
    "t1 sub duration'-P1DT2H' le now()",
    "duration'PT1S' lt duration'PT2S'",
):
    sql = to_sql(flt, "sqlite")
    err = sqlite_accepts(sql)
    if err:
        found += 1
        print(
            f"FINDING 1: {flt!r} [sqlite] -> {sql!r} rejected by SQLite ({err}) "
            f"(expected a well-formed SQLite expression, e.g. via DATETIME(x, '+1 days'), or a refusal)"
        )
        break

# ---------------------------------------------------------------------------
# FINDING 2: a string literal containing U+0000 is copied verbatim into the SQL
# text; the result cannot be tokenised (SQLite stops at NUL, sqlite3 refuses it).
flt = "s1 eq 'a\x00b'"
hit = []
for d in DIALECTS:
    sql = to_sql(flt, d)
    toks, bad_at = tokens(sql)
    if toks is None:
        hit.append((d, sql, bad_at))
if hit:
    found += 1
    err = sqlite_accepts(to_sql(flt, "sqlite"))
    print(
        f"FINDING 2: {flt!r} [{', '.join(h[0] for h in hit)}] -> {hit[0][1]!r}: raw NUL inside the SQL text, "
        f"not tokenisable from offset {hit[0][2]}; SQLite: {err} "
        f"(expected tokenisable SQL, e.g. 'a' || CHAR(0) || 'b', or a refusal)"
    )
flt = "contains(s1, 'a\x00b')"
sql = to_sql(flt, "sqlite")
if tokens(sql)[0] is None:
    print(f"   variant: {flt!r} [sqlite] -> {sql!r}; SQLite: {sqlite_accepts(sql)}")

# ---------------------------------------------------------------------------
# FINDING 3: the table alias is put between double quotes without doubling the
# double quotes it contains.
flt, alias = "x eq 1", 'my"alias'
hit = []
for d in DIALECTS:
    sql = to_sql(flt, d, alias)
    toks, bad_at = tokens(sql)
    # well-formed would be exactly:  "my""alias" . "x" = 1
    if toks is None or toks[:3] != ['"my""alias"', ".", '"x"']:
        hit.append((d, sql))
if hit:
    found += 1
    err = sqlite_accepts(to_sql(flt, "sqlite", alias), alias)
    print(
        f"FINDING 3: {flt!r} alias={alias!r} [{', '.join(h[0] for h in hit)}] -> {hit[0][1]!r}; SQLite: {err} "
        f"""(expected '"my""alias"."x" = 1': the alias qualifies the field and nothing else)"""
    )
flt, alias = "x eq 1", 't" OR 1=1 OR "t'
sql = to_sql(flt, "standard", alias)
print(f"   variant: {flt!r} alias={alias!r} [standard] -> {sql!r} (alias text becomes operators of the expression)")

sys.exit(1 if found else 0)
