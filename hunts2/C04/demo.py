"""
Reproduces the findings of OUT/findings.md through the public shorthands
(odata_query.django.apply_odata_query / odata_query.sqlalchemy.apply_odata_query).

Run:  cd /tmp/si_C04 && PYTHONPATH=/tmp/si_C04 /venv/bin/python OUT/demo.py
"""
import sys
import types
import warnings

warnings.simplefilter("ignore")

# --------------------------------------------------------------------------- Django
_app = types.ModuleType("demoapp")
_app.__file__ = "/nonexistent/demoapp/__init__.py"
_app.__path__ = ["/nonexistent/demoapp"]
sys.modules["demoapp"] = _app

import django
from django.conf import settings

settings.configure(
    DATABASES={"default": {"ENGINE": "django.db.backends.sqlite3", "NAME": ":memory:"}},
    INSTALLED_APPS=["demoapp"],
    USE_TZ=False,
    DEFAULT_AUTO_FIELD="django.db.models.AutoField",
)
django.setup()
from django.db import connection, models


class Person(models.Model):
    name = models.CharField(max_length=50)
    manager = models.ForeignKey("self", null=True, on_delete=models.CASCADE, related_name="reports")

    class Meta:
        app_label = "demoapp"
        db_table = "person"


class Blog(models.Model):
    title = models.CharField(max_length=50)
    owner = models.ForeignKey(Person, null=True, on_delete=models.CASCADE, related_name="blogs")

    class Meta:
        app_label = "demoapp"
        db_table = "blog"


class Post(models.Model):
    title = models.CharField(max_length=50)
    n = models.IntegerField()
    blog = models.ForeignKey(Blog, null=True, on_delete=models.CASCADE, related_name="posts")

    class Meta:
        app_label = "demoapp"
        db_table = "post"


with connection.schema_editor() as se:
    for m in (Person, Blog, Post):
        se.create_model(m)

# --------------------------------------------------------------------------- SQLAlchemy
import sqlalchemy as sa
from sqlalchemy.orm import Session, aliased, declarative_base, relationship

Base = declarative_base()


class SPerson(Base):
    __tablename__ = "person"
    id = sa.Column(sa.Integer, primary_key=True)
    name = sa.Column(sa.String, nullable=False)
    manager_id = sa.Column(sa.Integer, sa.ForeignKey("person.id"))
    manager = relationship("SPerson", remote_side=[id], back_populates="reports")
    reports = relationship("SPerson", back_populates="manager")
    blogs = relationship("SBlog", back_populates="owner")


class SBlog(Base):
    __tablename__ = "blog"
    id = sa.Column(sa.Integer, primary_key=True)
    title = sa.Column(sa.String, nullable=False)
    owner_id = sa.Column(sa.Integer, sa.ForeignKey("person.id"))
    owner = relationship("SPerson", back_populates="blogs")
    posts = relationship("SPost", back_populates="blog")


class SPost(Base):
    __tablename__ = "post"
    id = sa.Column(sa.Integer, primary_key=True)
    title = sa.Column(sa.String, nullable=False)
    n = sa.Column(sa.Integer, nullable=False)
    blog_id = sa.Column(sa.Integer, sa.ForeignKey("blog.id"))
    blog = relationship("SBlog", back_populates="posts")


engine = sa.create_engine("sqlite://")
Base.metadata.create_all(engine)

# --------------------------------------------------------------------------- same content in both
PERSONS = [(1, "a", None), (2, "b", 1), (3, "c", 2), (4, "a", 3)]  # id, name, manager
BLOGS = [(1, "b1", 1), (2, "b2", 2), (3, "p9", 3)]  # id, title, owner
POSTS = [(1, "p1", 1, 1), (2, "p2", 2, 1), (3, "p3", 1, 2), (4, "p9", 4, None)]  # id, title, n, blog

for i, name, mgr in PERSONS:
    Person.objects.create(id=i, name=name, manager_id=mgr)
for i, title, owner in BLOGS:
    Blog.objects.create(id=i, title=title, owner_id=owner)
for i, title, n, blog in POSTS:
    Post.objects.create(id=i, title=title, n=n, blog_id=blog)
with Session(engine) as s:
    s.add_all([SPerson(id=i, name=nm, manager_id=m) for i, nm, m in PERSONS])
    s.flush()
    s.add_all([SBlog(id=i, title=t, owner_id=o) for i, t, o in BLOGS])
    s.flush()
    s.add_all([SPost(id=i, title=t, n=n, blog_id=b) for i, t, n, b in POSTS])
    s.commit()

from odata_query.django import apply_odata_query as dj_apply
from odata_query.sqlalchemy import apply_odata_query as sa_apply

DJ = {"Person": Person, "Blog": Blog, "Post": Post}
SA = {"Person": SPerson, "Blog": SBlog, "Post": SPost}


def run_dj(model, flt):
    try:
        return sorted(dj_apply(DJ[model].objects.all(), flt).values_list("pk", flat=True))
    except Exception as e:  # noqa
        return "%s: %s" % (type(e).__name__, str(e).splitlines()[0][:90])


def run_sa(model, flt, base=None):
    try:
        with Session(engine) as s:
            q = sa_apply(sa.select(SA[model]) if base is None else base, flt)
            return sorted(o.id for o in s.execute(q).scalars().all())
    except Exception as e:  # noqa
        return "%s: %s" % (type(e).__name__, str(e).splitlines()[0][:90])


reproduced = 0


def finding(n, inp, observed, expected, bad):
    global reproduced
    if bad:
        reproduced += 1
        print("FINDING %s: %s -> %s (expected %s)" % (n, inp, observed, expected))
    else:
        print("not reproduced %s: %s -> %s" % (n, inp, observed))


# ---- 1a: the inner lambda body mentions the OUTER lambda variable
# person 1 owns blog b1 which has post p1 with n = 1  -> expected [1]
f = "blogs/any(b: b/posts/any(p: p/n eq 1 and b/title eq 'b1'))"
d, a = run_dj("Person", f), run_sa("Person", f)
finding("1a", "Person: " + f, "django %s, sqlalchemy %s" % (d, a), "[1] on both", d != [1] or a != [1])

# ---- 1b: same, the comparison is between the inner and the outer variable; `title` exists on both models
# no blog has a post with the blog's own title -> expected []
f = "blogs/any(b: b/posts/any(p: p/title eq b/title))"
d, a = run_dj("Person", f), run_sa("Person", f)
finding("1b", "Person: " + f, "django %s, sqlalchemy %s" % (d, a), "[] on both", d != [] or a != [])

# ---- 1c: alpha-renaming the lambda variables changes the result (Django; the path is stripped twice)
# reports r of P that have a report s whose manager (= r) is called 'a': persons 2,3 are 'b','c' -> []
f1 = "reports/any(r: r/reports/any(s: s/manager/name eq 'a'))"
f2 = "reports/any(manager: manager/reports/any(manager: manager/manager/name eq 'a'))"
d1, d2 = run_dj("Person", f1), run_dj("Person", f2)
finding("1c", "Person: %s  vs renamed  %s" % (f1, f2), "django %s vs %s" % (d1, d2), "the same result, []", d1 != d2)

# ---- 1d: a root field in a lambda body is resolved on the child model when it has a column of that name
# post 4 is titled like blog 3 ('p9') but belongs to no blog; no blog has a post with the blog's own title -> expected []
f = "posts/any(p: p/title eq title)"
d, a = run_dj("Blog", f), run_sa("Blog", f)
finding("1d", "Blog: " + f, "django %s, sqlalchemy %s" % (d, a), "[] on both", d != [] or a != [])

# ---- 2: SQLAlchemy shorthand on an aliased root entity: relationship compared through the raw table's FK column
A = aliased(SPost, name="p")
for k, (f, exp) in enumerate([("blog eq null", [4]), ("blog eq 1", [1, 2]), ("blog in (2, 3)", [3])]):
    a = run_sa("Post", f, base=sa.select(A))
    plain = run_sa("Post", f)
    finding("2%s" % "abc"[k], "select(aliased(Post)): " + f, "sqlalchemy %s (un-aliased select gives %s)" % (a, plain), exp, a != exp)

# ---- note: variant of the KNOWN missing-aliases defect (not counted): self-referential to-one path
f = "manager/name eq 'a'"
print("NOTE (variant of known 'joins without aliases'): Person: %s -> django %s, sqlalchemy %s (expected [2])"
      % (f, run_dj("Person", f), run_sa("Person", f)))

sys.exit(1 if reproduced else 0)
