"""
Reproduces the findings of OUT/findings.md through the public API.

    cd /tmp/si_C01 && PYTHONPATH=/tmp/si_C01 /venv/bin/python OUT/demo.py

Prints one line per finding; exit code 1 if at least one finding reproduces.
"""
import sqlite3
import sys

sys.path.insert(0, "/tmp/si_C01")

from odata_query.grammar import ODataLexer, ODataParser  # noqa: E402
from odata_query.sql import AstToSqliteSqlVisitor  # noqa: E402

lexer = ODataLexer()
parser = ODataParser()


def where(filter_text, alias=None):
    return AstToSqliteSqlVisitor(alias).visit(parser.parse(lexer.tokenize(filter_text)))


def select(filter_text, cols, rows, alias=None):
    """Returns (where clause, list of selected row tuples | 'ERROR ...')."""
    conn = sqlite3.connect(":memory:")
    conn.execute("CREATE TABLE t (%s)" % ", ".join(cols))
    conn.executemany("INSERT INTO t VALUES (%s)" % ", ".join("?" * len(cols)), rows)
    clause = where(filter_text, alias)
    frm = "t" if alias is None else 't AS "%s"' % alias.replace('"', '""')
    try:
        got = conn.execute("SELECT * FROM %s WHERE %s" % (frm, clause)).fetchall()
    except Exception as exc:  # noqa
        got = "ERROR %s: %s" % (type(exc).__name__, exc)
    return clause, got


reproduced = 0


def short(v):
    text = repr(v)
    return text if len(text) < 200 else text[:40] + "...<%d chars>..." % len(text) + text[-20:]


def check(n, filter_text, cols, rows, expected, alias=None, show=None):
    """`expected`: the list of row tuples OData semantics select."""
    global reproduced
    try:
        clause, got = select(filter_text, cols, rows, alias)
    except Exception as exc:  # the library refused: not a finding
        print("finding %s: %r refused by the library (%s) - not reproduced" % (n, filter_text, exc))
        return
    shown = show or filter_text
    clause = clause.replace("\x00", "<NUL>")
    if alias is not None:
        shown += "  [table_alias=%r]" % alias
    if got != expected:
        reproduced += 1
        print(
            "FINDING %s: %s -> WHERE %s selects %s (expected %s)"
            % (n, shown, clause if len(clause) < 160 else clause[:60] + "...", short(got), short(expected))
        )
    else:
        print("finding %s: %s not reproduced" % (n, shown))


ONE = (["x INTEGER"], [(1,)])

# ---------------------------------------------------------------------------
# 1. DateTime literal is rendered DATETIME('<text>'): fraction dropped, form changed
# ---------------------------------------------------------------------------
check("1a", "2020-01-01T12:30:00.5Z gt 2020-01-01T12:30:00.25Z", *ONE, expected=[(1,)])
check("1b", "2020-01-01T12:30:00.5Z eq 2020-01-01T12:30:00Z", *ONE, expected=[])
check(
    "1c",
    "d lt 2020-01-01T00:00:00.5Z",
    ["d TEXT"],
    [("2020-01-01 00:00:00.250000",), ("2020-01-01 00:00:00.750000",)],
    expected=[("2020-01-01 00:00:00.250000",)],
)
# the storage form of the repository's own fixture (tests/integration/sql/test_querying.py)
FIX = (["published_at TEXT"], [("2020-01-01T00:00:00",), ("2019-01-01T00:00:00",)])
check("1d", "published_at eq 2020-01-01T00:00:00", *FIX, expected=[("2020-01-01T00:00:00",)])
check("1e", "published_at gt 2020-01-01T00:00:00", *FIX, expected=[])
check("1f", "published_at le 2020-01-01T00:00:00", *FIX, expected=[("2020-01-01T00:00:00",), ("2019-01-01T00:00:00",)])
check("1g", "9999-12-31T23:59:59-01:00 gt 2020-01-01T00:00:00Z", *ONE, expected=[(1,)])

# ---------------------------------------------------------------------------
# 2. year/month/day/hour/minute/date are evaluated in UTC, not in the value's offset
# ---------------------------------------------------------------------------
check("2a", "day(2020-01-01T23:30:00-05:00) eq 1", *ONE, expected=[(1,)])
check("2b", "hour(2020-01-01T12:00:00+02:00) eq 12", *ONE, expected=[(1,)])
check("2c", "minute(2020-01-01T12:00:00+05:30) eq 0", *ONE, expected=[(1,)])
check("2d", "year(2020-12-31T23:00:00-02:00) eq 2020", *ONE, expected=[(1,)])
check("2e", "month(2020-12-31T23:00:00-02:00) eq 12", *ONE, expected=[(1,)])
check("2f", "date(2020-01-01T23:30:00-05:00) eq 2020-01-01", *ONE, expected=[(1,)])
check(
    "2g",
    "day(d) eq 1",
    ["d TEXT"],
    [("2020-01-01T23:30:00-05:00",)],
    expected=[("2020-01-01T23:30:00-05:00",)],
)

# ---------------------------------------------------------------------------
# 3. Duration literals are rendered as SQL-99 INTERVAL, which SQLite cannot parse
# ---------------------------------------------------------------------------
check("3a", "duration'P1D' eq duration'P1D'", *ONE, expected=[(1,)])
check("3b", "x eq 1 and duration'P1DT2H' gt duration'P1D'", *ONE, expected=[(1,)])
check("3c", "x eq 1 or duration'PT0S' ne duration'PT0S'", *ONE, expected=[(1,)])

# ---------------------------------------------------------------------------
# 4. A NUL character inside a string literal
# ---------------------------------------------------------------------------
check(
    "4a",
    "s eq 'a\x00b'",
    ["s TEXT"],
    [("a\x00b",), ("a",)],
    expected=[("a\x00b",)],
    show="s eq 'a<NUL>b'",
)
check(
    "4b",
    "s eq 'a' or concat(s,'\x00') eq 'b'",
    ["s TEXT"],
    [("a",), ("b",)],
    expected=[("a",)],
    show="s eq 'a' or concat(s,'<NUL>') eq 'b'",
)

# ---------------------------------------------------------------------------
# 5. GUID literals are compared as text (case sensitive)
# ---------------------------------------------------------------------------
check(
    "5a",
    "0000000a-0000-0000-0000-000000000000 eq 0000000A-0000-0000-0000-000000000000",
    *ONE,
    expected=[(1,)],
)
check(
    "5b",
    "g eq 0000000A-0000-0000-0000-000000000000",
    ["g TEXT"],
    [("0000000a-0000-0000-0000-000000000000",)],
    expected=[("0000000a-0000-0000-0000-000000000000",)],
)

# ---------------------------------------------------------------------------
# 6. Long pattern literal of contains/startswith/endswith
# ---------------------------------------------------------------------------
LONG = "a" * 49999
check(
    "6a",
    "contains(s, '%s')" % LONG,
    ["s TEXT"],
    [("a",), (LONG + "b",)],
    expected=[(LONG + "b",)],
    show="contains(s, '<49 999 x a>')",
)
check(
    "6b",
    "not startswith(s, '%s')" % (LONG + "a"),
    ["s TEXT"],
    [("a",)],
    expected=[("a",)],
    show="not startswith(s, '<50 000 x a>')",
)

# ---------------------------------------------------------------------------
# 7. table_alias is spliced between double quotes without doubling the quotes in it
# ---------------------------------------------------------------------------
check("7a", "x eq 1", *ONE, expected=[(1,)], alias='my"t')

# ---------------------------------------------------------------------------
# 8. (borderline) integer literals beyond 64 bits silently become REAL
# ---------------------------------------------------------------------------
check("8a", "99999999999999999999 eq 99999999999999999998", *ONE, expected=[])
check(
    "8b",
    "x lt 9223372036854775809",
    ["x"],
    [(9.223372036854775808e18,)],
    expected=[(9.223372036854775808e18,)],
)

# ---------------------------------------------------------------------------
# Notes (believed to be covered by the KNOWN list, shown for completeness only)
# ---------------------------------------------------------------------------
for note, f in (
    ("LIKE is ASCII case-insensitive", "startswith('Abc', 'a')"),
    ("round() of a negative INTEGER (variant of the known round() finding)", "round(-3) eq -3"),
):
    clause, got = select(f, *ONE)
    print("note: %s: %s -> WHERE %s selects %s" % (note, f, clause, got))

print("%d finding line(s) reproduced" % reproduced)
sys.exit(1 if reproduced else 0)
