"""
Reproduces the findings of OUT/findings.md through the public API.
Run: cd /tmp/si_C06 && PYTHONPATH=/tmp/si_C06 /venv/bin/python OUT/demo.py
Prints one line per reproduced finding, exit code 1 if any reproduces.
"""
import math
import sys
import uuid

sys.path.insert(0, "/tmp/si_C06")

from odata_query import ast
from odata_query.grammar import ODataLexer, ODataParser

found = 0


def parse(text):
    return ODataParser().parse(ODataLexer().tokenize(text))


# --------------------------------------------------------------------------
# FINDING 1: the SQLAlchemy backends turn a GUID literal into a *string*
#            (odata_query/sqlalchemy/common.py, visit_GUID: literal(node.val))
# --------------------------------------------------------------------------
def finding_1():
    global found
    from sqlalchemy import Uuid, create_engine, select
    from sqlalchemy.orm import DeclarativeBase, Mapped, Session, mapped_column

    from odata_query.sqlalchemy import apply_odata_core, apply_odata_query

    class Base(DeclarativeBase):
        pass

    class Doc(Base):
        __tablename__ = "doc"
        id: Mapped[int] = mapped_column(primary_key=True)
        g: Mapped[uuid.UUID] = mapped_column(Uuid, nullable=True)

    engine = create_engine("sqlite://")
    Base.metadata.create_all(engine)
    guid = "deadbeef-dead-beef-dead-beefdeadbeef"
    with Session(engine) as s:
        s.add(Doc(id=1, g=uuid.UUID(guid)))
        s.commit()

        # The same comparison written by hand with the literal's Python value:
        by_hand = s.execute(select(Doc.id).where(Doc.g == uuid.UUID(guid))).all()
        assert by_hand == [(1,)]

        for flt, want in (
            (f"g eq {guid}", [(1,)]),
            (f"g in ({guid},)", [(1,)]),
            (f"g ne {guid}", []),
        ):
            orm = s.execute(apply_odata_query(select(Doc.id), flt)).all()
            core = s.execute(apply_odata_core(select(Doc.__table__.c.id), flt)).all()
            if orm != want or core != want:
                found += 1
                print(
                    f"FINDING 1: SQLAlchemy ORM/Core, Uuid column holding UUID({guid!r}): "
                    f"{flt!r} -> ORM rows {orm}, Core rows {core} "
                    f"(expected {want}: the literal is a GUID whose value is "
                    f"uuid.UUID(...), like every other literal kind is bound by its py_val; "
                    f"visit_GUID binds the source text as a str)"
                )


# --------------------------------------------------------------------------
# FINDING 2: finite decimal literals whose py_val is not their numeric value
#            (odata_query/ast.py, Float.py_val: float(self.val))
# --------------------------------------------------------------------------
def finding_2():
    global found
    for text in ("1e400", "-1.5e309", "1e-400"):
        node = parse("x lt " + text).right
        assert type(node) is ast.Float and node.val == text
        val = node.py_val
        if math.isinf(val) or val == 0:
            found += 1
            print(
                f"FINDING 2: 'x lt {text}' -> Float({text!r}).py_val == {val!r} "
                f"(expected the finite non-zero number {text}, or a refusal like the "
                f"ValueException raised for an impossible date)"
            )


finding_1()
finding_2()
sys.exit(1 if found else 0)
