"""
Reproduces the C15 findings (shorthands: conjoin with the base query, add every
join the filter needs, do not join twice) through the public API.

run:  cd /tmp/si_C15 && PYTHONPATH=/tmp/si_C15 /venv/bin/python OUT/demo.py
exit code 1 if at least one finding reproduces, 0 otherwise.
"""
import os
import sys
import tempfile
import textwrap
import warnings

sys.path.insert(0, "/tmp/si_C15")
warnings.simplefilter("ignore")

reproduced = []


def report(n, inp, observed, expected, is_violation):
    if is_violation:
        reproduced.append(n)
        print(f"FINDING {n}: {inp} -> {observed} (expected {expected})")
    else:
        print(f"finding {n} not reproduced: {inp} -> {observed}")


# --------------------------------------------------------------------------- #
# SQLAlchemy
# --------------------------------------------------------------------------- #
from sqlalchemy import Column, ForeignKey, Integer, String, create_engine, func, select
from sqlalchemy.orm import Session, declarative_base, relationship

from odata_query.sqlalchemy import apply_odata_core, apply_odata_query as sa_apply

Base = declarative_base()


class Person(Base):
    __tablename__ = "sa_person"
    id = Column(Integer, primary_key=True)
    name = Column(String)
    boss_id = Column(Integer, ForeignKey("sa_person.id"))
    boss = relationship("Person", remote_side=[id], back_populates="reports")
    reports = relationship("Person", back_populates="boss")
    comments = relationship("Comment", back_populates="author")


class Blog(Base):
    __tablename__ = "sa_blog"
    id = Column(Integer, primary_key=True)
    title = Column(String)
    posts = relationship("Post", back_populates="blog")


class Post(Base):
    __tablename__ = "sa_post"
    id = Column(Integer, primary_key=True)
    title = Column(String)
    n = Column(Integer)
    blog_id = Column(Integer, ForeignKey("sa_blog.id"))
    author_id = Column(Integer, ForeignKey("sa_person.id"))
    blog = relationship("Blog", back_populates="posts")
    author = relationship("Person")
    comments = relationship("Comment", back_populates="post")


class Comment(Base):
    __tablename__ = "sa_comment"
    id = Column(Integer, primary_key=True)
    text = Column(String)
    post_id = Column(Integer, ForeignKey("sa_post.id"))
    author_id = Column(Integer, ForeignKey("sa_person.id"))
    post = relationship("Post", back_populates="comments")
    author = relationship("Person", back_populates="comments")


# joined-table inheritance: the relationship `owner` is declared on the parent
class Owner(Base):
    __tablename__ = "sa_owner"
    id = Column(Integer, primary_key=True)
    name = Column(String)


class Item(Base):
    __tablename__ = "sa_item"
    id = Column(Integer, primary_key=True)
    kind = Column(String)
    owner_id = Column(Integer, ForeignKey("sa_owner.id"))
    owner = relationship(Owner)
    __mapper_args__ = {"polymorphic_on": kind, "polymorphic_identity": "item"}


class Book(Item):
    __tablename__ = "sa_book"
    id = Column(Integer, ForeignKey("sa_item.id"), primary_key=True)
    pages = Column(Integer)
    __mapper_args__ = {"polymorphic_identity": "book"}


engine = create_engine("sqlite://")
Base.metadata.create_all(engine)
s = Session(engine)
s.add_all(
    [
        Person(id=1, name="ann"),
        Person(id=2, name="bob", boss_id=1),
        Person(id=3, name="cy", boss_id=2),
        Blog(id=1, title="b1"),
        Blog(id=2, title="b2"),
        Post(id=1, title="p1", n=1, blog_id=1, author_id=1),
        Post(id=2, title="p2", n=2, blog_id=1, author_id=2),
        Post(id=3, title="p3", n=3, blog_id=2, author_id=None),
        Post(id=4, title="p4", n=4, blog_id=None, author_id=3),
        Post(id=5, title="p5", n=5, blog_id=2, author_id=1),
        # post 1 is commented by bob and cy, post 2 by ann, post 3 by ann, post 4 by cy, post 5 not at all
        Comment(id=1, text="c1", post_id=1, author_id=2),
        Comment(id=2, text="c2", post_id=1, author_id=3),
        Comment(id=3, text="c3", post_id=2, author_id=1),
        Comment(id=4, text="c4", post_id=4, author_id=3),
        Comment(id=5, text="c5", post_id=3, author_id=1),
        Owner(id=1, name="ann"),
        Owner(id=2, name="bob"),
        Book(id=1, pages=10, owner_id=1),
        Book(id=2, pages=20, owner_id=2),
    ]
)
s.commit()


def sa_ids(stmt):
    return sorted(row[0].id for row in s.execute(stmt).all())


def sa_try(base, flt, expected, n, label, apply=sa_apply, fetch=sa_ids):
    try:
        got = fetch(apply(base, flt))
        report(n, label, got, expected, got != expected)
    except Exception as e:  # the property promises rows, not an exception
        report(n, label, f"{type(e).__name__}: {str(e).splitlines()[0][:90]}", expected, True)


# 1a: navigation inside a lambda body: the join the body needs is dropped
sa_try(
    select(Post),
    "comments/any(c: c/author/name eq 'bob')",
    [1],
    "1a",
    "SA select(Post) + \"comments/any(c: c/author/name eq 'bob')\"",
)
sa_try(
    select(Post),
    "comments/all(c: c/author/name eq 'ann')",
    [2, 3, 5],
    "1b",
    "SA select(Post) + \"comments/all(c: c/author/name eq 'ann')\"",
)
# 1c: base query already joins the table the lambda body needs -> the body silently
#     reads the *outer* row's person (no cartesian-product warning at all)
sa_try(
    select(Post).join(Post.author),
    "comments/any(c: c/author/name eq 'bob')",
    [1],
    "1c",
    "SA select(Post).join(Post.author) + \"comments/any(c: c/author/name eq 'bob')\"",
)
# 1d: the body navigates to the root table: the outer row is read instead of the related one
sa_try(
    select(Post),
    "author/comments/any(c: c/post/title eq 'p3')",
    [1, 5],
    "1d",
    "SA select(Post) + \"author/comments/any(c: c/post/title eq 'p3')\"",
)

# 4: the 2.0-style count idiom as base query
sa_try(
    select(func.count()).select_from(Post),
    "n gt 1",
    [(4,)],
    "4a",
    'SA apply_odata_query(select(func.count()).select_from(Post), "n gt 1")',
    fetch=lambda st: [tuple(r) for r in s.execute(st).all()],
)
sa_try(
    select(func.count()).select_from(Post.__table__),
    "n gt 1",
    [(4,)],
    "4b",
    'SA apply_odata_core(select(func.count()).select_from(post_table), "n gt 1")',
    apply=apply_odata_core,
    fetch=lambda st: [tuple(r) for r in s.execute(st).all()],
)

# 5: base query joins the relationship through the class that declares it
sa_try(
    select(Book).join(Item.owner),
    "owner/name eq 'ann'",
    [1],
    "5",
    "SA select(Book).join(Item.owner) + \"owner/name eq 'ann'\"",
)

# 6: a self-referential many-to-one cannot be navigated at all
sa_try(select(Person), "boss/name eq 'ann'", [2], "6", "SA select(Person) + \"boss/name eq 'ann'\"")


# --------------------------------------------------------------------------- #
# Django (needs an importable app, written to a temporary directory)
# --------------------------------------------------------------------------- #
tmp = tempfile.mkdtemp()
os.makedirs(os.path.join(tmp, "c15demo"))
open(os.path.join(tmp, "c15demo", "__init__.py"), "w").close()
with open(os.path.join(tmp, "c15demo", "models.py"), "w") as fh:
    fh.write(
        textwrap.dedent(
            '''
            from django.db import models

            class Person(models.Model):
                name = models.CharField(max_length=50)
                boss = models.ForeignKey("self", null=True, on_delete=models.CASCADE, related_name="reports")

            class Blog(models.Model):
                title = models.CharField(max_length=50)
                # two relations without a reverse accessor (a common idiom):
                owner = models.ForeignKey(Person, null=True, on_delete=models.CASCADE, related_name="+")
                editor = models.ForeignKey(Person, null=True, on_delete=models.CASCADE, related_name="+")

            class Live(models.Manager):
                def get_queryset(self):
                    return super().get_queryset().filter(hidden=False)

            class Post(models.Model):
                title = models.CharField(max_length=50)
                n = models.IntegerField(default=0)
                hidden = models.BooleanField(default=False)
                blog = models.ForeignKey(Blog, null=True, on_delete=models.CASCADE, related_name="posts")
                objects = Live()               # default manager hides soft-deleted rows
                everything = models.Manager()

            class Comment(models.Model):
                post = models.ForeignKey(Post, on_delete=models.CASCADE, related_name="comments")
            '''
        )
    )
sys.path.insert(0, tmp)

import django
from django.conf import settings

settings.configure(
    DATABASES={"default": {"ENGINE": "django.db.backends.sqlite3", "NAME": ":memory:"}},
    INSTALLED_APPS=["c15demo"],
    DEFAULT_AUTO_FIELD="django.db.models.AutoField",
    USE_TZ=False,
)
django.setup()
from c15demo import models as dm
from django.db import connection

from odata_query.django import apply_odata_query as dj_apply

with connection.schema_editor() as se:
    for m in (dm.Person, dm.Blog, dm.Post, dm.Comment):
        se.create_model(m)
dm.Person.objects.bulk_create(
    [
        dm.Person(id=1, name="ann"),
        dm.Person(id=2, name="bob", boss_id=1),  # bob reports to ann
        dm.Person(id=3, name="cy"),
    ]
)
dm.Blog.objects.bulk_create(
    [
        dm.Blog(id=1, title="b1", owner_id=1, editor_id=3),  # owned by ann, edited by cy
        dm.Blog(id=2, title="b2", owner_id=3, editor_id=1),  # owned by cy, edited by ann
    ]
)
dm.Post.everything.bulk_create(
    [
        dm.Post(id=1, title="p1", n=1, blog_id=1),
        dm.Post(id=2, title="p2", n=3, blog_id=2, hidden=True),
    ]
)
dm.Comment.objects.bulk_create([dm.Comment(id=1, post_id=1), dm.Comment(id=2, post_id=2)])


def dj_try(base, flt, expected, n, label):
    try:
        got = sorted(o.id for o in dj_apply(base, flt))
        report(n, label, got, expected, got != expected)
    except Exception as e:
        report(n, label, f"{type(e).__name__}: {str(e).splitlines()[0][:90]}", expected, True)


# 2: lambda behind a relation whose reverse name is hidden ('+'), two such relations
dj_try(
    dm.Blog.objects.all(),
    "owner/reports/any(r: r/name eq 'bob')",
    [1],
    "2a",
    "Django Blog.objects.all() + \"owner/reports/any(r: r/name eq 'bob')\" (Blog.owner and Blog.editor both related_name='+')",
)
dj_try(
    dm.Post.everything.all(),
    "blog/owner/reports/any(r: r/name eq 'bob')",
    [1],
    "2b",
    "Django Post.everything.all() + \"blog/owner/reports/any(r: r/name eq 'bob')\"",
)

# 3: any()/all() look at the related model's *default manager*, to-one navigation at the table
c_direct = sorted(o.id for o in dj_apply(dm.Comment.objects.all(), "post/n eq 3"))
dj_try(
    dm.Comment.objects.all(),
    "post/blog/posts/any(p: p/n eq 3)",
    c_direct,
    "3a",
    f"Django Comment.objects.all() + \"post/blog/posts/any(p: p/n eq 3)\" (while \"post/n eq 3\" selects {c_direct})",
)
dj_try(
    dm.Post.everything.all(),
    "blog/posts/any(p: p/n eq 3)",
    [2],
    "3b",
    "Django Post.everything.all() + \"blog/posts/any(p: p/n eq 3)\" (base row 2 itself is such a post)",
)
dj_try(
    dm.Blog.objects.all(),
    "posts/all(p: p/n lt 3)",
    [1],
    "3c",
    'Django Blog.objects.all() + "posts/all(p: p/n lt 3)" (blog 2 holds a post with n=3)',
)

sys.exit(1 if reproduced else 0)
