"""
C14 (alias rewriting is exact substitution on field references only) - second hunt.

No violation was found.  This script re-runs a compact version of the checks
(an independent reference rewriter compared with AliasRewriter on generated
filters, the identity / non-mutation / reuse clauses and the bijection-inverse
clause) and prints a FINDING line only if one of them fails.
Exit code 1 if at least one finding reproduces, 0 otherwise.
"""
import copy
import random
import sys

sys.path.insert(0, "/tmp/si_C14")

from odata_query import ast  # noqa: E402
from odata_query.grammar import ODataLexer, ODataParser  # noqa: E402
from odata_query.rewrite import AliasRewriter  # noqa: E402

L, P = ODataLexer(), ODataParser()


def parse(s):
    return P.parse(L.tokenize(s))


def root(n):
    while isinstance(n, ast.Attribute):
        n = n.owner
    return n


def ref(node, repl, shadow=()):
    """Independent statement of the property."""
    if isinstance(node, (ast.Identifier, ast.Attribute)):
        if root(node) in shadow:
            return node
        for k, v in repl:
            if k == node:
                return v
        if isinstance(node, ast.Attribute):
            return ast.Attribute(ref(node.owner, repl, shadow), node.attr)
        return node
    if isinstance(node, ast.Call):
        return ast.Call(node.func, [ref(a, repl, shadow) for a in node.args])
    if isinstance(node, ast.NamedParam):
        return ast.NamedParam(node.name, ref(node.param, repl, shadow))
    if isinstance(node, ast.Lambda):
        return ast.Lambda(
            node.identifier, ref(node.expression, repl, shadow + (node.identifier,))
        )
    if isinstance(node, ast.CollectionLambda):
        return ast.CollectionLambda(
            ref(node.owner, repl, shadow),
            node.operator,
            None if node.lambda_ is None else ref(node.lambda_, repl, shadow),
        )
    if isinstance(node, ast.List):
        return ast.List([ref(a, repl, shadow) for a in node.val])
    if isinstance(node, (ast.BinOp, ast.BoolOp)):
        return type(node)(
            node.op, ref(node.left, repl, shadow), ref(node.right, repl, shadow)
        )
    if isinstance(node, ast.Compare):
        return ast.Compare(
            node.comparator, ref(node.left, repl, shadow), ref(node.right, repl, shadow)
        )
    if isinstance(node, ast.UnaryOp):
        return ast.UnaryOp(node.op, ref(node.operand, repl, shadow))
    return node


NAMES = (
    "a b x y date time year length now any all eq and or in add div geo.length "
    "geo.distance ns.a ns.x a.b x.y duration geography nullx true1 null.a e5 P1D "
    "name__in __class__ _ __ é ß İ ı K ſ a١ SELECT id pk "
    "concat contains substring X INF NaN T Z deadbeef a.1 \U0001d4b3"
).split()
F1 = ["length", "tolower", "year", "date", "time", "geo.length", "ns.f", "x.y", "ns.any"]
F2 = ["concat", "contains", "indexof", "geo.distance", "hassubset", "substring", "ns.g"]
LITS = ["1", "-1", "1.5", "'s'", "''", "null", "true", "2020-01-01", "12:00:00",
        "duration'P1D'", "2020-01-01T00:00:00Z", "geography'POINT(1 2)'",
        "01234567-89ab-cdef-0123-456789abcdef"]


def gen(rnd, names):
    def name():
        return rnd.choice(names)

    def path(n=3):
        return "/".join(name() for _ in range(rnd.randint(1, n)))

    def expr(d, vs=()):
        if d <= 0:
            if rnd.random() < 0.6:
                if vs and rnd.random() < 0.5:
                    v = rnd.choice(vs)
                    return v if rnd.random() < 0.4 else v + "/" + path(2)
                return path()
            return rnd.choice(LITS)
        r = rnd.random()
        if r < 0.15:
            return expr(0, vs)
        if r < 0.25:
            return f"{rnd.choice(F1)}({expr(d-1, vs)})"
        if r < 0.35:
            return f"{rnd.choice(F2)}({expr(d-1, vs)},{expr(d-1, vs)})"
        if r < 0.43:
            return f"ns.h({name()}={expr(d-1, vs)},{name()}={expr(d-1, vs)})"
        if r < 0.50:
            return f"({expr(d-1, vs)}, {expr(d-1, vs)})"
        if r < 0.53:
            return f"({expr(d-1, vs)},)"
        if r < 0.60:
            return f"({expr(d-1, vs)}) in ({expr(d-1, vs)}, {expr(d-1, vs)})"
        if r < 0.75:
            v = name()
            return f"{path()}/{rnd.choice(['any', 'all'])}({v}: {expr(d-1, vs + (v,))})"
        if r < 0.78:
            return f"{path()}/any()"
        if r < 0.82:
            return f"not ({expr(d-1, vs)})"
        if r < 0.85:
            return f"- ({expr(d-1, vs)})"
        op = rnd.choice("eq ne lt le gt ge and or add sub mul div mod".split())
        return f"({expr(d-1, vs)}) {op} ({expr(d-1, vs)})"

    def target():
        r = rnd.random()
        if r < 0.4:
            return path()
        if r < 0.6:
            return f"{rnd.choice(F1)}({path()})"
        if r < 0.8:
            return f"{rnd.choice(F2)}({path()},{rnd.choice(LITS)})"
        return f"ns.h({name()}={path()})"

    return path, expr, target


findings = []


def report(kind, inp, observed, expected):
    findings.append(kind)
    print(f"FINDING {len(findings)}: {kind}: {inp} -> {observed} (expected {expected})")


def run(seed, names, n):
    rnd = random.Random(seed)
    path, expr, target = gen(rnd, names)
    for _ in range(n):
        s = expr(rnd.randint(1, 4))
        tree = parse(s)
        before = copy.deepcopy(tree)
        maps = []
        for _ in range(3):
            keys = {path() for _ in range(rnd.randint(0, 5))}
            maps.append({k: target() for k in keys})
        # exact substitution, reuse of one instance, composition of rewriters
        got, exp = tree, tree
        for m in maps:
            rw = AliasRewriter(m)
            repl = [(parse(k), parse(v)) for k, v in m.items()]
            got1 = rw.visit(got)
            if rw.visit(got) != got1:
                report("reused instance differs", (s, m), "different trees", "same tree")
            got, exp = got1, ref(exp, repl)
            if got != exp:
                report("substitution", (s, maps), got, exp)
                break
        if tree != before:
            report("input modified", s, tree, before)
        # identity
        for m in ({}, {"zz9": "qq"}, {"zz9/b": "ns.f(x)"}):
            if AliasRewriter(m).visit(tree) != tree:
                report("identity", (s, m), "changed", "unchanged")
        # bijection with fresh names and its inverse
        keys = {}
        for _ in range(rnd.randint(0, 6)):
            k = path()
            keys[parse(k)] = k
        keys = list(keys.values())
        fresh = [
            rnd.choice([f"fresh{j}", f"fr.esh{j}", f"fresh{j}/q", f"fresh{j}/q.r/s"])
            for j in range(len(keys))
        ]
        fwd, inv = dict(zip(keys, fresh)), dict(zip(fresh, keys))
        back = AliasRewriter(inv).visit(AliasRewriter(fwd).visit(tree))
        if back != tree:
            report("bijection + inverse", (s, fwd), back, tree)
        if len(findings) > 10:
            return


run(1, NAMES, 1500)
for small in (["x", "y", "ns.x"], ["date", "x", "length"], ["a", "x", "ns.a", "x.a"]):
    run(2, small, 1000)

if not findings:
    print("no finding reproduces (no violation of C14 found)")
sys.exit(1 if findings else 0)
