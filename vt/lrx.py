"""E-LR: explorer over the real LR automaton of ODataParser.

A controlled token source feeds a prefix; when the parser asks for the token
after the prefix, the real stacks are snapshotted and end-of-input is
returned.  One real parse() therefore yields

    (configuration after the prefix, outcome of the prefix as a whole input)

BFS over prefixes, deduplicated by canonical configuration
(state stack, alpha(semantic values)).
"""
from sly.lex import Token

from odata_query import ast, exceptions
from odata_query.grammar import ODATA_FUNCTIONS, ODataParser

from . import terms as T
from .decode import decode, encode


def mk(typ, text, neutral):
    return (typ, text, neutral)


def _op(typ, word, cls):
    return mk(typ, " %s " % word, (cls,))


# One or more representatives per terminal; several for ODATA_IDENTIFIER
# because grammar actions look at namespace / function table membership.
ALPHABET = [
    mk("ODATA_IDENTIFIER", "a", T.I("a")),
    mk("ODATA_IDENTIFIER", "length", T.I("length")),
    mk("ODATA_IDENTIFIER", "substring", T.I("substring")),
    mk("ODATA_IDENTIFIER", "now", T.I("now")),
    mk("ODATA_IDENTIFIER", "ns.f", T.I("f", ("ns",))),
    mk("ODATA_IDENTIFIER", "geo.length", T.I("length", ("geo",))),
    mk("NULL", "null", T.NULL),
    mk("INTEGER", "1", T.Int(1)),
    mk("DECIMAL", "1.5", T.Flt("1.5")),
    mk("STRING", "'s'", T.Str("s")),
    mk("GEOGRAPHY", "geography'POINT(1 2)'", ("Geography", "POINT(1 2)")),
    mk("BOOLEAN", "true", T.Bool(True)),
    mk("GUID", "123e4567-e89b-12d3-a456-426614174000", ("GUID", "123e4567-e89b-12d3-a456-426614174000")),
    mk("DATE", "2020-02-29", ("Date", "2020-02-29")),
    mk("TIME", "10:30:00", ("Time", "10:30:00")),
    mk("DATETIME", "2020-02-29T10:30:00Z", ("DateTime", "2020-02-29T10:30:00Z")),
    mk("DURATION", "duration'P1D'", ("Duration", "P1D")),
    _op("ADD", "add", "Add"), _op("SUB", "sub", "Sub"), _op("MUL", "mul", "Mult"),
    _op("DIV", "div", "Div"), _op("MOD", "mod", "Mod"),
    mk("UMINUS", "-", ("USub",)),
    _op("AND", "and", "And"), _op("OR", "or", "Or"),
    mk("NOT", "not ", ("Not",)),
    _op("EQ", "eq", "Eq"), _op("NE", "ne", "NotEq"), _op("LT", "lt", "Lt"), _op("LE", "le", "LtE"),
    _op("GT", "gt", "Gt"), _op("GE", "ge", "GtE"), _op("IN", "in", "In"),
    mk("ANY", "any", ("Any",)), mk("ALL", "all", ("All",)),
    mk("WS", " ", None),
    mk("(", "(", None), mk(")", ")", None), mk(",", ",", None), mk("/", "/", None),
    mk(":", ":", None), mk("=", "=", None),
]
TERMINALS = sorted({a[0] for a in ALPHABET}) + ["$end"]

# a reduced alphabet: one representative per class of terminals that share
# every row of the action table (verified in C05 at run time, see
# equivalent_terminals())
def equivalent_terminals(parser):
    acts = parser._lrtable.lr_action
    sig = {}
    for t in TERMINALS:
        col = tuple(acts[s].get(t) for s in sorted(acts))
        sig.setdefault(col, []).append(t)
    return list(sig.values())


def make_token(entry, idx):
    typ, text, neutral = entry
    tok = Token()
    tok.type = typ
    tok.value = encode(neutral) if neutral is not None else text
    tok.lineno = 1
    tok.index = idx
    return tok


def alpha(v, symtype=None):
    """abstraction of a semantic value: exactly what grammar actions observe.

    Grammar actions inspect values only through: isinstance(p[1], Attribute /
    CollectionLambda), p[1].owner (class and .name), p[1].name, List.val,
    list.append / len(args), and - for a *raw* ODATA_IDENTIFIER token that may
    still become a call head - namespace and function-table entry.  Everything
    else is opaque payload that actions only wrap.
    """
    if v is None:
        return None
    if isinstance(v, str):
        return "str"
    if isinstance(v, list):
        return ("list", min(len(v), 4))
    if isinstance(v, tuple):
        return ("tuple",) + tuple(alpha(e) for e in v)
    if isinstance(v, ast.Identifier):
        if symtype != "ODATA_IDENTIFIER":
            return "Identifier"
        full = v.full_name()
        nsc = "none" if v.namespace == () else "geo" if v.namespace == ("geo",) else "other"
        return ("Identifier", nsc, ODATA_FUNCTIONS.get(full, "absent") if nsc != "other" else "free")
    if isinstance(v, (ast.Attribute, ast.CollectionLambda)):
        return (type(v).__name__, type(v.owner).__name__)
    if isinstance(v, ast.List):
        return ("List", min(len(v.val), 4))
    if isinstance(v, (ast.NamedParam, ast.Lambda)):
        return type(v).__name__
    if isinstance(v, ast._Node):
        return "expr"
    return ("<foreign>", type(v).__name__)


class RecordingTable:
    """proxy for parser._lrtable that records every (state, lookahead)
    consultation of the action table; installed on the *instance*."""

    def __init__(self, real, seen):
        self._real = real
        self.lr_goto = real.lr_goto
        self.defaulted_states = real.defaulted_states
        rec = {}
        for s, row in real.lr_action.items():
            rec[s] = _RecRow(s, row, seen)
        self.lr_action = rec

    def __getattr__(self, k):
        return getattr(self._real, k)


class _RecRow(dict):
    def __init__(self, s, row, seen):
        super().__init__(row)
        self._s = s
        self._seen = seen

    def get(self, k, d=None):
        self._seen.add((self._s, k))
        return dict.get(self, k, d)


class Snapshot(Exception):
    pass


def run_prefix(parser, entries):
    """Parse the token sequence `entries` with the real parser.
    Returns (config, outcome):
      config  = (statestack, alpha-values) when the parser asked for more
                input after consuming the whole prefix, else None (the parser
                raised while still inside the prefix)
      outcome = ('ok', ast) | ('exc', exception)
    """
    box = {}

    def source():
        idx = 0
        for e in entries:
            tok = make_token(e, idx)
            idx += len(e[1])
            yield tok
        box["config"] = (
            tuple(parser.statestack),
            tuple(alpha(getattr(s, "value", None), s.type) for s in parser.symstack[1:]),
        )
        # then: end of input

    try:
        res = parser.parse(source())
        out = ("ok", res)
    except BaseException as e:  # noqa: B902  (we classify everything)
        if isinstance(e, (KeyboardInterrupt, SystemExit, MemoryError)):
            raise
        out = ("exc", e)
    return box.get("config"), out


def outcome_class(out):
    kind, v = out
    if kind == "ok":
        if isinstance(v, ast._Node):
            from .decode import malformed
            bad = malformed(v)
            return "node" if not bad else "non-node:malformed AST (%s)" % bad
        return "non-node:" + type(v).__name__
    if isinstance(v, exceptions.ODataException):
        return "lib:" + type(v).__name__
    return "foreign:" + type(v).__name__


def text_of(entries):
    return "".join(e[1] for e in entries)


def ref_tokens(entries):
    return [(e[0], e[2]) for e in entries]


# --------------------------------------------------------------------------
# BFS over configurations
# --------------------------------------------------------------------------
_JUDGE = None
_ALPHA_IDX = None
_SEEN_TABLE = None
_INCLUDE_SELF = False


def _expand(chunk):
    """worker: for each prefix in chunk, extend by every alphabet entry"""
    from .runner import Acc
    acc = Acc()
    parser = ODataParser()
    seen = set()
    parser._lrtable = RecordingTable(ODataParser._lrtable, seen)
    found = []
    for prefix in chunk:
        for x in ([None] if _INCLUDE_SELF else []) + _ALPHA_IDX:
            seq = prefix + (x,) if x is not None else prefix
            entries = [ALPHABET[i] for i in seq]
            config, out = run_prefix(parser, entries)
            acc.count("executions")
            acc.count("transitions")
            oc = outcome_class(out)
            acc.outcome(oc)
            _JUDGE(entries, config, out, acc)
            if config is not None:
                found.append((seq, config))
    acc.table_seen = seen
    acc.found = found
    return acc


def bfs(ctx, judge, max_depth, alphabet_idx=None, chunk=40, max_frontier=None, deadline_frac=0.9,
        keyfn=None, start=None, label="configs", include_self=False):
    """Level-synchronous BFS. `judge(entries, config, out, acc)` is called in
    workers for every execution.  keyfn(config) -> dedup key (default: the
    full canonical configuration).  start = list of prefixes to start from."""
    global _JUDGE, _ALPHA_IDX, _INCLUDE_SELF
    _INCLUDE_SELF = include_self
    import multiprocessing as mp
    import os
    import time
    from .runner import chunked
    _JUDGE = judge
    _ALPHA_IDX = list(alphabet_idx if alphabet_idx is not None else range(len(ALPHABET)))
    keyfn = keyfn or (lambda c: c)
    seen_cfg = {}
    table_seen = set()
    frontier = list(start) if start is not None else [()]
    depth_done = 0
    complete = True
    per_level = []
    for depth in range(1, max_depth + 1):
        if not frontier:
            break
        if ctx.time_left() < ctx.budget * (1 - deadline_frac):
            complete = False
            break
        if max_frontier and len(frontier) > max_frontier:
            frontier = frontier[:max_frontier]
            complete = False
        new = []
        chunks = list(chunked(frontier, chunk))
        nproc = min(int(os.environ.get("VERIF_NPROC", "16")), max(1, len(chunks)))
        t0 = time.time()
        if nproc == 1:
            results = map(_expand, chunks)
            pool = None
        else:
            pool = mp.get_context("fork").Pool(nproc)
            results = pool.imap(_expand, chunks)
        for acc in results:
            table_seen |= acc.table_seen
            for seq, cfg in acc.found:
                k = keyfn(cfg)
                if k not in seen_cfg:
                    seen_cfg[k] = seq
                    new.append(seq)
            acc.found = None
            acc.table_seen = None
            ctx.merge(acc)
        if pool:
            pool.close()
            pool.join()
        per_level.append({"depth": depth, "frontier_in": len(frontier), "new": len(new),
                          "wall_s": round(time.time() - t0, 1)})
        frontier = new
        depth_done = depth
    ctx.count("states", len(seen_cfg))
    return {"depth_completed": depth_done, "complete_to_depth": complete,
            label: len(seen_cfg), "levels": per_level, "table_seen": table_seen, "witness": seen_cfg,
            "frontier": frontier}


# --------------------------------------------------------------------------
# automaton-guided witnesses: a viable prefix for every LR state
# --------------------------------------------------------------------------
def _shortest_derivations(grammar):
    """nonterminal -> shortest terminal string (list of terminal names)"""
    best = {}
    changed = True
    while changed:
        changed = False
        for p in grammar.Productions[1:]:
            out = []
            ok = True
            for sym in p.prod:
                if sym in grammar.Terminals:
                    out.append(sym)
                elif sym in best:
                    out.extend(best[sym])
                else:
                    ok = False
                    break
            if ok and (p.name not in best or len(out) < len(best[p.name])):
                best[p.name] = out
                changed = True
    return best


def state_witnesses(parser=None):
    """state -> tuple of ALPHABET indices forming a viable prefix that drives
    the real parser into that state (verified by the caller)."""
    from collections import deque
    parser = parser or ODataParser()
    lt, g = parser._lrtable, parser._grammar
    deriv = _shortest_derivations(g)
    rep = {}
    for i, e in enumerate(ALPHABET):
        rep.setdefault(e[0], i)
    rep["ODATA_IDENTIFIER"] = next(i for i, e in enumerate(ALPHABET) if e[1] == "ns.f")
    edges = {}
    for s, row in lt.lr_action.items():
        for k, v in row.items():
            if v is not None and v > 0:      # None: an explicit error entry (%nonassoc)
                edges.setdefault(s, []).append((k, v))
    for s, row in lt.lr_goto.items():
        for k, v in row.items():
            edges.setdefault(s, []).append((k, v))
    paths = {0: []}
    dq = deque([0])
    while dq:
        s = dq.popleft()
        for sym, t in sorted(edges.get(s, []), key=lambda kv: len(deriv.get(kv[0], [kv[0]]))):
            if t not in paths:
                paths[t] = paths[s] + [sym]
                dq.append(t)
    out = {}
    for s, syms in paths.items():
        toks = []
        for sym in syms:
            if sym in g.Terminals:
                toks.append(sym)
            else:
                toks.extend(deriv[sym])
        out[s] = tuple(rep[t] for t in toks)
    return out
