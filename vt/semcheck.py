"""Shared machinery for the semantic checks (C01/C02/C03): enumerate typed
Bool terms, run them through a backend harness, compare the selected ids with
R-EVAL, attribute mismatches to catalogued defect models."""
import datetime as dt
from itertools import combinations, product

from . import refeval, typed, terms as T
from .dbs.domain import colkey, rows_for
from .refprint import to_odata
from .runner import Acc

_EV = {}


def evaluator(mode=frozenset()):
    mode = frozenset(mode)
    if mode not in _EV:
        _EV[mode] = refeval.Evaluator(mode)
    return _EV[mode]


def init_now():
    refeval.NOW_VALUE = dt.datetime.now(refeval.UTC).replace(microsecond=0)
    lo = dt.datetime(2020, 2, 29, 23, 59, 59, tzinfo=refeval.UTC)
    hi = dt.datetime(2099, 1, 1, 12, 30, 0, tzinfo=refeval.UTC)
    assert lo < refeval.NOW_VALUE < hi, "run date outside (2020, 2099): now() comparisons would not be date-independent"


_ROWS = {}


def rows_of(cols):
    if cols not in _ROWS:
        _ROWS[cols] = rows_for(cols)
    return _ROWS[cols]


def expected_ids(term, cols, mode=frozenset()):
    rows = rows_of(cols)
    vals = evaluator(mode).eval(term, rows, cols)
    true_ids, undef_ids = set(), set()
    for r, v in zip(rows, vals):
        if v is refeval.UNDEF:
            undef_ids.add(r["id"])
        elif v is True:
            true_ids.add(r["id"])
    return true_ids, undef_ids, len(rows)


def judge(acc, prefix, term, text, cols, got_ids, defect_modes, info):
    """got_ids: set of ids or ('EXC', cls, msg). Returns True when ok."""
    true_ids, undef_ids, n = expected_ids(term, cols)
    acc.count("executions")
    acc.count("transitions")
    if isinstance(got_ids, tuple):
        acc.violation("%s:exc:%s:%s" % (prefix, got_ids[1], opsig(term)), dict(info, text=text, term=term, error=got_ids[1:], expected="runs"))
        return False
    got = set(got_ids)
    if (got - undef_ids) == (true_ids - undef_ids):
        acc.outcome((len(true_ids) > 0, len(true_ids) < n - len(undef_ids)))
        return True
    # attribute to a catalogued defect model, if one explains the observation exactly
    for r in range(1, len(defect_modes) + 1):
        for combo in combinations(defect_modes, r):
            t2, u2, _ = expected_ids(term, cols, frozenset(combo))
            if (got - u2) == (t2 - u2):
                for m in combo:   # a combination is attributed to each of its (individually catalogued) models
                    acc.violation("%s:model:%s" % (prefix, m), dict(info, text=text, term=term, model=list(combo)),
                                  finding="%s:%s" % (prefix, m))
                return False
    wrong = sorted((got ^ true_ids) - undef_ids)
    rows = {r["id"]: r for r in rows_of(cols)}
    acc.violation("%s:rows:%s" % (prefix, opsig(term)),
                  dict(info, text=text, term=term, wrong_row=_jsonrow(rows[wrong[0]], cols), selected=wrong[0] in got,
                       n_wrong=len(wrong), expected_true=len(true_ids), observed=len(got)))
    return False


def _jsonrow(r, cols):
    return {c: (r[c].isoformat() if hasattr(r[c], "isoformat") else r[c]) for c in cols}


def opsig(t):
    names = []
    for s in typed.value_subterms(t):
        if s[0] == "Call":
            names.append(s[1][1])
        elif s[0] in ("BinOp", "Compare", "BoolOp", "UnaryOp"):
            names.append(s[1][0])
    return "-".join(names[:3])


def nontrivial(term, cols):
    t, u, n = expected_ids(term, cols)
    return 0 < len(t) < n - len(u)


# ---------------------------------------------------------------- string-literal layer
SIGMA7 = ["a", "A", "%", "_", "'", "\\", " "]


def sigma_strings(maxlen, sigma=SIGMA7):
    out = []
    for n in range(maxlen + 1):
        for tup in product(sigma, repeat=n):
            out.append("".join(tup))
    # canonically equivalent but distinct code point sequences (normalisation must not be applied to values)
    return out + ["e\u0301", "\u00e9", "\u212b", "\u00c5"]


def string_position_terms(L, cap):
    """every syntactic position a string literal L may occupy"""
    s, u = T.I("s"), T.I("u")
    out = [
        T.call("contains", s, L), T.call("startswith", s, L), T.call("endswith", s, L),
        T.binop("Eq", s, L), T.binop("Eq", L, s), T.binop("NotEq", s, L), T.binop("Lt", s, L), T.binop("GtE", L, s),
        T.binop("In", s, T.lst(L, T.Str("zz"))), T.binop("In", s, T.lst(L)),
        T.binop("Eq", T.call("length", L), T.call("length", s)),
        T.binop("Eq", T.call("tolower", L), T.call("tolower", s)),
        T.binop("Eq", T.call("toupper", s), T.call("toupper", L)),
        T.binop("Eq", T.call("trim", L), s),
        T.binop("Eq", T.call("substring", L, T.Int(1)), T.call("substring", s, T.Int(1))),
        T.binop("Eq", T.call("substring", L, T.Int(0), T.Int(1)), T.call("substring", s, T.Int(0), T.Int(1))),
        T.call("contains", T.call("tolower", s), L),
        T.unop("Not", T.call("contains", s, L)),
        T.binop("And", T.call("startswith", s, L), T.call("endswith", u, L)),
        T.binop("Eq", T.call("contains", s, L), T.Bool(True)),
        T.binop("Eq", T.Bool(False), T.call("endswith", s, L)),
    ]
    if cap.get("indexof", True):
        out += [T.binop("Eq", T.call("indexof", s, L), T.Int(1)), T.binop("Ge" if False else "GtE", T.call("indexof", L, s), T.Int(0))]
    if cap.get("concat", True):
        out += [T.binop("Eq", T.call("concat", s, L), u), T.binop("Eq", T.call("concat", L, s), u),
                T.call("contains", T.call("concat", s, u), L)]
    if cap.get("literal_haystack", True):
        out += [T.call("contains", L, s), T.call("startswith", L, s), T.call("endswith", L, s)]
    return out


def reduced_sigs(sigs):
    """one representative per class of constructors that share a code path"""
    keep, seen = [], set()
    for s in sigs:
        base = s.name.split(":")[0]
        cls = None
        if base in ("add", "sub"):
            cls = ("addsub", s.args)
        elif base in ("mul", "div", "mod"):
            cls = ("muldiv", base if base == "mod" else "md", s.args)
        elif base in ("lt", "le", "gt", "ge", "eq", "ne"):
            # each comparator has its own table entry in every backend: keep all six, but only on one operand type per kind
            cls = ("cmp", base, "num" if set(s.args) <= {typed.I, typed.R} else s.args)
        elif base in ("year", "month", "day", "hour", "minute", "second"):
            cls = ("datepart",)
        elif base in ("tolower", "toupper"):
            cls = ("case",)
        elif base in ("floor", "ceiling"):
            cls = ("floorceil",)
        elif base in ("startswith", "endswith"):
            cls = ("affix",)
        elif "-null" in base or base.startswith("null-"):
            cls = ("null", base.split("-")[0] == "null", s.args)
        else:
            cls = (s.name,)
        if "mixed" in s.tags and base not in ("eq", "add"):
            continue
        if cls not in seen:
            seen.add(cls)
            keep.append(s)
    return keep


REDUCED_LEAVES = {
    typed.I: [typed.F("n"), T.Int(1)],
    typed.R: [typed.F("x"), T.Flt("-1.5")],
    typed.S: [typed.F("s"), T.Str("a")],
    typed.B: [typed.F("b")],
    typed.TT: [typed.F("d"), typed.dtlit("2020-02-29T23:59:59Z")],
    typed.NOW: [T.call("now")],
    typed.D: [("Date", "2020-02-29")],
    typed.LI: [T.lst(T.Int(0), T.Int(1))],
    typed.LS: [T.lst(T.Str("a"), T.Str("%"))],
    "RX": [T.Str("^a")],
}


# ---------------------------------------------------------------- generic driver (C02, C03)
class Backend:
    """adapter: name, cap, defect_models, variants; run(text, cols, variant) -> set(ids) | ('EXC', cls, msg);
    refusal(exc_tuple) -> True when the exception is a documented library refusal of an unsupported construct"""
    name = "?"
    cap = {}
    defect_models = []
    variants = [None]

    def run(self, text, cols, variant):
        raise NotImplementedError


_BK = {}
_EN = {}


def _enum(bk, which):
    key = (bk.name, which)
    if key not in _EN:
        sigs = typed.signatures(bk.cap)
        if which == "reduced":
            _EN[key] = typed.Enumerator(reduced_sigs(sigs), typed.leaves_for(bk.cap, REDUCED_LEAVES))
        else:
            _EN[key] = typed.Enumerator(sigs, typed.leaves_for(bk.cap))
    return _EN[key]


def kw_variants(term):
    """texts of `term` with keyword case deviations: all upper, all title, each single occurrence upper"""
    from .refprint import Printer
    base = Printer().p(term)
    counter = [0]

    def count(sv):
        counter[0] += 1
        return sv
    Printer(kwcase=count).p(term)
    n = counter[0]
    out = []
    out.append(("kw-upper", Printer(kwcase=str.upper).p(term)))
    out.append(("kw-title", Printer(kwcase=str.title).p(term)))
    for i in range(n):
        c = [0]

        def one(sv, i=i):
            c[0] += 1
            return sv.upper() if c[0] - 1 == i else sv
        out.append(("kw-%d" % i, Printer(kwcase=one).p(term)))
    return [(n_, t_) for n_, t_ in out if t_ != base]


def check_term_generic(acc, bk, term, styles=("min", "full"), kwcase=False):
    cols = colkey(typed.fields_of(term))
    acc.count("states")
    if nontrivial(term, cols):
        acc.count("nontrivial")
    texts = []
    for st in styles:
        tx = to_odata(term, st)
        if tx not in [t for _, t in texts]:
            texts.append((st, tx))
    results = {}
    for i, (st, tx) in enumerate(texts):
        for var in (bk.variants if i == 0 else bk.variants[:1]):
            got = bk.run(tx, cols, var)
            results[(st, var)] = got
            judge(acc, bk.name, term, tx, cols, got, bk.defect_models, {"variant": var, "style": st, "cols": list(cols)})
    if kwcase:
        base = results[(texts[0][0], bk.variants[0])]
        for vname, tx in kw_variants(term):
            got = bk.run(tx, cols, bk.variants[0])
            acc.count("executions")
            acc.count("kwcase_variants")
            if got != base:
                acc.violation("%s:kwcase:%s" % (bk.name, opsig(term)), {"text": tx, "term": term, "variant": vname, "base_text": texts[0][1],
                                                                       "expected": _short(base), "observed": _short(got)})
    # the entry styles must agree with each other
    vals = [results[(texts[0][0], v)] for v in bk.variants]
    if any(v != vals[0] for v in vals[1:]):
        acc.count("entry_styles_disagree")


def _short(x):
    if isinstance(x, tuple):
        return list(x)
    return sorted(x)[:20]


def _generic_unit(unit):
    bname, which, k, si, split, kwcase = unit[:6]
    stripe = unit[6] if len(unit) > 6 else None
    bk = _BK[bname]
    acc = Acc()
    en = _enum(bk, which)
    for i, term in enumerate(en.apply(en.sigs[si], k, only_split=split)):
        if stripe and i % stripe[1] != stripe[0]:
            continue
        check_term_generic(acc, bk, term, kwcase=kwcase)
        if i == 0:
            acc.sample({"filter": to_odata(term), "layer": "%s k=%d" % (which, k)}, cap=1)
    return acc


def _generic_string_unit(unit):
    bname, strings = unit
    bk = _BK[bname]
    acc = Acc()
    for sv in strings:
        for term in string_position_terms(T.Str(sv), bk.cap):
            check_term_generic(acc, bk, term, styles=("min",))
    return acc


def generic_layer(ctx, bk, which, k, kwcase=False, block=None):
    _BK[bk.name] = bk
    en = _enum(bk, which)
    for j in range(k):
        for ty in (typed.I, typed.R, typed.S, typed.B, typed.TT, typed.D, typed.BV, typed.TM, "BF"):
            en.terms(ty, j)
    if k == 0:
        n = 0
        for t in en.terms(typed.B, 0):
            check_term_generic(ctx, bk, t, kwcase=kwcase)
            n += 1
        return n
    units = [(bk.name, which, k, si, split, kwcase) for si, split in en.work_units(typed.B, k)]
    if block:
        units = [u for i, u in enumerate(units) if i % block[1] == block[0]]
    units = [u + ((j, 4),) for u in units for j in range(4)]      # stripes: even out the few very large units
    before = ctx.counts["states"]
    ctx.pmap(_generic_unit, units)
    return int(ctx.counts["states"] - before)


def reverse_pass(ctx, bk):
    """history layer, run serially in ONE process so that it is deterministic: the whole k<=1 layer in enumeration
    order and then once more in REVERSE order.  State kept between translations (caches keyed by literal value,
    registries, annotation names) therefore sees every pair of filters in both orders."""
    _BK[bk.name] = bk
    en = _enum(bk, "full")
    terms = list(en.terms(typed.B, 0)) + list(en.terms(typed.B, 1))
    # filters that differ only in the letter case / spelling of a string literal, adjacent (text-keyed caches)
    for sv in ("a", "A", "ab", "AB", "Ab", "a ", " a"):
        terms += string_position_terms(T.Str(sv), bk.cap)[:12]
    for term in terms:
        check_term_generic(ctx, bk, term, styles=("min",))
    for term in reversed(terms):
        check_term_generic(ctx, bk, term, styles=("min",))
    return 2 * len(terms)


def generic_strings(ctx, bk, maxlen):
    _BK[bk.name] = bk
    strs = sigma_strings(maxlen)
    ctx.pmap(_generic_string_unit, [(bk.name, strs[i::32]) for i in range(32)])
    return len(strs)


# ---------------------------------------------------------------- pumped towers (deep nesting, long lists)
def _to_bool(t, ty):
    if ty == typed.B:
        return t
    if ty == typed.I:
        return T.binop("Gt", t, T.Int(0))
    if ty == typed.R:
        return T.binop("LtE", t, T.Flt("0.5"))
    if ty == typed.S:
        return T.binop("NotEq", t, T.Str("a"))
    return None


def deep_terms(cap, depths=(4, 6, 8)):
    """pumped cycles of the typed grammar: every self-composable constructor (one whose result type is also one of its argument
    types) stacked `depth` times, every ordered PAIR of such constructors alternated, on the left spine and on the right spine;
    plus `in` lists with 6 and 10 elements and 6-fold and/or chains.  Bool-typed results are used as filters directly, others
    through a comparison."""
    sigs = [s_ for s_ in typed.signatures(cap) if s_.ret in s_.args and s_.ret in (typed.I, typed.R, typed.S, typed.B)]
    leaves = typed.leaves_for(cap)
    default = {typed.I: typed.F("n"), typed.R: typed.F("x"), typed.S: typed.F("s"), typed.B: T.binop("Gt", typed.F("n"), T.Int(0)),
               typed.LI: leaves[typed.LI][0], typed.LS: leaves[typed.LS][0], typed.TT: typed.F("d"), "RX": T.Str("^a"), typed.BV: typed.F("b"),
               typed.NOW: T.call("now"), typed.D: ("Date", "2020-02-29"), typed.TM: ("Time", "23:59:59"), "BLIT": T.Bool(True), "BF": T.call("contains", typed.F("s"), T.Str("a"))}
    other = {typed.I: T.Int(1), typed.R: T.Flt("0.5"), typed.S: T.Str("a"), typed.B: T.binop("Eq", typed.F("m"), T.Int(1))}

    def apply(sig, inner, spine):
        idxs = [i for i, a in enumerate(sig.args) if a == sig.ret]
        pos = idxs[0] if spine == "left" else idxs[-1]
        args = []
        for i, a in enumerate(sig.args):
            if i == pos:
                args.append(inner)
            elif a == sig.ret:
                args.append(other[a])
            elif a in default:
                args.append(default[a])
            else:
                return None
        return sig.build(*args)

    out = []
    by_ty = {}
    for s_ in sigs:
        by_ty.setdefault(s_.ret, []).append(s_)
    for ty, group in by_ty.items():
        pairs = [(a, a) for a in group] + [(a, b) for a in group for b in group if a is not b]
        for a, b in pairs:
            for depth in depths:
                for spine in ("left", "right"):
                    t = default[ty]
                    ok = True
                    for lvl in range(depth):
                        t = apply(a if lvl % 2 == 0 else b, t, spine)
                        if t is None:
                            ok = False
                            break
                    if ok:
                        bt = _to_bool(t, ty)
                        if bt is not None:
                            out.append(bt)
    n, s_f = typed.F("n"), typed.F("s")
    out.append(T.binop("In", n, T.lst(*[T.Int(v) for v in (5, 7, 9, 11, 3, 13)])))
    out.append(T.binop("In", n, T.lst(*[T.Int(v) for v in (5, 7, 9, 11, 13, 15, 17, 19, 21, 1)])))
    out.append(T.binop("In", s_f, T.lst(*[T.Str(v) for v in ("q", "w", "e", "r", "t", "ab", "y")])))
    # very long in-lists with a domain value at the head / in the middle / at the very end (chunking, bind budgets)
    for size in (500, 501, 1000, 1001, 1500, 2501):
        filler = [T.Int(v) for v in range(100, 100 + size - 1)]
        out.append(T.binop("In", n, T.lst(*(filler + [T.Int(3)]))))
        out.append(T.binop("In", n, T.lst(*([T.Int(1)] + filler))))
        out.append(T.unop("Not", T.binop("In", n, T.lst(*(filler[:size // 2] + [T.Int(-2)] + filler[size // 2:size - 1])))))
    out.append(T.binop("In", s_f, T.lst(*([T.Str("w%d" % i) for i in range(1000)] + [T.Str("ab")]))))
    # bushy trees: op3( outer( inner(a, b), inner(c, d) ) ) - both operands of `outer` are compound (4+ operators)
    m_, x_ = typed.F("m"), typed.F("x")
    arith = [s_ for s_ in sigs if s_.ret == typed.I and len(s_.args) == 2 and s_.args == (typed.I, typed.I)]
    for inner in arith:
        for outer in arith:
            core = outer.build(inner.build(n, T.Int(1)), inner.build(m_, T.Int(3)))
            for op3 in arith:
                out.append(T.binop("Eq", op3.build(T.Int(3), core), n))
                out.append(T.binop("Lt", op3.build(core, T.Int(-2)), m_))
    p1, p2, p3, p4 = T.binop("Eq", n, T.Int(1)), T.binop("Gt", m_, T.Int(0)), T.binop("Lt", n, T.Int(3)), T.binop("NotEq", m_, T.Int(1))
    for inner in ("And", "Or"):
        for outer in ("And", "Or"):
            core = T.binop(outer, T.binop(inner, p1, p2), T.binop(inner, p3, p4))
            out += [T.unop("Not", core), T.binop("And", T.binop("Eq", n, m_), core), T.binop("Or", core, T.binop("Eq", n, m_)),
                    T.binop("And", core, T.unop("Not", core)), T.unop("Not", T.binop("Or", T.unop("Not", core), p1))]
    chain = T.binop("Eq", n, T.Int(0))
    for v in (1, 3, -2, 5, 7, 9):
        chain = T.binop("Or", chain, T.binop("Eq", n, T.Int(v)))
    out.append(chain)
    chain = T.binop("NotEq", n, T.Int(0))
    for v in (1, 3, -2, 5, 7, 9):
        chain = T.binop("And", T.binop("NotEq", typed.F("m"), T.Int(v)), chain)
    out.append(chain)
    seen, uniq = set(), []
    for t in out:
        if t not in seen:
            seen.add(t)
            uniq.append(t)
    return uniq


def _deep_unit(unit):
    bname, terms = unit
    bk = _BK[bname]
    acc = Acc()
    for t in terms:
        check_term_generic(acc, bk, t, styles=("min", "full"))
    if terms:
        acc.sample({"filter": to_odata(terms[0]), "layer": "pumped towers"}, cap=1)
    return acc


def deep_layer(ctx, bk, depths=(4, 6, 8)):
    _BK[bk.name] = bk
    terms = deep_terms(bk.cap, depths)
    ctx.pmap(_deep_unit, [(bk.name, terms[i::48]) for i in range(48) if terms[i::48]])
    return len(terms)


# ---------------------------------------------------------------- boolean operands (comparisons of comparisons, bare boolean fields)
def boolean_operand_terms(cap):
    """eq / ne between two boolean-valued lookups (comparisons, boolean functions, null tests, in-tests, the boolean field, boolean
    literals) - every ordered pair - alone, negated and next to another clause; plus the bare boolean field as a predicate.
    and/or/not as an OPERAND of a comparison is left out: the ORM backends document that they refuse it."""
    n, m, s, b = typed.F("n"), typed.F("m"), typed.F("s"), typed.F("b")
    look = [
        T.binop("Gt", n, T.Int(0)), T.binop("Eq", T.binop("Add", n, T.Int(1)), T.Int(2)), T.binop("Eq", s, T.Str("a")),
        T.call("contains", s, T.Str("a")), T.binop("Eq", n, T.NULL), T.binop("NotEq", s, T.NULL), T.binop("In", n, T.lst(T.Int(0), T.Int(1))),
        T.binop("Eq", T.binop("Sub", T.call("length", s), T.Int(1)), T.Int(0)), T.binop("LtE", n, m), b, T.Bool(True), T.Bool(False),
    ]
    if cap.get("concat", True):
        look.append(T.binop("Eq", T.call("concat", s, T.Str("x")), T.Str("ax")))
    if cap.get("indexof", True):
        look.append(T.binop("Eq", T.call("indexof", s, T.Str("a")), T.Int(0)))
    out = []
    for op in ("Eq", "NotEq"):
        for l1 in look:
            for l2 in look:
                if l1[0] == "Boolean" and l2[0] == "Boolean":
                    continue
                t = T.binop(op, l1, l2)
                out += [t, T.unop("Not", t), T.binop("Or", t, T.binop("Eq", m, T.Int(3)))]
    if cap.get("bare_bool_predicate", True):
        out += [b, T.unop("Not", b), T.binop("And", b, T.binop("Eq", n, T.Int(1))), T.binop("Or", T.unop("Not", b), T.binop("Eq", s, T.Str("a"))),
                T.unop("Not", T.binop("And", b, T.unop("Not", b))), T.binop("And", T.unop("Not", b), T.binop("NotEq", n, T.NULL))]
    if not cap.get("bare_bool_in_logic", True):
        # Django documents that a bare field is not an operand of and/or (TypeException); under `not` and alone it is a predicate
        out = [t for t in out if not any(st[0] == "BoolOp" and (st[2] == b or st[3] == b) for st in T.subterms(t))]
    seen, uniq = set(), []
    for t in out:
        if t not in seen and len(colkey(typed.fields_of(t))) <= 3:
            seen.add(t)
            uniq.append(t)
    return uniq


def boolean_operand_layer(ctx, bk):
    _BK[bk.name] = bk
    terms = boolean_operand_terms(bk.cap)
    ctx.pmap(_deep_unit, [(bk.name, terms[i::48]) for i in range(48) if terms[i::48]])
    return len(terms)


# ---------------------------------------------------------------- `add` between strings (concatenation; pinned by the library's tests)
def string_add_terms():
    s_, u_ = typed.F("s"), typed.F("u")
    E = [s_, u_, T.Str("x"), T.Str("ab"), T.Str("")]
    out = []
    for e1 in E:
        for e2 in E:
            cat = T.binop("Add", e1, e2)
            out += [T.binop("Eq", cat, s_), T.binop("Eq", T.Str("xab"), cat), T.binop("NotEq", cat, u_), T.call("startswith", cat, T.Str("x")),
                    T.binop("Eq", T.call("length", cat), T.Int(2))]
            for e3 in E[:3]:
                out += [T.binop("Eq", T.binop("Add", cat, e3), s_), T.binop("Eq", T.binop("Add", e3, cat), s_)]
    seen, uniq = set(), []
    for t in out:
        if t not in seen and typed.fields_of(t):
            seen.add(t)
            uniq.append(t)
    return uniq


def string_add_layer(ctx, bk):
    """accepted-or-refused: a backend may refuse string `add` with a library exception; rows it returns must be the concatenation's"""
    _BK[bk.name] = bk
    terms = string_add_terms()
    ctx.pmap(_refusable_unit, [(bk.name, terms[i::16]) for i in range(16) if terms[i::16]])
    return len(terms)


# ---------------------------------------------------------------- refusable terms: and/or/not as an operand of eq / ne / a null test
LIB_REFUSALS = ("TypeException", "ArgumentTypeException", "UnsupportedFunctionException", "ValueException")


def refusable_terms(cap):
    """A backend may refuse these with a library exception (the ORM backends document that and/or/not is not a comparison operand);
    if it answers, the rows must be right."""
    n, s, b, c = typed.F("n"), typed.F("s"), typed.F("b"), typed.F("b")
    logic = [T.unop("Not", T.binop("Eq", b, T.Bool(True))), T.unop("Not", T.binop("Gt", n, T.Int(0))), T.binop("And", T.binop("Gt", n, T.Int(0)), T.binop("Eq", s, T.Str("a"))),
             T.binop("Or", T.binop("Eq", n, T.NULL), T.binop("Eq", b, T.Bool(False))), T.unop("Not", T.call("contains", s, T.Str("a")))]
    out = []
    for l in logic:
        out += [T.binop("Eq", l, T.NULL), T.binop("NotEq", l, T.NULL), T.binop("Eq", T.NULL, l), T.binop("Eq", l, T.Bool(True)), T.binop("NotEq", l, T.Bool(False)),
                T.binop("Eq", l, T.binop("Gt", n, T.Int(0))), T.binop("Eq", T.binop("Eq", s, T.Str("a")), l), T.unop("Not", T.binop("Eq", l, T.NULL))]
    return out


def _refusable_unit(unit):
    bname, terms = unit
    bk = _BK[bname]
    acc = Acc()
    for term in terms:
        cols = colkey(typed.fields_of(term))
        acc.count("states")
        for st in ("min", "full"):
            tx = to_odata(term, st)
            for var in bk.variants[:1]:
                got = bk.run(tx, cols, var)
                if isinstance(got, tuple) and got[1] in LIB_REFUSALS:
                    acc.count("executions")
                    acc.outcome(("refused", got[1]))
                    continue
                judge(acc, bk.name, term, tx, cols, got, bk.defect_models, {"variant": var, "style": st, "cols": list(cols), "layer": "refusable"})
    return acc


def refusable_layer(ctx, bk):
    _BK[bk.name] = bk
    terms = refusable_terms(bk.cap)
    ctx.pmap(_refusable_unit, [(bk.name, terms[i::16]) for i in range(16) if terms[i::16]])
    return len(terms)
