"""Shared machinery for the semantic checks (C01/C02/C03): enumerate typed
Bool terms, run them through a backend harness, compare the selected ids with
R-EVAL, attribute mismatches to catalogued defect models."""
import datetime as dt
from itertools import combinations, product

from . import refeval, typed, terms as T
from .dbs.domain import colkey, rows_for
from .refprint import to_odata
from .runner import Acc

_EV = {}


def evaluator(mode=frozenset()):
    mode = frozenset(mode)
    if mode not in _EV:
        _EV[mode] = refeval.Evaluator(mode)
    return _EV[mode]


def init_now():
    refeval.NOW_VALUE = dt.datetime.now(refeval.UTC).replace(microsecond=0)
    lo = dt.datetime(2020, 2, 29, 23, 59, 59, tzinfo=refeval.UTC)
    hi = dt.datetime(2099, 1, 1, 12, 30, 0, tzinfo=refeval.UTC)
    assert lo < refeval.NOW_VALUE < hi, "run date outside (2020, 2099): now() comparisons would not be date-independent"


_ROWS = {}


def rows_of(cols):
    if cols not in _ROWS:
        _ROWS[cols] = rows_for(cols)
    return _ROWS[cols]


def expected_ids(term, cols, mode=frozenset()):
    rows = rows_of(cols)
    vals = evaluator(mode).eval(term, rows, cols)
    true_ids, undef_ids = set(), set()
    for r, v in zip(rows, vals):
        if v is refeval.UNDEF:
            undef_ids.add(r["id"])
        elif v is True:
            true_ids.add(r["id"])
    return true_ids, undef_ids, len(rows)


def judge(acc, prefix, term, text, cols, got_ids, defect_modes, info):
    """got_ids: set of ids or ('EXC', cls, msg). Returns True when ok."""
    true_ids, undef_ids, n = expected_ids(term, cols)
    acc.count("executions")
    acc.count("transitions")
    if isinstance(got_ids, tuple):
        acc.violation("%s:exc:%s:%s" % (prefix, got_ids[1], opsig(term)), dict(info, text=text, term=term, error=got_ids[1:], expected="runs"))
        return False
    got = set(got_ids)
    if (got - undef_ids) == (true_ids - undef_ids):
        acc.outcome((len(true_ids) > 0, len(true_ids) < n - len(undef_ids)))
        return True
    # attribute to a catalogued defect model, if one explains the observation exactly
    for r in range(1, len(defect_modes) + 1):
        for combo in combinations(defect_modes, r):
            t2, u2, _ = expected_ids(term, cols, frozenset(combo))
            if (got - u2) == (t2 - u2):
                for m in combo:   # a combination is attributed to each of its (individually catalogued) models
                    acc.violation("%s:model:%s" % (prefix, m), dict(info, text=text, term=term, model=list(combo)),
                                  finding="%s:%s" % (prefix, m))
                return False
    wrong = sorted((got ^ true_ids) - undef_ids)
    rows = {r["id"]: r for r in rows_of(cols)}
    acc.violation("%s:rows:%s" % (prefix, opsig(term)),
                  dict(info, text=text, term=term, wrong_row=_jsonrow(rows[wrong[0]], cols), selected=wrong[0] in got,
                       n_wrong=len(wrong), expected_true=len(true_ids), observed=len(got)))
    return False


def _jsonrow(r, cols):
    return {c: (r[c].isoformat() if hasattr(r[c], "isoformat") else r[c]) for c in cols}


def opsig(t):
    names = []
    for s in typed.value_subterms(t):
        if s[0] == "Call":
            names.append(s[1][1])
        elif s[0] in ("BinOp", "Compare", "BoolOp", "UnaryOp"):
            names.append(s[1][0])
    return "-".join(names[:3])


def nontrivial(term, cols):
    t, u, n = expected_ids(term, cols)
    return 0 < len(t) < n - len(u)


# ---------------------------------------------------------------- string-literal layer
SIGMA7 = ["a", "A", "%", "_", "'", "\\", " "]


def sigma_strings(maxlen, sigma=SIGMA7):
    out = []
    for n in range(maxlen + 1):
        for tup in product(sigma, repeat=n):
            out.append("".join(tup))
    return out


def string_position_terms(L, cap):
    """every syntactic position a string literal L may occupy"""
    s, u = T.I("s"), T.I("u")
    out = [
        T.call("contains", s, L), T.call("startswith", s, L), T.call("endswith", s, L),
        T.binop("Eq", s, L), T.binop("Eq", L, s), T.binop("NotEq", s, L), T.binop("Lt", s, L), T.binop("GtE", L, s),
        T.binop("In", s, T.lst(L, T.Str("zz"))), T.binop("In", s, T.lst(L)),
        T.binop("Eq", T.call("length", L), T.call("length", s)),
        T.binop("Eq", T.call("tolower", L), T.call("tolower", s)),
        T.binop("Eq", T.call("toupper", s), T.call("toupper", L)),
        T.binop("Eq", T.call("trim", L), s),
        T.binop("Eq", T.call("substring", L, T.Int(1)), T.call("substring", s, T.Int(1))),
        T.binop("Eq", T.call("substring", L, T.Int(0), T.Int(1)), T.call("substring", s, T.Int(0), T.Int(1))),
        T.call("contains", T.call("tolower", s), L),
        T.unop("Not", T.call("contains", s, L)),
        T.binop("And", T.call("startswith", s, L), T.call("endswith", u, L)),
        T.binop("Eq", T.call("contains", s, L), T.Bool(True)),
        T.binop("Eq", T.Bool(False), T.call("endswith", s, L)),
    ]
    if cap.get("indexof", True):
        out += [T.binop("Eq", T.call("indexof", s, L), T.Int(1)), T.binop("Ge" if False else "GtE", T.call("indexof", L, s), T.Int(0))]
    if cap.get("concat", True):
        out += [T.binop("Eq", T.call("concat", s, L), u), T.binop("Eq", T.call("concat", L, s), u),
                T.call("contains", T.call("concat", s, u), L)]
    if cap.get("literal_haystack", True):
        out += [T.call("contains", L, s), T.call("startswith", L, s), T.call("endswith", L, s)]
    return out


def reduced_sigs(sigs):
    """one representative per class of constructors that share a code path"""
    keep, seen = [], set()
    for s in sigs:
        base = s.name.split(":")[0]
        cls = None
        if base in ("add", "sub"):
            cls = ("addsub", s.args)
        elif base in ("mul", "div", "mod"):
            cls = ("muldiv", base if base == "mod" else "md", s.args)
        elif base in ("lt", "le", "gt", "ge"):
            cls = ("ord", s.args)
        elif base in ("eq", "ne"):
            cls = ("eqne", s.args)
        elif base in ("year", "month", "day", "hour", "minute", "second"):
            cls = ("datepart",)
        elif base in ("tolower", "toupper"):
            cls = ("case",)
        elif base in ("floor", "ceiling"):
            cls = ("floorceil",)
        elif base in ("startswith", "endswith"):
            cls = ("affix",)
        elif "-null" in base or base.startswith("null-"):
            cls = ("null", base.split("-")[0] == "null", s.args)
        else:
            cls = (s.name,)
        if "mixed" in s.tags and base not in ("eq", "add"):
            continue
        if cls not in seen:
            seen.add(cls)
            keep.append(s)
    return keep


REDUCED_LEAVES = {
    typed.I: [typed.F("n"), T.Int(1)],
    typed.R: [typed.F("x"), T.Flt("-1.5")],
    typed.S: [typed.F("s"), T.Str("a")],
    typed.B: [typed.F("b")],
    typed.TT: [typed.F("d"), typed.dtlit("2020-02-29T23:59:59Z")],
    typed.NOW: [T.call("now")],
    typed.D: [("Date", "2020-02-29")],
    typed.LI: [T.lst(T.Int(0), T.Int(1))],
    typed.LS: [T.lst(T.Str("a"), T.Str("%"))],
    "RX": [T.Str("^a")],
}
