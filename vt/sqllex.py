"""R-SQL (lexer): an independent lexer for the SQL text the raw dialects emit.

Standard SQL lexing as shared by SQL-99, SQLite and Trino/Athena: string
literals in single quotes with '' as the only escape, quoted identifiers in
double quotes with "" as the only escape, `--` line comments and `/* */`
block comments.  No backslash escapes.  Anything that is not part of the
expression language is reported as a *stray* token.
"""
import re

WORD = re.compile(r"[A-Za-z_][A-Za-z0-9_]*")
NUM = re.compile(r"\d+(?:\.\d+)?(?:[eE][+-]?\d+)?")
OPS = ["||", "<=", ">=", "<>", "!=", "=", "<", ">", "+", "-", "*", "/", "%", "(", ")", ",", "."]


class Tok(tuple):
    """(kind, text, value)  kind in: str, qid, num, word, op, comment, stray, unterminated"""
    __slots__ = ()

    @property
    def kind(self):
        return self[0]

    @property
    def text(self):
        return self[1]

    @property
    def value(self):
        return self[2]


def lex(sql):
    toks = []
    i, n = 0, len(sql)
    while i < n:
        c = sql[i]
        if c in " \t\r\n\f\v":
            i += 1
            continue
        if sql.startswith("--", i):
            j = sql.find("\n", i)
            j = n if j < 0 else j
            toks.append(Tok(("comment", sql[i:j], None)))
            i = j
            continue
        if sql.startswith("/*", i):
            j = sql.find("*/", i + 2)
            if j < 0:
                toks.append(Tok(("unterminated", sql[i:], None)))
                break
            toks.append(Tok(("comment", sql[i:j + 2], None)))
            i = j + 2
            continue
        if c == "'" or c == '"':
            j = i + 1
            buf = []
            closed = False
            while j < n:
                if sql[j] == c:
                    if j + 1 < n and sql[j + 1] == c:
                        buf.append(c)
                        j += 2
                        continue
                    closed = True
                    break
                buf.append(sql[j])
                j += 1
            if not closed:
                toks.append(Tok(("unterminated", sql[i:], None)))
                break
            toks.append(Tok(("str" if c == "'" else "qid", sql[i:j + 1], "".join(buf))))
            i = j + 1
            continue
        m = NUM.match(sql, i)
        if m and (c.isdigit()):
            toks.append(Tok(("num", m.group(), m.group())))
            i = m.end()
            continue
        m = WORD.match(sql, i)
        if m:
            toks.append(Tok(("word", m.group(), m.group().upper())))
            i = m.end()
            continue
        for op in OPS:
            if sql.startswith(op, i):
                toks.append(Tok(("op", op, op)))
                i += len(op)
                break
        else:
            toks.append(Tok(("stray", c, c)))
            i += 1
    return toks


def skeleton(toks):
    """token sequence with literal payloads blanked (kinds + fixed texts)"""
    out = []
    for t in toks:
        if t.kind in ("str", "qid", "num"):
            out.append((t.kind,))
        else:
            out.append((t.kind, t.value if t.kind in ("word", "op") else t.text))
    return out


def bad_tokens(toks):
    return [t for t in toks if t.kind in ("stray", "comment", "unterminated")]


def athena_identifier_ref(name):
    """reference for the Athena dialect's documented identifier rule (lower case; only ASCII letters, digits and the underscore,
    every other character becomes an underscore) - written from the rule, not from the library's regular expression"""
    ok = set("abcdefghijklmnopqrstuvwxyz0123456789_")
    return "".join(c if c in ok else "_" for c in name.lower())
