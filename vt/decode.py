"""Library AST <-> neutral term, generically over dataclass fields."""
from dataclasses import fields, is_dataclass

from odata_query import ast


def decode(node):
    """library AST -> neutral term (class name + dataclass fields, generic)"""
    if node is None or isinstance(node, str):
        return node
    if isinstance(node, list):
        return ("[]",) + tuple(decode(e) for e in node)
    if isinstance(node, tuple):
        return ("()",) + tuple(decode(e) for e in node)
    if is_dataclass(node) and isinstance(node, ast._Node):
        return (type(node).__name__,) + tuple(decode(getattr(node, f.name)) for f in fields(node))
    # anything else is not a legal AST value; keep it visible
    return ("<foreign>", type(node).__name__, repr(node))


def encode(t):
    """neutral term -> library AST (direct construction, no parser)"""
    if t is None or isinstance(t, str):
        return t
    if t[0] == "[]":
        return [encode(e) for e in t[1:]]
    if t[0] == "()":
        return tuple(t[1:])
    cls = getattr(ast, t[0])
    return cls(*[encode(f) for f in t[1:]])


def deep_dump(node, _ids=None):
    """structural dump *including list identities' contents* used to detect
    mutation of an input tree (lists are the only mutable part)."""
    return decode(node)


def digest_ast(node):
    """iterative structural fingerprint (safe for arbitrarily deep trees)"""
    import hashlib
    h = hashlib.sha1()
    stack = [node]
    n = 0
    while stack:
        v = stack.pop()
        n += 1
        if v is None:
            h.update(b"N;")
        elif isinstance(v, str):
            h.update(b"s" + v.encode("utf8", "surrogatepass") + b";")
        elif isinstance(v, (list, tuple)):
            h.update(b"[" if isinstance(v, list) else b"(")
            h.update(str(len(v)).encode())
            stack.extend(reversed(v))
        elif is_dataclass(v) and isinstance(v, ast._Node):
            h.update(type(v).__name__.encode() + b":")
            stack.extend(getattr(v, f.name) for f in reversed(fields(v)))
        else:
            h.update(b"<foreign " + type(v).__name__.encode() + b">")
    return "%s/%d" % (h.hexdigest()[:16], n)


# field shapes the AST classes declare (typing annotations are not enforced by dataclasses)
_OPTIONAL_NONE = {("CollectionLambda", "lambda_")}
_TUPLE_FIELDS = {("Identifier", "namespace")}
_STR_FIELDS = {("Identifier", "name"), ("Attribute", "attr")}


def malformed(node):
    """None if `node` is a well-formed AST (every field holds what the class declares), else a short description.
    Iterative, safe for deep trees."""
    if not isinstance(node, ast._Node):
        return "root is %s" % type(node).__name__
    stack = [node]
    while stack:
        n = stack.pop()
        cname = type(n).__name__
        for f in fields(n):
            v = getattr(n, f.name)
            key = (cname, f.name)
            if isinstance(v, ast._Node):
                stack.append(v)
            elif isinstance(v, list):
                for e in v:
                    if not isinstance(e, ast._Node):
                        return "%s.%s holds a list item of type %s" % (cname, f.name, type(e).__name__)
                    stack.append(e)
                if key not in (("List", "val"), ("Call", "args")):
                    return "%s.%s is a list" % key
            elif isinstance(v, tuple):
                if key not in _TUPLE_FIELDS or not all(isinstance(e, str) for e in v):
                    return "%s.%s is a tuple %r" % (cname, f.name, v)
            elif isinstance(v, str):
                if key not in _STR_FIELDS and f.name != "val":
                    return "%s.%s is a str" % key
            elif v is None:
                if key not in _OPTIONAL_NONE:
                    return "%s.%s is None" % key
            else:
                return "%s.%s is %s" % (cname, f.name, type(v).__name__)
    return None
