"""Library AST <-> neutral term, generically over dataclass fields."""
from dataclasses import fields, is_dataclass

from odata_query import ast


def decode(node):
    """library AST -> neutral term (class name + dataclass fields, generic)"""
    if node is None or isinstance(node, str):
        return node
    if isinstance(node, list):
        return ("[]",) + tuple(decode(e) for e in node)
    if isinstance(node, tuple):
        return ("()",) + tuple(decode(e) for e in node)
    if is_dataclass(node) and isinstance(node, ast._Node):
        return (type(node).__name__,) + tuple(decode(getattr(node, f.name)) for f in fields(node))
    # anything else is not a legal AST value; keep it visible
    return ("<foreign>", type(node).__name__, repr(node))


def encode(t):
    """neutral term -> library AST (direct construction, no parser)"""
    if t is None or isinstance(t, str):
        return t
    if t[0] == "[]":
        return [encode(e) for e in t[1:]]
    if t[0] == "()":
        return tuple(t[1:])
    cls = getattr(ast, t[0])
    return cls(*[encode(f) for f in t[1:]])


def deep_dump(node, _ids=None):
    """structural dump *including list identities' contents* used to detect
    mutation of an input tree (lists are the only mutable part)."""
    return decode(node)


def digest_ast(node):
    """iterative structural fingerprint (safe for arbitrarily deep trees)"""
    import hashlib
    h = hashlib.sha1()
    stack = [node]
    n = 0
    while stack:
        v = stack.pop()
        n += 1
        if v is None:
            h.update(b"N;")
        elif isinstance(v, str):
            h.update(b"s" + v.encode("utf8", "surrogatepass") + b";")
        elif isinstance(v, (list, tuple)):
            h.update(b"[" if isinstance(v, list) else b"(")
            h.update(str(len(v)).encode())
            stack.extend(reversed(v))
        elif is_dataclass(v) and isinstance(v, ast._Node):
            h.update(type(v).__name__.encode() + b":")
            stack.extend(getattr(v, f.name) for f in reversed(fields(v)))
        else:
            h.update(b"<foreign " + type(v).__name__.encode() + b">")
    return "%s/%d" % (h.hexdigest()[:16], n)
