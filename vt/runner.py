"""CLI, tiers, seeds, worker pool, evidence + replay writers.

    ./check C05 --tier quick|thorough
    ./check C05 --replay replays/C05/<sha>.json

A check module (checks/Cnn.py) defines

    RULE          str        how cases are enumerated / what is non-trivial
    ASSUMPTIONS   [str]
    run(ctx)                 explore; call ctx.* to record
    replay(ctx, case)        re-run one recorded case, return dict(expected=…, observed=…, ok=bool)
"""
import argparse
import hashlib
import importlib
import json
import multiprocessing as mp
import os
import sys
import time
import traceback
from collections import Counter

VERIF = os.path.dirname(os.path.dirname(os.path.abspath(__file__)))
NPROC = int(os.environ.get("VERIF_NPROC", "16"))
MAX_REPLAYS = int(os.environ.get("VERIF_MAX_REPLAYS", "20"))


def jdefault(o):
    if isinstance(o, (set, frozenset)):
        return sorted(o, key=repr)
    if isinstance(o, bytes):
        return o.decode("latin1")
    return repr(o)


def digest(obj):
    return hashlib.sha1(json.dumps(obj, sort_keys=True, default=jdefault).encode()).hexdigest()[:16]


class Acc:
    """Accumulator; picklable, used inside workers and merged in the parent."""

    def __init__(self):
        self.counts = Counter()
        self.outcomes = set()
        self.violations = []      # list of dict(cls=, finding=, case=)
        self.samples = []
        self.notes = []

    # -- recording ------------------------------------------------------
    def count(self, name, n=1):
        self.counts[name] += n

    def outcome(self, o):
        if len(self.outcomes) < 200000:
            self.outcomes.add(o)

    def sample(self, s, cap=6):
        if len(self.samples) < cap:
            self.samples.append(s)

    def violation(self, cls, case, finding=None):
        """cls: short class key (dedup); case: json-able dict with everything
        needed to replay; finding: signature string when the checker's own
        classifier attributes the failure to a specific catalogued defect."""
        self.counts["violating_cases"] += 1
        key = (cls, finding)
        for v in self.violations:
            if (v["cls"], v["finding"]) == key:
                v["n"] += 1
                return
        if len(self.violations) < 400:
            self.violations.append({"cls": cls, "finding": finding, "case": case, "n": 1})

    def merge(self, other):
        self.counts.update(other.counts)
        if len(self.outcomes) < 200000:
            self.outcomes |= other.outcomes
        for v in other.violations:
            key = (v["cls"], v["finding"])
            for w in self.violations:
                if (w["cls"], w["finding"]) == key:
                    w["n"] += v["n"]
                    break
            else:
                self.violations.append(v)
        for s in other.samples:
            self.sample(s)
        self.notes.extend(other.notes)


class Ctx(Acc):
    def __init__(self, prop, tier, seed):
        super().__init__()
        self.prop = prop
        self.tier = tier
        self.quick = tier == "quick"
        self.seed = seed
        self.t0 = time.time()
        self.budget = float(os.environ.get("VERIF_BUDGET_S", "150" if self.quick else "1500"))
        self.layers = {}
        self.exhaustive = True
        self.extra = {}

    def time_left(self):
        return self.budget - (time.time() - self.t0)

    def layer(self, name, **info):
        """record a completed (or capped) layer with its bound"""
        now = time.time()
        info["wall_s"] = round(now - getattr(self, "_last_layer_t", self.t0), 1)
        self._last_layer_t = now
        self.layers[name] = info
        if info.get("exhaustive") is False:
            self.exhaustive = False

    def pmap(self, fn, chunks, nproc=None):
        """run fn(chunk) -> Acc over chunks on a fork pool; merge in input order."""
        chunks = list(chunks)
        nproc = min(nproc or NPROC, max(1, len(chunks)))
        if nproc == 1 or os.environ.get("VERIF_SERIAL"):
            for c in chunks:
                self.merge(fn(c))
            return
        with mp.get_context("fork").Pool(nproc) as pool:
            for acc in pool.imap(fn, chunks):
                self.merge(acc)


def chunked(seq, n):
    buf = []
    for x in seq:
        buf.append(x)
        if len(buf) >= n:
            yield buf
            buf = []
    if buf:
        yield buf


def load_findings(prop):
    path = os.path.join(VERIF, "known_findings.json")
    if not os.path.exists(path):
        return {}
    with open(path) as f:
        data = json.load(f)
    out = {}
    for e in data.get("findings", []):
        if e["property"] == prop:
            out[e["signature"]] = e
    return out


def write_evidence(ctx, mod, n_viol, n_known):
    cov = {
        "states": int(ctx.counts.get("states", 0)),
        "transitions": int(ctx.counts.get("transitions", 0)),
        "traces_validated_against_impl": int(ctx.counts.get("executions", 0)),
        "evaluations": int(ctx.counts.get("executions", 0)),
        "distinct_nontrivial": int(ctx.counts.get("nontrivial", 0)),
        "rule": getattr(mod, "RULE", ""),
        "samples": ctx.samples[:8] or ["<none>"],
        "exhaustive": bool(ctx.exhaustive),
        "distinct_outcomes": len(ctx.outcomes),
        "layers": ctx.layers,
        "counters": {k: v for k, v in sorted(ctx.counts.items())},
        "known_findings_observed": n_known,
    }
    cov.update(ctx.extra)
    ev = {
        "property_id": ctx.prop,
        "tier": ctx.tier,
        "seed": ctx.seed,
        "level": "model_checking",
        "coverage": cov,
        "assumptions": list(getattr(mod, "ASSUMPTIONS", [])),
        "wall_s": round(time.time() - ctx.t0, 2),
        "violations": n_viol,
    }
    os.makedirs(os.path.join(VERIF, "evidence"), exist_ok=True)
    with open(os.path.join(VERIF, "evidence", ctx.prop + ".json"), "w") as f:
        json.dump(ev, f, indent=1, default=jdefault, sort_keys=True)
        f.write("\n")


def main(argv=None):
    import signal
    try:
        signal.signal(signal.SIGPIPE, signal.SIG_DFL)    # `./check ... | head` must not print a traceback
    except (AttributeError, ValueError):
        pass
    ap = argparse.ArgumentParser()
    ap.add_argument("prop")
    ap.add_argument("--tier", default=os.environ.get("VERIF_TIER", "quick"), choices=["quick", "thorough"])
    ap.add_argument("--replay")
    args = ap.parse_args(argv)
    seed = int(os.environ.get("VERIF_SEED", "0") or 0)
    mod = importlib.import_module("checks." + args.prop)
    ctx = Ctx(args.prop, args.tier, seed)

    if args.replay:
        with open(args.replay) as f:
            rec = json.load(f)
        res = mod.replay(ctx, rec["case"])
        print(json.dumps(res, indent=1, default=jdefault))
        return 0 if res.get("ok") else 1

    crashed = False
    try:
        mod.run(ctx)
    except Exception:
        traceback.print_exc()
        crashed = True
        known_ = load_findings(args.prop)
        if not any(not (v["finding"] and v["finding"] in known_) for v in ctx.violations):
            print("CHECK-ERROR property=%s (harness failure, not a verdict)" % args.prop)
            return 2
        # a later layer of the harness failed, but earlier layers already found violations: those stand and are reported
        print("CHECK-ERROR property=%s (a later layer failed; the violations found before it are reported)" % args.prop)
        ctx.exhaustive = False

    known = load_findings(args.prop)
    n_viol = n_known = 0
    seen_known = {}
    rdir = os.path.join(VERIF, "replays", args.prop)
    for v in ctx.violations:
        if v["finding"] and v["finding"] in known:
            seen_known.setdefault(v["finding"], 0)
            seen_known[v["finding"]] += v["n"]
            continue
        n_viol += 1
        if n_viol <= MAX_REPLAYS:
            os.makedirs(rdir, exist_ok=True)
            rec = {"property": args.prop, "cls": v["cls"], "finding": v["finding"], "count": v["n"], "case": v["case"]}
            p = os.path.join(rdir, digest(rec) + ".json")
            with open(p, "w") as f:
                json.dump(rec, f, indent=1, default=jdefault)
            print("VIOLATION property=%s replay=%s" % (args.prop, p))
            print("  class=%s finding=%s cases=%d" % (v["cls"], v["finding"], v["n"]))
            print("  case=%s" % json.dumps(v["case"], default=jdefault)[:600])
    for sig, n in sorted(seen_known.items()):
        n_known += 1
        print("KNOWN-FINDING: property=%s %s [%s; %d cases]" % (args.prop, known[sig]["what"], sig, n))
    # vacuity guard: a run that executed nothing is a harness error
    if ctx.counts.get("executions", 0) == 0:
        print("CHECK-ERROR property=%s explored nothing" % args.prop)
        return 2
    write_evidence(ctx, mod, n_viol, n_known)
    print("%s tier=%s seed=%d executions=%d states=%d outcomes=%d violations=%d known=%d wall=%.1fs exhaustive=%s" % (
        args.prop, args.tier, seed, ctx.counts.get("executions", 0), ctx.counts.get("states", 0),
        len(ctx.outcomes), n_viol, n_known, time.time() - ctx.t0, ctx.exhaustive))
    for k, v in ctx.layers.items():
        print("  layer %-22s %s" % (k, json.dumps(v, default=jdefault)))
    return 1 if n_viol else 0


if __name__ == "__main__":
    sys.exit(main())
