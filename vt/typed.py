"""Typed term enumerator (E-TERM, typed half).

Types: I int, R real/decimal, S string, B boolean, T date-time (UTC instant),
D date, LI / LS literal lists.  A constructor carries a signature; the
enumerator is a memoised dynamic program  terms(type, k) = all terms of that
type with exactly k constructor nodes.  Capability tables are *pinned here*
(Appendix A of DESIGN.md) - they are not introspected from the library, so a
backend that silently drops support produces violations, not a smaller test.
"""
from itertools import product

from . import terms as T

I, R, S, B, TT, D, LI, LS, NOW, BV, TM = "I", "R", "S", "B", "T", "D", "LI", "LS", "NOW", "BV", "TM"


class Sig:
    __slots__ = ("name", "args", "ret", "build", "tags")

    def __init__(self, name, args, ret, build, tags=()):
        self.name, self.args, self.ret, self.build, self.tags = name, tuple(args), ret, build, frozenset(tags)

    def __repr__(self):
        return "%s(%s)->%s" % (self.name, ",".join(self.args), self.ret)


def _bin(op):
    return lambda a, b: T.binop(op, a, b)


def _call(name):
    return lambda *a: T.call(name, *a)


ARITH = [("add", "Add"), ("sub", "Sub"), ("mul", "Mult"), ("div", "Div"), ("mod", "Mod")]
CMPS = [("eq", "Eq"), ("ne", "NotEq"), ("lt", "Lt"), ("le", "LtE"), ("gt", "Gt"), ("ge", "GtE")]


def signatures(cap):
    """cap: dict of feature flags -> list[Sig]"""
    sg = []
    # arithmetic
    for nm, op in ARITH:
        sg.append(Sig(nm + ":II", (I, I), I, _bin(op), ["arith"]))
        if nm != "mod":
            sg.append(Sig(nm + ":RR", (R, R), R, _bin(op), ["arith", "real"]))
            sg.append(Sig(nm + ":IR", (I, R), R, _bin(op), ["arith", "real", "mixed"]))
            sg.append(Sig(nm + ":RI", (R, I), R, _bin(op), ["arith", "real", "mixed"]))
    if cap.get("neg"):
        sg.append(Sig("neg:I", (I,), I, lambda a: T.unop("USub", a), ["neg"]))
        sg.append(Sig("neg:R", (R,), R, lambda a: T.unop("USub", a), ["neg", "real"]))
    # comparisons
    for nm, op in CMPS:
        sg.append(Sig(nm + ":II", (I, I), B, _bin(op), ["cmp"]))
        sg.append(Sig(nm + ":IR", (I, R), B, _bin(op), ["cmp", "mixed"]))
        sg.append(Sig(nm + ":RI", (R, I), B, _bin(op), ["cmp", "mixed"]))
        sg.append(Sig(nm + ":RR", (R, R), B, _bin(op), ["cmp"]))
        sg.append(Sig(nm + ":SS", (S, S), B, _bin(op), ["cmp", "str"]))
        sg.append(Sig(nm + ":TT", (TT, TT), B, _bin(op), ["cmp", "dt"]))
        sg.append(Sig(nm + ":TN", (TT, NOW), B, _bin(op), ["cmp", "dt", "now"]))
        sg.append(Sig(nm + ":DD", (D, D), B, _bin(op), ["cmp", "date"]))
        if cap.get("time"):
            sg.append(Sig(nm + ":TMTM", (TM, TM), B, _bin(op), ["cmp", "time"]))
        if nm in ("eq", "ne") and cap.get("boolcmp") == "restricted":
            # only what the property statement lists: boolean functions compared to true/false, boolean fields/literals
            sg.append(Sig(nm + ":BfLit", ("BF", "BLIT"), B, _bin(op), ["cmp", "boolcmp"]))
            sg.append(Sig(nm + ":LitBf", ("BLIT", "BF"), B, _bin(op), ["cmp", "boolcmp"]))
            sg.append(Sig(nm + ":BvBv", (BV, BV), B, _bin(op), ["cmp", "boolcmp"]))
        elif nm in ("eq", "ne"):
            sg.append(Sig(nm + ":BB", (B, B), B, _bin(op), ["cmp", "boolcmp"]))
            if not cap.get("bare_bool", True):
                sg.append(Sig(nm + ":BvB", (BV, B), B, _bin(op), ["cmp", "boolcmp"]))
                sg.append(Sig(nm + ":BBv", (B, BV), B, _bin(op), ["cmp", "boolcmp"]))
                sg.append(Sig(nm + ":BvBv", (BV, BV), B, _bin(op), ["cmp", "boolcmp"]))
    for nm, op in (("eq", "Eq"), ("ne", "NotEq")):
        for ty in (I, R, S, B if cap.get("bare_bool", True) else BV, TT):
            sg.append(Sig("%s-null:%s" % (nm, ty), (ty,), B, lambda a, op=op: T.binop(op, a, T.NULL), ["nulltest"]))
            if cap.get("null_left"):
                sg.append(Sig("null-%s:%s" % (nm, ty), (ty,), B, lambda a, op=op: T.binop(op, T.NULL, a), ["nulltest", "null-left"]))
    sg.append(Sig("in:I", (I, LI), B, _bin("In"), ["in"]))
    sg.append(Sig("in:S", (S, LS), B, _bin("In"), ["in", "str"]))
    # logic
    sg.append(Sig("and", (B, B), B, _bin("And"), ["logic"]))
    sg.append(Sig("or", (B, B), B, _bin("Or"), ["logic"]))
    sg.append(Sig("not", (B,), B, lambda a: T.unop("Not", a), ["logic"]))
    # string functions
    for f in ("contains", "startswith", "endswith"):
        sg.append(Sig(f, (S, S), B, _call(f), ["strfn", "like"]))
        if cap.get("boolcmp") == "restricted":
            sg.append(Sig(f + ":BF", (S, S), "BF", _call(f), ["strfn", "like"]))
    sg.append(Sig("length", (S,), I, _call("length"), ["strfn"]))
    if cap.get("indexof", True):
        sg.append(Sig("indexof", (S, S), I, _call("indexof"), ["strfn"]))
    sg.append(Sig("substring2", (S, I), S, _call("substring"), ["strfn"]))
    sg.append(Sig("substring3", (S, I, I), S, _call("substring"), ["strfn"]))
    for f in ("tolower", "toupper", "trim"):
        sg.append(Sig(f, (S,), S, _call(f), ["strfn"]))
    if cap.get("concat", True):
        sg.append(Sig("concat", (S, S), S, _call("concat"), ["strfn"]))
    if cap.get("matchesPattern"):
        sg.append(Sig("matchesPattern", (S, "RX"), B, _call("matchesPattern"), ["strfn", "regex"]))
        if cap.get("boolcmp") == "restricted":
            sg.append(Sig("matchesPattern:BF", (S, "RX"), "BF", _call("matchesPattern"), ["strfn", "regex"]))
    # date functions
    for f in ("year", "month", "day", "hour", "minute") + (("second",) if cap.get("second") else ()):
        sg.append(Sig(f, (TT,), I, _call(f), ["datefn"]))
    if cap.get("date", True):
        sg.append(Sig("date", (TT,), D, _call("date"), ["datefn"]))
    if cap.get("time"):
        sg.append(Sig("time", (TT,), TM, _call("time"), ["datefn"]))
    # math
    for f in ("round", "floor", "ceiling"):
        if cap.get(f, True):
            sg.append(Sig(f, (R,), R, _call(f), ["mathfn"]))
    return sg


def F(name):
    return T.I(name)


def dtlit(s):
    return ("DateTime", s)


DEFAULT_LEAVES = {
    I: [F("n"), F("m"), T.Int(0), T.Int(1), T.Int(3), T.Int(-2)],
    R: [F("x"), T.Flt("0.5"), T.Flt("-1.5"), T.Flt("3.0")],     # 3.0 == 3 (an Int leaf): value-keyed caches must not conflate them
    S: [F("s"), F("u"), T.Str("a"), T.Str("%")],
    B: [F("b"), T.Bool(True), T.Bool(False)],
    TT: [F("d"), dtlit("2020-02-29T23:59:59Z")],
    NOW: [T.call("now")],
    D: [("Date", "2020-02-29")],
    LI: [T.lst(T.Int(0), T.Int(1)), T.lst(T.Int(3)), T.lst(T.Int(-2), T.Int(0), T.Int(3)),
         T.lst(T.Flt("1.5"), T.Int(3)), T.lst(T.Flt("3.0"), T.Flt("0.5"))],       # decimal members: no member may be truncated to the left side's type
    LS: [T.lst(T.Str("a"), T.Str("%")), T.lst(T.Str("a'b")), T.lst(T.Str(""), T.Str("A"))],
    "RX": [T.Str("^a"), T.Str("b$")],
    TM: [("Time", "23:59:59"), ("Time", "12:30:00")],
}


def leaves_for(cap, base=None):
    lv = dict(base or DEFAULT_LEAVES)
    lv["BLIT"] = [T.Bool(True), T.Bool(False)]
    if not cap.get("bare_bool", True):
        lv[BV] = lv[B]
        lv[B] = []
    return lv


class Enumerator:
    def __init__(self, sigs, leaves):
        self.sigs = sigs
        self.leaves = leaves
        self.memo = {}
        self.by_ret = {}
        for s in sigs:
            self.by_ret.setdefault(s.ret, []).append(s)
        self.applications = 0

    def terms(self, ty, k):
        key = (ty, k)
        if key in self.memo:
            return self.memo[key]
        if k == 0:
            out = list(self.leaves.get(ty, []))
        else:
            out = []
            for sig in self.by_ret.get(ty, []):
                out.extend(self.apply(sig, k))
        self.memo[key] = out
        return out

    def splits(self, n, parts):
        if parts == 0:
            if n == 0:
                yield ()
            return
        if parts == 1:
            yield (n,)
            return
        for i in range(n + 1):
            for rest in self.splits(n - i, parts - 1):
                yield (i,) + rest

    def apply(self, sig, k, only_split=None):
        """all terms with top constructor `sig` and exactly k constructor nodes"""
        for split in self.splits(k - 1, len(sig.args)):
            if only_split is not None and split != only_split:
                continue
            pools = [self.terms(t, n) for t, n in zip(sig.args, split)]
            if any(not p for p in pools):
                continue
            for combo in product(*pools):
                self.applications += 1
                yield sig.build(*combo)

    def work_units(self, ty, k):
        """(sig index, split) units covering terms(ty, k) without materialising"""
        units = []
        for si, sig in enumerate(self.sigs):
            if sig.ret != ty:
                continue
            for split in self.splits(k - 1, len(sig.args)):
                units.append((si, split))
        return units

    def count_states(self):
        return sum(len(v) for v in self.memo.values())


def value_subterms(t):
    """sub-terms in value positions (skips call heads, parameter names and
    lambda-bound variable declarations)"""
    yield t
    k = t[0]
    if k == "Call":
        for a in t[2][1:]:
            yield from value_subterms(a)
    elif k == "NamedParam":
        yield from value_subterms(t[2])
    elif k == "CollectionLambda":
        yield from value_subterms(t[1])
        if t[3] is not None:
            yield from value_subterms(t[3][2])
    elif k == "List":
        for e in t[1][1:]:
            yield from value_subterms(e)
    else:
        for c in t[1:]:
            if isinstance(c, tuple) and c and c[0] not in ("[]", "()") and len(c) > 0 and isinstance(c[0], str) and c[0][0].isupper():
                if k in ("BinOp", "Compare", "BoolOp", "UnaryOp") and c is t[1]:
                    continue  # operator token
                yield from value_subterms(c)


def fields_of(term):
    out = []
    for s in value_subterms(term):
        if s[0] == "Identifier" and s[1] not in out:
            out.append(s[1])
    return out
