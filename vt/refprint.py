"""R-PRINT: reference OData printer.

Knows only the OData 4.01 part 2 §5.1.1.14 precedence table and the ABNF
spellings. Never calls library code.

    primary:  /  in            (highest)
    unary:    -  not
    mul div mod
    add sub
    gt ge lt le
    eq ne
    and
    or                         (lowest)

Binary operators associate to the left; unary operators are prefix.
"""
from . import terms as T

PREC = {
    "Or": 1, "And": 2, "Eq": 3, "NotEq": 3, "Lt": 4, "LtE": 4, "Gt": 4, "GtE": 4,
    "Add": 5, "Sub": 5, "Mult": 6, "Div": 6, "Mod": 6, "Not": 7, "USub": 7, "In": 8,
}
ATOM = 100

SPELL = {
    "Or": "or", "And": "and", "Eq": "eq", "NotEq": "ne", "Lt": "lt", "LtE": "le",
    "Gt": "gt", "GtE": "ge", "Add": "add", "Sub": "sub", "Mult": "mul", "Div": "div",
    "Mod": "mod", "In": "in", "Not": "not", "USub": "-", "Any": "any", "All": "all",
}


def prec(t):
    k = t[0]
    if k in ("BinOp", "Compare", "BoolOp", "UnaryOp"):
        return PREC[t[1][0]]
    return ATOM


class Printer:
    """style: 'min' (minimal parentheses), 'full' (every operator node
    parenthesised), 'redundant' (minimal + one extra pair around every
    operand that is itself an operator node or a plain leaf)."""

    def __init__(self, style="min", ws=" ", comma=", ", colon=": ", kwcase=None):
        self.style = style
        self.ws = ws
        self.comma = comma
        self.colon = colon
        self.kwcase = kwcase or (lambda s: s)

    # ---- leaves -----------------------------------------------------
    def ident(self, t):
        ns = t[2][1:]
        return ".".join(ns + (t[1],))

    def literal(self, t):
        k = t[0]
        if k == "Null":
            return self.kwcase("null")
        if k == "String":
            return "'" + t[1].replace("'", "''") + "'"
        if k == "Geography":
            return "geography'" + t[1] + "'"
        if k == "Duration":
            return "duration'" + t[1] + "'"
        if k == "Boolean":
            return self.kwcase(t[1])
        return t[1]

    # ---- main -------------------------------------------------------
    def p(self, t):
        k = t[0]
        if k == "Identifier":
            return self.ident(t)
        if k == "Attribute":
            return self.p(t[1]) + "/" + t[2]
        if k in T.LIT_KINDS:
            return self.literal(t)
        if k == "List":
            items = t[1][1:]
            if len(items) == 1:
                return "(" + self.p(items[0]) + ",)"
            return "(" + self.comma.join(self.p(i) for i in items) + ")"
        if k == "Call":
            return self.ident(t[1]) + "(" + self.comma.join(self.p(a) for a in t[2][1:]) + ")"
        if k == "NamedParam":
            return self.ident(t[1]) + "=" + self.p(t[2])
        if k == "CollectionLambda":
            body = ""
            if t[3] is not None:
                body = self.ident(t[3][1]) + self.colon + self.p(t[3][2])
            return self.p(t[1]) + "/" + self.kwcase(SPELL[t[2][0]]) + "(" + body + ")"
        if k == "UnaryOp":
            op = t[1][0]
            inner = self.operand(t[2], PREC[op], strict=False)
            if op == "Not":
                return self.kwcase("not") + self.ws + inner
            # '-' BWS expr; keep a blank so that '-' never fuses with a number
            return "-" + (" " if not inner.startswith("(") else "") + inner
        if k in ("BinOp", "Compare", "BoolOp"):
            op = t[1][0]
            me = PREC[op]
            left = self.operand(t[2], me, strict=False)
            if op == "In":
                right = self.p(t[3])  # a list: brackets of its own
            else:
                right = self.operand(t[3], me, strict=True)
            return left + self.ws + self.kwcase(SPELL[op]) + self.ws + right
        raise ValueError("cannot print %r" % (t,))

    def operand(self, t, parent_prec, strict):
        s = self.p(t)
        cp = prec(t)
        need = cp < parent_prec or (strict and cp == parent_prec)
        if self.style == "full" and cp != ATOM:
            need = True
        if self.style == "redundant" and t[0] != "List":
            need = True
        return "(" + s + ")" if need else s


_MIN = Printer("min")
_FULL = Printer("full")
_RED = Printer("redundant")


def to_odata(t, style="min"):
    return {"min": _MIN, "full": _FULL, "redundant": _RED}[style].p(t)


def to_odata_bare(t):
    """No parentheses at all around operator operands (for the negative layer
    of C05: the text that *needs* parentheses printed without them)."""
    class Bare(Printer):
        def operand(self, t, parent_prec, strict):
            return self.p(t)
    return Bare().p(t)


# --------------------------------------------------------------------------
# slot printer (C19): the text as a list of parts
#   str                    fixed text
#   ('R',)                 required whitespace (default ' ')
#   ('O', default)         optional whitespace (BWS)
#   ('K', word)            keyword whose letter case may vary
#   ('L', kind, text)      non-string literal whose letters' case may vary
# --------------------------------------------------------------------------
class SlotPrinter:
    def p(self, t):
        k = t[0]
        if k == "Identifier":
            return [".".join(t[2][1:] + (t[1],))]
        if k == "Attribute":
            return self.p(t[1]) + ["/" + t[2]]
        if k == "Null":
            return [("K", "null")]
        if k == "Boolean":
            return [("K", t[1])]
        if k == "String":
            return ["'" + t[1].replace("'", "''") + "'"]
        if k == "Geography":
            return [("L", k, "geography'" + t[1] + "'")]
        if k == "Duration":
            return [("L", k, "duration'" + t[1] + "'")]
        if k in T.LIT_KINDS:
            return [("L", k, t[1])]
        if k == "List":
            items = t[1][1:]
            out = ["(", ("O", "")]
            for i, it in enumerate(items):
                if i:
                    out += [("O", ""), ",", ("O", " ")]
                out += self.p(it)
            if len(items) == 1:
                out += [("O", ""), ",", ("O", "")]
            else:
                out += [("O", "")]
            return out + [")"]
        if k == "Call":
            args = t[2][1:]
            out = [".".join(t[1][2][1:] + (t[1][1],)), "(", ("O", "")]
            for i, a in enumerate(args):
                if i:
                    out += [("O", ""), ",", ("O", " ")]
                out += self.p(a)
            if args:
                out += [("O", "")]
            return out + [")"]
        if k == "NamedParam":
            return [t[1][1] + "="] + self.p(t[2])
        if k == "CollectionLambda":
            out = self.p(t[1]) + ["/", ("K", SPELL[t[2][0]]), "(", ("O", "")]
            if t[3] is not None:
                out += [t[3][1][1], ("O", ""), ":", ("O", " ")] + self.p(t[3][2]) + [("O", "")]
            return out + [")"]
        if k == "UnaryOp":
            op = t[1][0]
            inner = self.operand(t[2], PREC[op], False)
            if op == "Not":
                return [("K", "not"), ("R",)] + inner
            return ["-", " "] + inner
        if k in ("BinOp", "Compare", "BoolOp"):
            op = t[1][0]
            me = PREC[op]
            left = self.operand(t[2], me, False)
            right = self.p(t[3]) if op == "In" else self.operand(t[3], me, True)
            return left + [("R",), ("K", SPELL[op]), ("R",)] + right
        raise ValueError(t)

    def operand(self, t, parent_prec, strict):
        parts = self.p(t)
        cp = prec(t)
        if cp < parent_prec or (strict and cp == parent_prec):
            return ["(", ("O", "")] + parts + [("O", ""), ")"]
        return parts


def render_parts(parts, choice=None):
    """choice: {slot index: replacement text}"""
    choice = choice or {}
    out = []
    for i, p in enumerate(parts):
        if isinstance(p, str):
            out.append(p)
        elif i in choice:
            out.append(choice[i])
        elif p[0] == "R":
            out.append(" ")
        elif p[0] == "O":
            out.append(p[1])
        elif p[0] == "K":
            out.append(p[1])
        else:
            out.append(p[2])
    return "".join(out)
