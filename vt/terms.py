"""Neutral term language (E-TERM).

A neutral term is a plain tuple mirroring one AST node *generically*:

    (ClassName, field_1, ..., field_n)       one entry per dataclass field
    ('[]', e_1, ..., e_n)                    a python list field
    ('()', s_1, ..., s_n)                    a python tuple-of-str field
    str / None                               scalar fields

Nothing in this module imports the library: terms are built, printed and
evaluated by the checker's own code; `decode.py` maps library ASTs to/from
this form.
"""
from itertools import product

BIN = ("Add", "Sub", "Mult", "Div", "Mod")
CMP = ("Eq", "NotEq", "Lt", "LtE", "Gt", "GtE")
BOOL = ("And", "Or")
UN = ("Not", "USub")
ALL_BINARY = ("Or", "And", "Eq", "NotEq", "Lt", "LtE", "Gt", "GtE", "In",
              "Add", "Sub", "Mult", "Div", "Mod")

LIT_KINDS = ("Null", "Integer", "Float", "Boolean", "String", "Geography",
             "Date", "Time", "DateTime", "Duration", "GUID")


# --------------------------------------------------------------------------
# builders
# --------------------------------------------------------------------------
def I(name, ns=()):
    return ("Identifier", name, ("()",) + tuple(ns))


def A(owner, attr):
    return ("Attribute", owner, attr)


def path(*segs):
    t = I(segs[0])
    for s in segs[1:]:
        t = A(t, s)
    return t


def lit(kind, val=None):
    if kind == "Null":
        return ("Null",)
    return (kind, val)


def Int(v):
    return ("Integer", str(v))


def Flt(v):
    return ("Float", str(v))


def Str(v):
    return ("String", v)


def Bool(v):
    return ("Boolean", "true" if v is True else "false" if v is False else v)


NULL = ("Null",)


def lst(*items):
    return ("List", ("[]",) + tuple(items))


def binop(op, l, r):
    if op in BIN:
        return ("BinOp", (op,), l, r)
    if op in CMP or op == "In":
        return ("Compare", (op,), l, r)
    if op in BOOL:
        return ("BoolOp", (op,), l, r)
    raise ValueError(op)


def unop(op, x):
    return ("UnaryOp", (op,), x)


def call(name, *args, ns=()):
    return ("Call", I(name, ns), ("[]",) + tuple(args))


def named(name, param, ns=()):
    return ("NamedParam", I(name, ns), param)


def lam(owner, op, var=None, body=None):
    if var is None:
        return ("CollectionLambda", owner, (op,), None)
    return ("CollectionLambda", owner, (op,), ("Lambda", I(var), body))


# --------------------------------------------------------------------------
# inspection
# --------------------------------------------------------------------------
def is_node(t):
    return isinstance(t, tuple) and t and t[0] not in ("[]", "()")


def kind(t):
    return t[0]


def opname(t):
    """operator name of a BinOp/Compare/BoolOp/UnaryOp term"""
    return t[1][0]


def children(t):
    """direct sub-*nodes* in depth-first field order (lists flattened)"""
    out = []
    for f in t[1:]:
        if isinstance(f, tuple):
            if f and f[0] == "[]":
                for e in f[1:]:
                    if is_node(e):
                        out.append(e)
                    elif isinstance(e, tuple) and e and e[0] == "[]":
                        out.extend(x for x in e[1:] if is_node(x))
            elif f and f[0] == "()":
                pass
            elif f:
                out.append(f)
    return out


def subterms(t):
    yield t
    for c in children(t):
        yield from subterms(c)


def size(t):
    return sum(1 for _ in subterms(t))


def n_ops(t):
    return sum(1 for s in subterms(t) if s[0] in ("BinOp", "Compare", "BoolOp", "UnaryOp"))


def replace(t, fn):
    """bottom-up rewrite: fn(node) -> node"""
    if not isinstance(t, tuple) or not t:
        return t
    if t[0] in ("[]",):
        return ("[]",) + tuple(replace(e, fn) for e in t[1:])
    if t[0] == "()":
        return t
    new = (t[0],) + tuple(replace(f, fn) if isinstance(f, tuple) else f for f in t[1:])
    return fn(new)


# --------------------------------------------------------------------------
# untyped operator-tree enumeration (what the *parser* accepts)
# --------------------------------------------------------------------------
class LeafRotor:
    """Hands out leaves round-robin so that every (operator, side, leaf kind)
    combination occurs over the enumeration; deterministic."""

    def __init__(self, leaves):
        self.leaves = list(leaves)
        self.i = 0

    def next(self):
        v = self.leaves[self.i % len(self.leaves)]
        self.i += 1
        return v


SIMPLE_LEAVES = [
    I("a"), Int(1), path("a", "b"), Str("s"), call("f", I("x"), ns=("ns",)),
    Flt("1.5"), I("c", ("n",)), call("now"), Bool(True), NULL,
    lam(I("xs"), "Any", "v", binop("Eq", path("v", "p"), Int(2))),
    call("length", I("s")), path("a", "b", "c"), ("GUID", "123e4567-e89b-12d3-a456-426614174000"),
    ("Date", "2020-02-29"), lam(path("a", "xs"), "Any"), ("DateTime", "2020-02-29T10:00:00Z"),
    ("Duration", "P1DT2H"), lam(I("xs"), "All", "v", binop("Gt", path("v", "p"), I("a"))),
    ("Time", "10:30:00"), lst(Int(1), Int(2)), lst(Str("x")),
]

LIST_LEAVES = [lst(Int(1), Int(2)), lst(Str("x")), lst(I("a"), Int(3), NULL),
               lst(lst(Int(1), Int(2)), lst(Int(3)))]


def shapes(n):
    """all operator-tree shapes with exactly n operator nodes.
    A shape is 'L' | ('U', s) | ('B', l, r)."""
    if n == 0:
        return ["L"]
    out = []
    for s in shapes(n - 1):
        out.append(("U", s))
    for k in range(n):
        for l in shapes(k):
            for r in shapes(n - 1 - k):
                out.append(("B", l, r))
    return out


def _label(shape, binops, unops, leaf, listleaf):
    """yield all labelled trees for a shape; `in` forces a list on its right
    (the right shape must then be a leaf)."""
    if shape == "L":
        yield None  # placeholder, filled by caller for leaf rotation
        return
    if shape[0] == "U":
        for sub in _label(shape[1], binops, unops, leaf, listleaf):
            for u in unops:
                yield ("U", u, sub)
        return
    _, l, r = shape
    for lt in _label(l, binops, unops, leaf, listleaf):
        for rt in _label(r, binops, unops, leaf, listleaf):
            for b in binops:
                if b == "In":
                    if r != "L":
                        continue
                    yield ("B", b, lt, "LIST")
                else:
                    yield ("B", b, lt, rt)


def _fill(lab, rotor, listrotor):
    if lab is None:
        return rotor.next()
    if lab == "LIST":
        return listrotor.next()
    if lab[0] == "U":
        return unop(lab[1], _fill(lab[2], rotor, listrotor))
    return binop(lab[1], _fill(lab[2], rotor, listrotor), _fill(lab[3], rotor, listrotor))


def op_trees(n, binops=ALL_BINARY, unops=UN, leaves=SIMPLE_LEAVES, listleaves=LIST_LEAVES):
    """all labelled operator trees with exactly n operator nodes; leaves are
    rotated (deterministically) through `leaves`."""
    rotor, lrotor = LeafRotor(leaves), LeafRotor(listleaves)
    for sh in shapes(n):
        for lab in _label(sh, binops, unops, None, None):
            yield _fill(lab, rotor, lrotor)


def count_op_trees(n, nb=len(ALL_BINARY), nu=len(UN)):
    return sum(1 for sh in shapes(n) for _ in _label(sh, ALL_BINARY[:nb], UN[:nu], None, None))


def op_trees_of_shape(shape, offset=0, binops=ALL_BINARY, unops=UN, leaves=SIMPLE_LEAVES, listleaves=LIST_LEAVES):
    """labelled trees of one shape; leaf rotation starts at `offset` so that
    different shapes (work units) see different leaves"""
    rotor, lrotor = LeafRotor(leaves), LeafRotor(listleaves)
    rotor.i = offset
    lrotor.i = offset
    for lab in _label(shape, binops, unops, None, None):
        yield _fill(lab, rotor, lrotor)


def op_towers(depths=(5, 8), leaves=SIMPLE_LEAVES, listleaves=LIST_LEAVES):
    """pumped cycles of the operator grammar: every ordered pair of operators (14 binary + 2 unary) alternated `depth` times on
    the left spine and on the right spine (a unary operator simply wraps); leaves rotate"""
    rotor, lrotor = LeafRotor(leaves), LeafRotor(listleaves)
    ops = list(ALL_BINARY) + list(UN)
    for a in ops:
        for b in ops:
            for depth in depths:
                for spine in ("left", "right"):
                    t = rotor.next()
                    for lvl in range(depth):
                        op = a if lvl % 2 == 0 else b
                        if op in UN:
                            t = unop(op, t)
                        elif op == "In":
                            t = binop("In", t, lrotor.next())
                        elif spine == "left":
                            t = binop(op, t, rotor.next())
                        else:
                            t = binop(op, rotor.next(), t)
                    yield t
