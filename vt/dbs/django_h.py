"""Django harness: in-memory SQLite, app vt_dj; one dynamically created model
per column subset holding every valuation of those columns."""
import django
from django.conf import settings

_READY = False


def setup():
    global _READY
    if _READY:
        return
    if not settings.configured:
        settings.configure(
            INSTALLED_APPS=["vt_dj"],
            DATABASES={"default": {"ENGINE": "django.db.backends.sqlite3", "NAME": ":memory:"}},
            USE_TZ=True, TIME_ZONE="UTC", DEFAULT_AUTO_FIELD="django.db.models.AutoField",
        )
    django.setup()
    from django.db.backends.signals import connection_created

    def _pragma(sender, connection, **kw):
        if connection.vendor == "sqlite":
            connection.cursor().execute("PRAGMA case_sensitive_like=ON")
    connection_created.connect(_pragma, weak=False)
    _READY = True


_MODELS = {}
_REL_READY = False


def scalar_model(cols):
    """model class for the column subset (table created and filled on first use)"""
    setup()
    from django.db import connection, models
    from .domain import COLUMNS, colkey, rows_for
    key = colkey(cols)
    if key in _MODELS:
        return _MODELS[key]
    name = "T_" + ("_".join(key) or "none")
    attrs = {
        "__module__": "vt_dj.models",
        "n": models.IntegerField(null=True), "m": models.IntegerField(null=True), "x": models.FloatField(null=True),
        "s": models.CharField(max_length=20, null=True), "u": models.CharField(max_length=20, null=True),
        "b": models.BooleanField(null=True), "d": models.DateTimeField(null=True),
        "Meta": type("Meta", (), {"app_label": "vt_dj", "db_table": name.lower()}),
    }
    M = type(name, (models.Model,), attrs)
    with connection.schema_editor() as ed:
        ed.create_model(M)
    rows = rows_for(key)
    M.objects.bulk_create([M(id=r["id"], **{c: r[c] for c in COLUMNS}) for r in rows])
    _MODELS[key] = (M, rows)
    return _MODELS[key]


def relational_models():
    global _REL_READY
    setup()
    from django.db import connection
    from vt_dj import models as M
    if not _REL_READY:
        with connection.schema_editor() as ed:
            for cls in (M.City, M.Person, M.Blog, M.Tag, M.Post, M.Comment):
                ed.create_model(cls)
        _REL_READY = True
    return M


_ALT_READY = False


def alternate_models():
    global _ALT_READY
    setup()
    from django.db import connection
    from vt_dj import models as M
    if not _ALT_READY:
        with connection.schema_editor() as ed:
            for cls in (M.Node, M.Item, M.Extra):
                ed.create_model(cls)
        _ALT_READY = True
    return M
