"""raw sqlite3 harness: one in-memory database per process, one table per
column subset holding every valuation of those columns."""
import sqlite3

from .domain import COLUMNS, colkey, rows_for


def to_sql_value(v):
    import datetime as dt
    if isinstance(v, bool):
        return int(v)
    if isinstance(v, dt.datetime):
        return v.strftime("%Y-%m-%d %H:%M:%S")
    return v


class SqliteHarness:
    def __init__(self):
        self.con = sqlite3.connect(":memory:")
        self.con.execute("PRAGMA case_sensitive_like=ON")
        self.tables = {}
        self.con.execute("CREATE TABLE canary (k INTEGER)")
        self.con.execute("INSERT INTO canary VALUES (42)")
        self.con.commit()

    def table(self, cols):
        key = colkey(cols)
        if key not in self.tables:
            name = "t_" + ("_".join(key) or "none")
            self.con.execute("CREATE TABLE %s (id INTEGER PRIMARY KEY, n INTEGER, m INTEGER, x REAL, s TEXT, u TEXT, b BOOLEAN, d DATETIME)" % name)
            rows = rows_for(key)
            self.con.executemany("INSERT INTO %s (id, n, m, x, s, u, b, d) VALUES (?,?,?,?,?,?,?,?)" % name,
                                 [[r["id"]] + [to_sql_value(r[c]) for c in COLUMNS] for r in rows])
            self.con.commit()
            self.tables[key] = (name, rows)
        return self.tables[key]

    def select_ids(self, cols, where, alias=None):
        name, rows = self.table(cols)
        frm = name if not alias else '%s AS "%s"' % (name, alias)
        idcol = "id" if not alias else '"%s".id' % alias
        cur = self.con.execute("SELECT %s FROM %s WHERE %s" % (idcol, frm, where))
        return sorted(r[0] for r in cur.fetchall())

    def canary_ok(self):
        try:
            return self.con.execute("SELECT k FROM canary").fetchall() == [(42,)]
        except sqlite3.Error:
            return False
