"""Load a relational DB instance (vt.relational.DB) into the Django and SQLAlchemy schemas."""
from . import django_h, sa_h

DJ = {"City": ("vt_dj_city", ["id", "name"]), "Person": ("vt_dj_person", ["id", "name", "age", "city_id"]), "Blog": ("vt_dj_blog", ["id", "title", "owner_id"]),
      "Tag": ("vt_dj_tag", ["id", "label", "weight"]), "Post": ("vt_dj_post", ["id", "title", "score", "blog_id", "author_id", "owner_id"]),
      "Comment": ("vt_dj_comment", ["id", "text", "score", "flag", "post_id"])}
SA = {"City": ("sa_city", ["id", "name"]), "Person": ("sa_person", ["id", "name", "age", "city_id"]), "Blog": ("sa_blog", ["id", "title", "owner_id"]),
      "Tag": ("sa_tag", ["id", "label", "weight"]), "Post": ("sa_post", ["id", "title", "score", "blog_id", "author_id", "owner_id"]),
      "Comment": ("sa_comment", ["id", "text", "score", "flag", "post_id"])}
ORDER_DEL = ["Comment", "Post", "Blog", "Tag", "Person", "City"]
ORDER_INS = ["City", "Person", "Blog", "Tag", "Post", "Comment"]


def load_django(db):
    M = django_h.relational_models()
    from django.db import connection
    with connection.cursor() as cur:
        cur.execute("DELETE FROM vt_dj_post_tags")
        for t in ORDER_DEL:
            cur.execute("DELETE FROM %s" % DJ[t][0])
        for t in ORDER_INS:
            name, cols = DJ[t]
            rows = [[r.get(c) for c in cols] for r in db.rows[t]]
            if rows:
                cur.executemany("INSERT INTO %s (%s) VALUES (%s)" % (name, ",".join(cols), ",".join(["%s"] * len(cols))), rows)
        if db.links:
            cur.executemany("INSERT INTO vt_dj_post_tags (post_id, tag_id) VALUES (%s, %s)", [list(l) for l in db.links])
    return M


def load_sa(db):
    R = sa_h.relational()
    con = sa_h.engine().raw_connection()
    try:
        cur = con.cursor()
        cur.execute("DELETE FROM sa_post_tags")
        for t in ORDER_DEL:
            cur.execute("DELETE FROM %s" % SA[t][0])
        for t in ORDER_INS:
            name, cols = SA[t]
            rows = [[r.get(c) for c in cols] for r in db.rows[t]]
            if rows:
                cur.executemany("INSERT INTO %s (%s) VALUES (%s)" % (name, ",".join(cols), ",".join(["?"] * len(cols))), rows)
        if db.links:
            cur.executemany("INSERT INTO sa_post_tags (post_id, tag_id) VALUES (?, ?)", [list(l) for l in db.links])
        con.commit()
    finally:
        con.close()
    return R
