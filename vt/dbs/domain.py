"""The all-valuations row domain shared by the sqlite / Django / SQLAlchemy harnesses."""
import datetime as dt
from itertools import product

UTC = dt.timezone.utc
COLUMNS = ["n", "m", "x", "s", "u", "b", "d"]
TEXT = [None, "", "a", "A", "ab", "b", "%", "a%b", "a_b", "a'b", "a\\b", " a ", "e\u0301", "\u00e9"]   # last two: decomposed / precomposed e-acute
DOMAIN = {
    "n": [None, -2, 0, 1, 3],
    "m": [None, -2, 0, 1, 3],
    "x": [None, -2.5, -1.5, 0.0, 0.5, 2.5],
    "s": TEXT,
    "u": TEXT,
    "b": [None, False, True],
    "d": [None, dt.datetime(1999, 12, 31, 0, 0, 0, tzinfo=UTC), dt.datetime(2020, 2, 29, 23, 59, 59, tzinfo=UTC),
          dt.datetime(2099, 1, 1, 12, 30, 0, tzinfo=UTC),
          dt.datetime(2021, 1, 1, 0, 0, 0, tzinfo=UTC)],          # a Friday in ISO week 53 of 2020: calendar year != ISO week-year
}
TYPES = {"n": "I", "m": "I", "x": "R", "s": "S", "u": "S", "b": "B", "d": "T"}


def rows_for(cols):
    """all valuations of `cols` (other columns NULL); returns list of dict incl. 'id'"""
    cols = [c for c in COLUMNS if c in cols]
    out = []
    for i, vals in enumerate(product(*[DOMAIN[c] for c in cols]), start=1):
        r = dict.fromkeys(COLUMNS)
        r.update(zip(cols, vals))
        r["id"] = i
        out.append(r)
    return out


def colkey(cols):
    return tuple(c for c in COLUMNS if c in cols)
