"""SQLAlchemy harness: in-memory SQLite engine; per column subset one
declarative model + its Core table holding every valuation of those columns."""
import sqlalchemy as sa
from sqlalchemy import event
from sqlalchemy.orm import Session, declarative_base, relationship
from sqlalchemy.pool import StaticPool

from .domain import COLUMNS, colkey, rows_for

_ENGINE = None
Base = declarative_base()
_MODELS = {}


def engine():
    global _ENGINE
    if _ENGINE is None:
        _ENGINE = sa.create_engine("sqlite://", poolclass=StaticPool, connect_args={"check_same_thread": False})

        @event.listens_for(_ENGINE, "connect")
        def _pragma(dbapi_con, rec):  # noqa
            dbapi_con.execute("PRAGMA case_sensitive_like=ON")
    return _ENGINE


def scalar_model(cols):
    key = colkey(cols)
    if key in _MODELS:
        return _MODELS[key]
    name = "T_" + ("_".join(key) or "none")
    attrs = {
        "__tablename__": name.lower(),
        "id": sa.Column(sa.Integer, primary_key=True),
        "n": sa.Column(sa.Integer), "m": sa.Column(sa.Integer), "x": sa.Column(sa.Float),
        "s": sa.Column(sa.String), "u": sa.Column(sa.String), "b": sa.Column(sa.Boolean), "d": sa.Column(sa.DateTime),
    }
    M = type(name, (Base,), attrs)
    M.__table__.create(engine())
    rows = rows_for(key)
    with Session(engine()) as ses:
        for r in rows:
            d = r["d"].replace(tzinfo=None) if r["d"] is not None else None
            ses.add(M(id=r["id"], n=r["n"], m=r["m"], x=r["x"], s=r["s"], u=r["u"], b=r["b"], d=d))
        ses.commit()
    _MODELS[key] = (M, rows)
    return _MODELS[key]


# ---------------------------------------------------------------- relational schema
class City(Base):
    __tablename__ = "sa_city"
    id = sa.Column(sa.Integer, primary_key=True)
    name = sa.Column(sa.String, nullable=False)
    people = relationship("Person", back_populates="city")


class Person(Base):
    __tablename__ = "sa_person"
    id = sa.Column(sa.Integer, primary_key=True)
    name = sa.Column(sa.String, nullable=False)
    age = sa.Column(sa.Integer)
    city_id = sa.Column(sa.Integer, sa.ForeignKey("sa_city.id"), nullable=False)   # NOT NULL hop
    city = relationship("City", back_populates="people")
    blogs = relationship("Blog", back_populates="owner")
    posts = relationship("Post", back_populates="author")


class Blog(Base):
    __tablename__ = "sa_blog"
    id = sa.Column(sa.Integer, primary_key=True)
    title = sa.Column(sa.String, nullable=False)
    owner_id = sa.Column(sa.Integer, sa.ForeignKey("sa_person.id"))
    owner = relationship("Person", back_populates="blogs")
    posts = relationship("Post", back_populates="blog")


post_tags = sa.Table("sa_post_tags", Base.metadata,
                     sa.Column("post_id", sa.Integer, sa.ForeignKey("sa_post.id"), primary_key=True),
                     sa.Column("tag_id", sa.Integer, sa.ForeignKey("sa_tag.id"), primary_key=True))


class Tag(Base):
    __tablename__ = "sa_tag"
    id = sa.Column(sa.Integer, primary_key=True)
    label = sa.Column(sa.String, nullable=False)
    weight = sa.Column(sa.Integer, nullable=False)
    posts = relationship("Post", secondary=post_tags, back_populates="tags")


class Post(Base):
    __tablename__ = "sa_post"
    id = sa.Column(sa.Integer, primary_key=True)
    title = sa.Column(sa.String, nullable=False)
    score = sa.Column(sa.Integer, nullable=False)
    blog_id = sa.Column(sa.Integer, sa.ForeignKey("sa_blog.id"))
    author_id = sa.Column(sa.Integer, sa.ForeignKey("sa_person.id"))
    owner_id = sa.Column(sa.Integer, sa.ForeignKey("sa_city.id"))
    owner = relationship("City")
    blog = relationship("Blog", back_populates="posts")
    author = relationship("Person", back_populates="posts")
    tags = relationship("Tag", secondary=post_tags, back_populates="posts")
    comments = relationship("Comment", back_populates="post")


class Comment(Base):
    __tablename__ = "sa_comment"
    id = sa.Column(sa.Integer, primary_key=True)
    text = sa.Column(sa.String, nullable=False)
    score = sa.Column(sa.Integer, nullable=False)
    flag = sa.Column(sa.Boolean, nullable=False, default=False)
    post_id = sa.Column(sa.Integer, sa.ForeignKey("sa_post.id"))
    post = relationship("Post", back_populates="comments")


_REL_READY = False


def relational():
    global _REL_READY
    if not _REL_READY:
        for cls in (City, Person, Blog, Tag, Post, Comment):
            cls.__table__.create(engine())
        post_tags.create(engine())
        _REL_READY = True
    return {"City": City, "Person": Person, "Blog": Blog, "Tag": Tag, "Post": Post, "Comment": Comment, "post_tags": post_tags}


# ---- alternate schema shapes (C04 layer "alternate-schema"), see vt_dj/models.py
class Node(Base):
    __tablename__ = "sa_node"
    id = sa.Column(sa.Integer, primary_key=True)
    code = sa.Column(sa.String, nullable=False, unique=True)
    items = relationship("Item", back_populates="node")
    extra = relationship("Extra", back_populates="node", uselist=False)


class Item(Base):
    __tablename__ = "sa_item"
    id = sa.Column(sa.Integer, primary_key=True)
    name = sa.Column(sa.String, nullable=False)
    node_code = sa.Column(sa.String, sa.ForeignKey("sa_node.code"))
    node = relationship("Node", back_populates="items")


class Extra(Base):
    __tablename__ = "sa_extra"
    id = sa.Column(sa.Integer, primary_key=True)
    note = sa.Column(sa.String, nullable=False)
    node_id = sa.Column(sa.Integer, sa.ForeignKey("sa_node.id"), nullable=False, unique=True)
    node = relationship("Node", back_populates="extra")


_ALT_READY = False


def alternate():
    global _ALT_READY
    if not _ALT_READY:
        for cls in (Node, Item, Extra):
            cls.__table__.create(engine())
        _ALT_READY = True
    return {"Node": Node, "Item": Item, "Extra": Extra}
