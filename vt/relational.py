"""Relational layer: schema description, database instances, relational
R-EVAL, filter grammar for navigation paths and any/all lambdas (C04, C15)."""
from itertools import combinations_with_replacement, product

from . import refeval, terms as T
from .refeval import UNDEF

# ---------------------------------------------------------------- schema
SCHEMA = {
    "City": {"scalars": ["name"], "one": {}, "many": {"people": ("Person", "city")}},
    # Person.city is a NOT NULL foreign key: a non-nullable hop behind the nullable hops Post.author / Blog.owner
    "Person": {"scalars": ["name", "age"], "one": {"city": "City"}, "many": {"blogs": ("Blog", "owner"), "posts": ("Post", "author")}},
    "Blog": {"scalars": ["title"], "one": {"owner": "Person"}, "many": {"posts": ("Post", "blog")}},
    # Post.owner -> City shares its attribute NAME with Blog.owner -> Person (different model, different target)
    "Post": {"scalars": ["title", "score"], "one": {"blog": "Blog", "author": "Person", "owner": "City"},
             "many": {"comments": ("Comment", "post"), "tags": ("Tag", "m2m")}},
    "Comment": {"scalars": ["text", "score", "flag"], "one": {"post": "Post"}, "many": {}},
    "Tag": {"scalars": ["label", "weight"], "one": {}, "many": {"posts": ("Post", "m2m")}},
}
TABLES = ["City", "Person", "Blog", "Tag", "Post", "Comment"]


class DB:
    """an instance: rows per entity (dicts with 'id' + scalars + '<rel>_id'), plus post_tags link pairs"""

    def __init__(self):
        self.rows = {t: [] for t in TABLES}
        self.links = []   # (post_id, tag_id)
        self._next = {t: 1 for t in TABLES}

    def add(self, table, **kw):
        if table == "Person" and "city_id" not in kw:
            # every person lives somewhere (NOT NULL): two cities, assigned alternately
            while len(self.rows["City"]) < 2:
                self.add("City", name="c%d" % (len(self.rows["City"]) + 1))
            kw["city_id"] = self.rows["City"][len(self.rows["Person"]) % 2]["id"]
        if table == "Comment" and "flag" not in kw:
            kw["flag"] = kw.get("score", 0) >= 2          # NOT NULL boolean column
        if table == "Post" and "owner_id" not in kw:
            # Post.owner -> City is nullable: every third post has none, the others alternate between the two cities
            k = len(self.rows["Post"])
            if k % 3 == 0:
                kw["owner_id"] = None
            else:
                while len(self.rows["City"]) < 2:
                    self.add("City", name="c%d" % (len(self.rows["City"]) + 1))
                kw["owner_id"] = self.rows["City"][k % 2]["id"]
        kw.setdefault("id", self._next[table])
        self._next[table] = max(self._next[table], kw["id"]) + 1
        self.rows[table].append(kw)
        return kw["id"]

    def link(self, post_id, tag_id):
        self.links.append((post_id, tag_id))

    def by_id(self, table, id_):
        if id_ is None:
            return None
        for r in self.rows[table]:
            if r["id"] == id_:
                return r
        return None

    def children(self, parent_table, parent_row, rel):
        child_table, via = SCHEMA[parent_table]["many"][rel]
        if via == "m2m":
            if parent_table == "Post":
                ids = [t for p, t in self.links if p == parent_row["id"]]
            else:
                ids = [p for p, t in self.links if t == parent_row["id"]]
            return child_table, [r for r in self.rows[child_table] if r["id"] in ids]
        return child_table, [r for r in self.rows[child_table] if r.get(via + "_id") == parent_row["id"]]

    def merged(self, other):
        """disjoint union (ids of `other` shifted)"""
        out = DB()
        for src in (self, other):
            shift = {t: (max([r["id"] for r in out.rows[t]] or [0])) for t in TABLES}
            for t in TABLES:
                for r in src.rows[t]:
                    n = dict(r)
                    n["id"] = r["id"] + shift[t]
                    for rel, target in SCHEMA[t]["one"].items():
                        if n.get(rel + "_id") is not None:
                            n[rel + "_id"] = n[rel + "_id"] + shift[target]
                    out.rows[t].append(n)
            for p, tg in src.links:
                out.links.append((p + shift["Post"], tg + shift["Tag"]))
        return out

    def size(self):
        return sum(len(v) for v in self.rows.values()) + len(self.links)

    def describe(self):
        return {t: [dict(r) for r in self.rows[t]] for t in TABLES if self.rows[t]} | ({"post_tags": self.links} if self.links else {})


# ---------------------------------------------------------------- instances
def multisets(options, maxsize):
    for n in range(maxsize + 1):
        for combo in combinations_with_replacement(options, n):
            yield combo


def backdrop():
    """two of everything, fully linked, so that paths never dangle unintentionally"""
    db = DB()
    p1 = db.add("Person", name="p1", age=0)
    p2 = db.add("Person", name="p2", age=None)
    b1 = db.add("Blog", title="b1", owner_id=p1)
    b2 = db.add("Blog", title="b2", owner_id=None)
    t1 = db.add("Tag", label="t1", weight=0)
    t2 = db.add("Tag", label="t2", weight=2)
    return db, (p1, p2), (b1, b2), (t1, t2)


def small_instances():
    """all small instances, by family"""
    out = []
    # A: Post <- Comment : 2 posts, comment multisets <=3 over post{None,1,2} x score{0,2}  (84)
    for ms in multisets([(fk, sc) for fk in (None, 0, 1) for sc in (0, 2)], 3):
        db, ps, bs, ts = backdrop()
        posts = [db.add("Post", title="t%d" % i, score=2 * i, blog_id=bs[i], author_id=ps[i]) for i in range(2)]
        for j, (fk, sc) in enumerate(ms):
            db.add("Comment", text="c%d" % j, score=sc, post_id=None if fk is None else posts[fk])
        out.append(("A", db))
    # B: Person <- Post : post multisets <=3 over author{None,1,2} x score{0,2}  (84)
    for ms in multisets([(fk, sc) for fk in (None, 0, 1) for sc in (0, 2)], 3):
        db, ps, bs, ts = backdrop()
        for j, (fk, sc) in enumerate(ms):
            db.add("Post", title="t%d" % j, score=sc, blog_id=bs[j % 2] if j < 2 else None, author_id=None if fk is None else ps[fk])
        out.append(("B", db))
    # C: Post <-> Tag : 2 posts x 2 tags, all 16 link matrices
    for bits in product((0, 1), repeat=4):
        db, ps, bs, ts = backdrop()
        posts = [db.add("Post", title="t%d" % i, score=2 * i, blog_id=bs[0], author_id=ps[0]) for i in range(2)]
        for k, bit in enumerate(bits):
            if bit:
                db.link(posts[k // 2], ts[k % 2])
        db.add("Comment", text="c0", score=0, post_id=posts[0])
        out.append(("C", db))
    # D: Person <- Blog <- Post nested: blogs multiset <=2 over owner{None,1,2}; posts multiset <=2 over blog-index{None,0,1} x score{0,2}
    for bms in multisets([None, 0, 1], 2):
        for pms in multisets([(bi, sc) for bi in (None, 0, 1) for sc in (0, 2)], 2):
            db = DB()
            ps = [db.add("Person", name="p1", age=0), db.add("Person", name="p2", age=2)]
            blogs = [db.add("Blog", title="b%d" % j, owner_id=None if o is None else ps[o]) for j, o in enumerate(bms)]
            skip = False
            for j, (bi, sc) in enumerate(pms):
                if bi is not None and bi >= len(blogs):
                    skip = True
                    break
                db.add("Post", title="t%d" % j, score=sc, blog_id=None if bi is None else blogs[bi], author_id=ps[j % 2])
            if not skip:
                out.append(("D", db))
    # E: to-one chains with NULLs: Comment -> Post -> Blog -> Person, every nullness pattern, single rows and pairs
    for pattern in product((0, 1), repeat=3):
        db = DB()
        per = db.add("Person", name="p1", age=None if pattern[0] else 2)
        per2 = db.add("Person", name="p2", age=0)
        blog = db.add("Blog", title="b1", owner_id=per if pattern[2] else None)
        blog2 = db.add("Blog", title="b2", owner_id=per2)
        post = db.add("Post", title="t1", score=2, blog_id=blog if pattern[1] else None, author_id=per if pattern[0] else None)
        post2 = db.add("Post", title="t2", score=0, blog_id=blog2, author_id=per2)
        db.add("Comment", text="c1", score=0, post_id=post)
        db.add("Comment", text="c2", score=2, post_id=None)
        db.add("Comment", text="c3", score=2, post_id=post2)
        out.append(("E", db))
    # F: globally empty tables
    db = DB()
    out.append(("F", db))
    db = DB()
    db.add("Person", name="p1", age=0)
    out.append(("F", db))
    db = DB()
    pp = db.add("Person", name="p1", age=0)
    db.add("Post", title="t1", score=2, blog_id=None, author_id=pp)
    out.append(("F", db))
    return out


def product_instance(instances):
    db = DB()
    for _, inst in instances:
        db = db.merged(inst)
    return db


# ---------------------------------------------------------------- relational evaluator
_SCALAR = refeval.Evaluator()


class RelEval:
    def __init__(self, db):
        self.db = db

    def rows_true(self, root, term):
        out = []
        for r in self.db.rows[root]:
            v = self.ev(term, (root, r), {})
            if v is UNDEF:
                return None  # whole filter outside the agreed semantics on this instance
            if v is True:
                out.append(r["id"])
        return out

    # entity resolution ---------------------------------------------------
    def resolve(self, t, cur, env):
        """-> ('scalar', value) | ('entity', (table,row)|None) | ('many', (table, rows))"""
        k = t[0]
        if k == "Identifier":
            name = t[1]
            if name in env:
                return ("entity", env[name])
            return self.field(cur, name)
        if k == "Attribute":
            kind, owner = self.resolve(t[1], cur, env)
            if kind == "null-nav":
                return ("null-nav", None)
            if kind != "entity":
                return ("scalar", UNDEF)
            if owner is None:
                # navigating through a missing related row behaves as null / empty
                return ("null-nav", None)
            return self.field(owner, t[2])
        return ("scalar", UNDEF)

    def field(self, ent, name):
        table, row = ent
        sch = SCHEMA[table]
        if name in sch["scalars"] or name == "id":
            return ("scalar", row[name])
        if name in sch["one"]:
            tgt = sch["one"][name]
            r = self.db.by_id(tgt, row.get(name + "_id"))
            return ("entity", (tgt, r) if r is not None else None)
        if name in sch["many"]:
            ct, rows = self.db.children(table, row, name)
            return ("many", (ct, rows))
        return ("scalar", UNDEF)

    # evaluation ----------------------------------------------------------------
    def ev(self, t, cur, env):
        k = t[0]
        if k in ("Identifier", "Attribute"):
            kind, v = self.resolve(t, cur, env)
            if kind == "scalar":
                return v
            if kind == "null-nav":
                return None
            if kind == "entity":
                # a to-one relationship used as a value stands for the related row's key (null when there is no related row)
                return v[1]["id"] if v is not None else None
            return UNDEF
        if k in ("Null", "Integer", "Float", "Boolean", "String", "DateTime", "Date", "Time"):
            return refeval.lit_value(t)
        if k == "BinOp":
            return refeval._arith(t[1][0], self.ev(t[2], cur, env), self.ev(t[3], cur, env))
        if k == "Compare":
            op = t[1][0]
            if op == "In":
                x = self.ev(t[2], cur, env)
                if x is UNDEF:
                    return UNDEF
                if x is None:
                    return None
                res = False
                for e in t[3][1][1:]:
                    c = refeval._cmp("Eq", x, self.ev(e, cur, env))
                    if c is UNDEF:
                        return UNDEF
                    if c is True:
                        return True
                    if c is None:
                        res = None
                return res
            lnull, rnull = t[2][0] == "Null", t[3][0] == "Null"
            if (lnull or rnull) and op in ("Eq", "NotEq"):
                other = self.ev(t[3] if lnull else t[2], cur, env)
                if other is UNDEF:
                    return UNDEF
                return (other is None) == (op == "Eq")
            return refeval._cmp(op, self.ev(t[2], cur, env), self.ev(t[3], cur, env))
        if k == "BoolOp":
            f = refeval._and if t[1][0] == "And" else refeval._or
            return f(self.ev(t[2], cur, env), self.ev(t[3], cur, env))
        if k == "UnaryOp":
            v = self.ev(t[2], cur, env)
            if v is UNDEF:
                return UNDEF
            if v is None:
                return None
            if t[1][0] == "Not":
                return (not v) if isinstance(v, bool) else UNDEF
            return -v if refeval._num(v) else UNDEF
        if k == "Call":
            name = t[1][1]
            args = [self.ev(a, cur, env) for a in t[2][1:]]
            fn = getattr(_SCALAR, "f_" + name.lower())
            return _SCALAR._lift(fn, args)
        if k == "CollectionLambda":
            kind, coll = self.resolve(t[1], cur, env)
            if kind == "null-nav":
                ct, rows = None, []
            elif kind != "many":
                return UNDEF
            else:
                ct, rows = coll
            op = t[2][0]
            if t[3] is None:
                return len(rows) > 0 if op == "Any" else UNDEF
            var = t[3][1][1]
            body = t[3][2]
            vals = []
            for r in rows:
                env2 = dict(env)
                env2[var] = (ct, r)
                vals.append(self.ev(body, (ct, r), env2))
            if any(v is UNDEF for v in vals):
                return UNDEF
            if op == "Any":
                return any(v is True for v in vals)
            # all(): bodies are generated so that p is never unknown; an unknown makes the verdict a don't-care
            if any(v is None for v in vals):
                return UNDEF
            return all(v is True for v in vals)
        return UNDEF


# ---------------------------------------------------------------- filter grammar
def P(*segs):
    return T.path(*segs)


def scalar_atoms(prefix, table):
    """predicates over the scalars of `table`, reached through path `prefix` (tuple of segments, may be empty)"""
    def f(name):
        return P(*(prefix + (name,))) if prefix else T.I(name)
    out = []
    if table == "City":
        out += [T.binop("Eq", f("name"), T.Str("c1")), T.binop("NotEq", f("name"), T.Str("c2")), T.binop("Eq", f("name"), T.NULL)]
    elif table == "Person":
        out += [T.binop("Eq", f("name"), T.Str("p1")), T.binop("Gt", f("age"), T.Int(0)), T.binop("Eq", f("age"), T.NULL),
                T.binop("NotEq", f("age"), T.NULL), T.binop("In", f("name"), T.lst(T.Str("p2"), T.Str("zz"))),
                T.call("startswith", f("name"), T.Str("p")), T.binop("Lt", T.Int(1), f("age"))]
    elif table == "Blog":
        out += [T.binop("Eq", f("title"), T.Str("b1")), T.binop("NotEq", f("title"), T.Str("b0")), T.call("contains", f("title"), T.Str("1")),
                T.binop("Eq", f("title"), T.NULL)]
    elif table == "Post":
        out += [T.binop("Gt", f("score"), T.Int(1)), T.binop("Eq", f("score"), T.Int(0)), T.binop("Eq", f("title"), T.Str("t1")),
                T.binop("Eq", T.binop("Add", f("score"), T.Int(1)), T.Int(3)), T.binop("In", f("score"), T.lst(T.Int(2), T.Int(5))),
                T.binop("LtE", T.Int(2), f("score")), T.binop("Eq", f("title"), T.NULL)]
    elif table == "Comment":
        out += [T.binop("Gt", f("score"), T.Int(1)), T.binop("Eq", f("text"), T.Str("c0")), T.binop("NotEq", f("score"), T.Int(2))]
    elif table == "Tag":
        out += [T.binop("Eq", f("weight"), T.Int(2)), T.binop("Eq", f("label"), T.Str("t1")), T.binop("Lt", f("weight"), T.Int(1))]
    return out


def nonnull_body_atoms(var, table):
    """lambda bodies over NON-NULL child columns (quantifier of C04)"""
    def f(name):
        return P(var, name)
    if table == "Post":
        return [T.binop("Gt", f("score"), T.Int(1)), T.binop("Eq", f("title"), T.Str("t0")), T.binop("NotEq", f("score"), T.Int(0)),
                # ordering comparisons whose bound IS a stored value (the complement of >= is <, not <=)
                T.binop("GtE", f("score"), T.Int(2)), T.binop("Lt", T.Int(0), f("score"))]
    if table == "Comment":
        return [T.binop("Gt", f("score"), T.Int(1)), T.binop("Eq", f("text"), T.Str("c0")), f("flag"), T.unop("Not", f("flag")),
                T.binop("Eq", f("flag"), T.Bool(True)), T.binop("GtE", f("score"), T.Int(2)), T.binop("LtE", f("score"), T.Int(0)),
                T.binop("Lt", f("score"), T.Int(2))]
    if table == "Blog":
        return [T.binop("Eq", f("title"), T.Str("b1")), T.binop("NotEq", f("title"), T.Str("b0"))]
    if table == "Tag":
        return [T.binop("Eq", f("weight"), T.Int(2)), T.binop("Eq", f("label"), T.Str("t1")), T.binop("LtE", f("weight"), T.Int(0))]
    if table == "Person":
        return [T.binop("Eq", f("name"), T.Str("p1"))]
    if table == "City":
        return [T.binop("Eq", f("name"), T.Str("c1"))]
    return []


def to_one_paths(table, maxdepth=3):
    """[(segments tuple, target table)] for to-one chains from `table`"""
    out = []

    def rec(prefix, tbl, d):
        if d == maxdepth:
            return
        for rel, tgt in SCHEMA[tbl]["one"].items():
            out.append((prefix + (rel,), tgt))
            rec(prefix + (rel,), tgt, d + 1)
    rec((), table, 0)
    return out


def _rename_var(t, old, new):
    return T.replace(t, lambda n: T.I(new) if n == T.I(old) else n)


def lambda_atoms(root, allow_body_nav=False):
    """collection atoms for `root`: direct and through to-one prefixes, nesting <= 2"""
    out = []
    prefixes = [((), root)] + [(p, t) for p, t in to_one_paths(root, 2)]
    for prefix, tbl in prefixes:
        for rel, (ct, _) in SCHEMA[tbl]["many"].items():
            owner = P(*(prefix + (rel,))) if prefix else T.I(rel)
            out.append(("any0", T.lam(owner, "Any")))
            for body in nonnull_body_atoms("x", ct):
                out.append(("any", T.lam(owner, "Any", "x", body)))
                out.append(("all", T.lam(owner, "All", "x", body)))
            bodies = nonnull_body_atoms("x", ct)
            if len(bodies) >= 2:
                out.append(("any-and", T.lam(owner, "Any", "x", T.binop("And", bodies[0], T.unop("Not", bodies[1])))))
                out.append(("all-or", T.lam(owner, "All", "x", T.binop("Or", bodies[0], bodies[1]))))
            # nesting depth 2
            if not prefix:
                for rel2, (ct2, _) in SCHEMA[ct]["many"].items():
                    inner_owner = P("x", rel2)
                    for b2 in nonnull_body_atoms("y", ct2)[:2]:
                        out.append(("any-any", T.lam(owner, "Any", "x", T.lam(inner_owner, "Any", "y", b2))))
                        out.append(("all-any", T.lam(owner, "All", "x", T.lam(inner_owner, "Any", "y", b2))))
                        out.append(("any-all", T.lam(owner, "Any", "x", T.lam(inner_owner, "All", "y", b2))))
                    out.append(("all-any0", T.lam(owner, "All", "x", T.lam(inner_owner, "Any"))))
                    out.append(("any-notany0", T.lam(owner, "Any", "x", T.unop("Not", T.lam(inner_owner, "Any")))))
            # the lambda variable is called like the column / relationship its body reads (`comments/any(score: score/score gt 1)`)
            if not prefix:
                for body in bodies[:2]:
                    cols = [st[2] for st in T.subterms(body) if st[0] == "Attribute" and st[1] == T.I("x")]
                    if cols:
                        out.append(("any-samename", T.lam(owner, "Any", cols[0], _rename_var(body, "x", cols[0]))))
                        out.append(("all-samename", T.lam(owner, "All", cols[0], _rename_var(body, "x", cols[0]))))
            if allow_body_nav:
                for rel1, tgt in SCHEMA[ct]["one"].items():
                    for b in scalar_atoms(("x", rel1), tgt)[:2]:
                        out.append(("any-bodynav", T.lam(owner, "Any", "x", b)))
                    for b in scalar_atoms(("x", rel1), tgt)[:1]:
                        out.append(("any-bodynav", T.lam(owner, "Any", rel1, _rename_var(b, "x", rel1))))
    return out


def path_atoms(root):
    out = []
    for segs, tgt in to_one_paths(root, 3):
        for a in scalar_atoms(segs, tgt):
            out.append(("path%d" % len(segs), a))
    return out


def plain_atoms(root):
    return [("plain", a) for a in scalar_atoms((), root)]


def compositions(atoms_a, atoms_b, limit_pairs=None):
    """and/or/not compositions of two atoms"""
    out = []
    for (ka, a), (kb, b) in product(atoms_a, atoms_b):
        out.append((ka + "&" + kb, T.binop("And", a, b)))
        out.append((ka + "|" + kb, T.binop("Or", a, b)))
        out.append(("!" + ka + "&" + kb, T.binop("And", T.unop("Not", a), b)))
        out.append((ka + "|!" + kb, T.binop("Or", a, T.unop("Not", b))))
    return out
