"""E-HIST scheduler: stateless exploration of all interleavings of cooperative
tasks (greenlets) up to a preemption bound.

Tasks call `sched.point()` at every interleaving point (here: before every
token pull).  The scheduler enumerates choice sequences exactly as in
iterative context bounding: replay a prefix, then always take choice 0
(= keep running the current task if it is still enabled, else the lowest id);
alternatives at later points are explored recursively while the preemption
budget lasts.  A divergence while replaying a prefix is a hard error.
"""
from greenlet import greenlet


class Divergence(Exception):
    pass


class Execution:
    def __init__(self):
        self.points = []     # list of (enabled tuple in canonical order, running_still_enabled)
        self.choices = []    # index into enabled at each point
        self.order = []      # task id chosen at each point
        self.results = {}

    def preemptions_before(self, i):
        n = 0
        for (en, rse), c in zip(self.points[:i], self.choices[:i]):
            if rse and c != 0:
                n += 1
        return n


class Scheduler:
    def __init__(self):
        self.main = None

    def point(self):
        """called inside a task: yield to the scheduler"""
        self.main.switch()

    def run(self, task_factories, prefix):
        """task_factories: list of callables f(sched) -> result (run inside a
        greenlet). Returns Execution."""
        x = Execution()
        self.main = greenlet.getcurrent()
        results = x.results
        glets = []
        for tid, f in enumerate(task_factories):
            def body(f=f, tid=tid):
                try:
                    results[tid] = ("ok", f(self))
                except BaseException as e:  # noqa
                    if isinstance(e, (KeyboardInterrupt, SystemExit, greenlet.GreenletExit)):
                        raise
                    results[tid] = ("exc", e)
            glets.append(greenlet(body))
        current = None
        step = 0
        while True:
            alive = [i for i, g in enumerate(glets) if not g.dead]
            if not alive:
                break
            rse = current is not None and current in alive
            enabled = ([current] if rse else []) + [i for i in alive if i != current or not rse]
            enabled = tuple(enabled)
            if step < len(prefix):
                c = prefix[step]
                if c >= len(enabled):
                    raise Divergence("choice %d out of range at step %d (enabled=%r)" % (c, step, enabled))
            else:
                c = 0
            x.points.append((enabled, rse))
            x.choices.append(c)
            tid = enabled[c]
            x.order.append(tid)
            current = tid
            glets[tid].switch()
            step += 1
        return x


def explore(task_factories_fn, bound, on_execution, max_executions=None):
    """task_factories_fn() -> fresh list of task factories (fresh objects per
    execution). bound: max preemptions (None = unbounded: all schedules).
    on_execution(execution). Returns number of executions."""
    count = [0]
    sched = Scheduler()

    def rec(prefix):
        if max_executions is not None and count[0] >= max_executions:
            return
        x = sched.run(task_factories_fn(), prefix)
        if list(x.choices[:len(prefix)]) != list(prefix):
            raise Divergence("replayed prefix diverged")
        count[0] += 1
        on_execution(x)
        for i in range(len(prefix), len(x.points)):
            enabled, rse = x.points[i]
            cost = x.preemptions_before(i)
            for alt in range(1, len(enabled)):
                c = cost + (1 if rse else 0)
                if bound is not None and c > bound:
                    continue
                rec(list(x.choices[:i]) + [alt])

    rec([])
    return count[0]
