"""R-SUBST: reference alias substitution (scoping-aware), re-rooting of paths
and depth-first field-order traversal, on neutral terms.  Written from the
property statements C14 / C16 / C17, not from the library code."""
from . import terms as T


def root_of(t):
    while t[0] == "Attribute":
        t = t[1]
    return t


def substitute(t, mapping, bound=frozenset()):
    """mapping: {neutral key term (Identifier or Attribute path): neutral target term}.
    Field references only: not function names, not named-parameter names, not
    lambda-bound variables (neither their declaration nor paths rooted at them)."""
    if t is None or isinstance(t, str):
        return t
    k = t[0]
    if k == "[]":
        return ("[]",) + tuple(substitute(e, mapping, bound) for e in t[1:])
    if k == "()":
        return t
    if k == "Identifier":
        if t[2] == ("()",) and t[1] in bound:
            return t
        return mapping.get(t, t)
    if k == "Attribute":
        r = root_of(t)
        if r[0] == "Identifier" and r[2] == ("()",) and r[1] in bound:
            return t
        if t in mapping:
            return mapping[t]
        return ("Attribute", substitute(t[1], mapping, bound), t[2])
    if k == "Call":
        return ("Call", t[1], substitute(t[2], mapping, bound))
    if k == "NamedParam":
        return ("NamedParam", t[1], substitute(t[2], mapping, bound))
    if k == "CollectionLambda":
        owner = substitute(t[1], mapping, bound)
        lam = t[3]
        if lam is not None:
            var = lam[1]
            b2 = bound | {var[1]} if var[2] == ("()",) else bound
            lam = ("Lambda", var, substitute(lam[2], mapping, b2))
        return ("CollectionLambda", owner, t[2], lam)
    return (k,) + tuple(substitute(f, mapping, bound) if isinstance(f, tuple) else f for f in t[1:])


def reroot(t, var):
    """expression relative to identifier `var` (a neutral Identifier term):
    every path rooted at var loses that root; everything else is unchanged."""
    if t is None or isinstance(t, str):
        return t
    k = t[0]
    if k == "[]":
        return ("[]",) + tuple(reroot(e, var) for e in t[1:])
    if k == "()":
        return t
    if k == "Attribute":
        if t[1] == var:
            # the segment as the parser would read it on its own: a qualified segment `ns.a` is the name `a` in namespace `ns`
            parts = t[2].split(".")
            return T.I(parts[-1], tuple(parts[:-1]))
        if t[1][0] == "Attribute":
            return ("Attribute", reroot(t[1], var), t[2])
        return t
    return (k,) + tuple(reroot(f, var) if isinstance(f, tuple) else f for f in t[1:])


def mentions(t, var):
    """does any path rooted at var occur in t?"""
    for s in T.subterms(t):
        if s[0] == "Attribute" and s[1] == var:
            return True
    return False


def traversal(t):
    """depth-first, field-order sequence of node terms as NodeVisitor must see them"""
    out = []

    def rec(n):
        out.append(n)
        for f in n[1:]:
            if isinstance(f, tuple) and f:
                if f[0] == "[]":
                    for e in f[1:]:
                        if isinstance(e, tuple) and e and e[0] not in ("[]", "()"):
                            rec(e)
                elif f[0] == "()":
                    continue
                else:
                    rec(f)
    rec(t)
    return out
