"""Reference parser over *token sequences* (independent of SLY).

Recursive descent + precedence climbing with the OData 4.01 §5.1.1.14 table
(refprint.PREC) and the library's documented surface grammar (README/docs:
python-style singleton lists, `ns.f(name=value)` named parameters,
`coll/any(x: …)`).  Input: list of (type, neutral_value) pairs as produced by
lrx.ALPHABET; output: neutral term, or raises RefReject / RefFunctionError.

It is used as an oracle for *grouping* (C05) and for the function table
(C11); acceptance differences in whitespace placement are reported by the
callers as informational counters, never as grouping violations.
"""
from . import terms as T
from .refprint import PREC

# The OData built-in function table, pinned here from the OData 4.01 URL
# conventions §5.1.1.5-§5.1.1.13 (as far as the library claims to list them).
REF_FUNCTIONS = {
    "concat": (2, 2), "contains": (2, 2), "endswith": (2, 2), "indexof": (2, 2),
    "length": (1, 1), "startswith": (2, 2), "substring": (2, 3), "matchesPattern": (2, 2),
    "tolower": (1, 1), "toupper": (1, 1), "trim": (1, 1),
    "year": (1, 1), "month": (1, 1), "day": (1, 1), "hour": (1, 1), "minute": (1, 1),
    "second": (1, 1), "fractionalseconds": (1, 1), "totalseconds": (1, 1), "date": (1, 1),
    "time": (1, 1), "totaloffsetminutes": (1, 1), "mindatetime": (0, 0), "maxdatetime": (0, 0),
    "now": (0, 0), "round": (1, 1), "floor": (1, 1), "ceiling": (1, 1),
    "geo.distance": (2, 2), "geo.length": (1, 1), "geo.intersects": (2, 2),
    "hassubset": (2, 2), "hassubsequence": (2, 2),
}

BINARY_TOK = {
    "OR": "Or", "AND": "And", "EQ": "Eq", "NE": "NotEq", "LT": "Lt", "LE": "LtE", "GT": "Gt",
    "GE": "GtE", "ADD": "Add", "SUB": "Sub", "MUL": "Mult", "DIV": "Div", "MOD": "Mod", "IN": "In",
}
LITERAL_TOK = {"NULL", "INTEGER", "DECIMAL", "STRING", "GEOGRAPHY", "BOOLEAN", "GUID", "DATE",
               "TIME", "DATETIME", "DURATION"}


class RefReject(Exception):
    pass


class RefFunctionError(Exception):
    def __init__(self, kind, name, lo=None, hi=None, given=None):
        super().__init__(kind, name, lo, hi, given)
        self.kind, self.name, self.lo, self.hi, self.given = kind, name, lo, hi, given


def check_call(ident, args):
    """returns None if accepted, else RefFunctionError"""
    ns = ident[2][1:]
    full = ".".join(ns + (ident[1],))
    if ns in ((), ("geo",)):
        if full not in REF_FUNCTIONS:
            return RefFunctionError("unknown", full)
        lo, hi = REF_FUNCTIONS[full]
        if not (lo <= len(args) <= hi):
            return RefFunctionError("argcount", full, lo, hi, len(args))
    return None


class P:
    def __init__(self, toks):
        self.toks = toks
        self.i = 0
        self.func_errors = []   # in reduction (post-)order; raised only if the syntax is fine

    def peek(self, k=0):
        j = self.i + k
        return self.toks[j][0] if j < len(self.toks) else "$end"

    def next(self):
        t = self.toks[self.i]
        self.i += 1
        return t

    def expect(self, typ):
        if self.peek() != typ:
            raise RefReject("expected %s at %d, got %s" % (typ, self.i, self.peek()))
        return self.next()

    def bws(self):
        if self.peek() == "WS":
            self.next()

    # ------------------------------------------------------------------
    def parse(self):
        t = self.expr(0)
        if self.peek() != "$end":
            raise RefReject("trailing input at %d" % self.i)
        if self.func_errors:
            raise self.func_errors[0]
        return t

    def expr(self, minp):
        typ = self.peek()
        if typ == "UMINUS":
            self.next()
            self.bws()
            left = T.unop("USub", self.expr(PREC["USub"]))
        elif typ == "NOT":
            self.next()
            left = T.unop("Not", self.expr(PREC["Not"]))
        else:
            left = self.primary()
        while True:
            typ = self.peek()
            op = BINARY_TOK.get(typ)
            if op is None or PREC[op] < minp:
                return left
            self.next()
            if op == "In":
                right = self.paren_or_list(must_be_list=True)
            else:
                right = self.expr(PREC[op] + 1)
            left = T.binop(op, left, right)

    def primary(self):
        typ = self.peek()
        if typ in LITERAL_TOK:
            return self.next()[1]
        if typ == "(":
            return self.paren_or_list()
        if typ == "ODATA_IDENTIFIER":
            ident = self.next()[1]
            nxt = self.peek()
            if nxt == "(":
                return self.call(ident)
            if nxt == "/":
                return self.path(ident)
            return ident
        raise RefReject("unexpected %s at %d" % (typ, self.i))

    def paren_or_list(self, must_be_list=False):
        self.expect("(")
        self.bws()
        first = self.expr(0)
        self.bws()
        if self.peek() == ")":
            self.next()
            if must_be_list:
                raise RefReject("list required")
            return first
        items = [first]
        self.expect(",")
        self.bws()
        if self.peek() == ")":
            self.next()
            return T.lst(*items)
        while True:
            items.append(self.expr(0))
            self.bws()
            if self.peek() == ")":
                self.next()
                return T.lst(*items)
            self.expect(",")
            self.bws()

    def call(self, ident):
        # ID "(" ")"  |  ID "(" BWS expr BWS ")"  |  ID list_expr
        # ID "(" BWS named {BWS "," BWS named} BWS ")"
        if self.peek(1) == ")" or (self.peek(1) == "WS" and self.peek(2) == ")"):
            self.next()
            self.bws()
            self.next()
            return self.mkcall(ident, [])
        save = self.i
        self.next()
        self.bws()
        if self.peek() == "ODATA_IDENTIFIER" and self.peek(1) == "=":
            args = [self.named()]
            self.bws()
            while self.peek() == ",":
                self.next()
                self.bws()
                args.append(self.named())
                self.bws()
            self.expect(")")
            return self.mkcall(ident, args)
        self.i = save
        inner = self.paren_or_list()
        if inner[0] == "List" and self._last_was_list:
            return self.mkcall(ident, list(inner[1][1:]))
        return self.mkcall(ident, [inner])

    def named(self):
        name = self.expect("ODATA_IDENTIFIER")[1]
        self.expect("=")
        return ("NamedParam", name, self.expr(0))

    def mkcall(self, ident, args):
        err = check_call(ident, args)
        if err:
            self.func_errors.append(err)
        return ("Call", ident, ("[]",) + tuple(args))

    def path(self, ident):
        # ident ("/" ident)* [ "/" any/all "(" … ")" ]
        owner = ident
        while self.peek() == "/":
            self.next()
            typ = self.peek()
            if typ == "ODATA_IDENTIFIER":
                seg = self.next()[1]
                # an inner segment keeps its qualified name as written (ns.b)
                owner = T.A(owner, ".".join(seg[2][1:] + (seg[1],)))
            elif typ in ("ANY", "ALL"):
                op = "Any" if self.next()[0] == "ANY" else "All"
                self.expect("(")
                self.bws()
                if self.peek() == ")":
                    if op == "All":
                        raise RefReject("all() needs a lambda")
                    self.next()
                    return ("CollectionLambda", owner, (op,), None)
                var = self.expect("ODATA_IDENTIFIER")[1]
                self.bws()
                self.expect(":")
                self.bws()
                body = self.expr(0)
                self.bws()
                self.expect(")")
                return ("CollectionLambda", owner, (op,), ("Lambda", var, body))
            else:
                raise RefReject("bad path segment %s" % typ)
        return owner


# paren_or_list must tell a parenthesised *List value* `((1,2))` from a list
# written here; patch in a tiny flag without complicating the grammar code.
_orig = P.paren_or_list


def _wrapped(self, must_be_list=False):
    start = self.i
    r = _orig(self, must_be_list)
    # it was written as a list here iff the closing form had a comma at depth 0
    depth = 0
    had_comma = False
    for typ, _ in self.toks[start:self.i]:
        if typ == "(":
            depth += 1
        elif typ == ")":
            depth -= 1
        elif typ == "," and depth == 1:
            had_comma = True
    self._last_was_list = had_comma
    return r


P.paren_or_list = _wrapped


def ref_parse(toks):
    return P(list(toks)).parse()
