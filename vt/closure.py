"""E-CLOSE: constructor closure over abstract AST shapes.

state      = beta(AST) (abstract shape) with up to W distinct witness *texts*
transition = one grammar construct applied to witness texts, parsed by the
             real lexer+parser
fixpoint   = no new abstract state appears

Soundness of beta is checked at run time (multi-witness rule): a constructor
applied to different witnesses of the same abstract state(s) must give the
same outcome class and the same abstract successor; otherwise the run reports
an abstraction failure (a harness error, never silently merged).
"""
from itertools import product

from odata_query import ast, exceptions
from odata_query.grammar import ODATA_FUNCTIONS, ODataLexer, ODataParser

W = 3  # witnesses kept per abstract state


def beta(v):
    """abstract shape of a parse result"""
    if isinstance(v, ast.Identifier):
        nsc = "none" if v.namespace == () else "geo" if v.namespace == ("geo",) else "other"
        return ("Identifier", nsc)
    if isinstance(v, ast.Attribute):
        return ("Attribute", type(v.owner).__name__)
    if isinstance(v, ast.CollectionLambda):
        return ("CollectionLambda", type(v.owner).__name__, type(v.operator).__name__, v.lambda_ is not None)
    if isinstance(v, ast.List):
        return ("List", min(len(v.val), 4))
    if isinstance(v, ast.Call):
        return ("Call", min(len(v.args), 4), any(isinstance(a, ast.NamedParam) for a in v.args))
    if isinstance(v, ast._Literal):
        return ("Literal",)
    if isinstance(v, ast._Node):
        return (type(v).__name__,)
    return ("<non-node>", type(v).__name__)


def outcome(lexer, parser, text):
    try:
        r = parser.parse(lexer.tokenize(text))
    except exceptions.ODataException as e:
        return ("lib:" + type(e).__name__, None)
    except RecursionError:
        return ("foreign:RecursionError", None)
    except Exception as e:  # noqa
        return ("foreign:" + type(e).__name__, None)
    if not isinstance(r, ast._Node):
        return ("non-node:" + type(r).__name__, None)
    from .decode import malformed
    bad = malformed(r)
    if bad:
        return ("non-node:malformed AST (" + bad + ")", None)
    return ("node", beta(r))


BINOPS = ["or", "and", "eq", "ne", "lt", "le", "gt", "ge", "add", "sub", "mul", "div", "mod"]
HEADS = ["now", "length", "concat", "substring", "contains", "geo.length", "geo.distance", "ns.f", "n1.n2.g",
         "geo.zz", "zz", "Length"]


def constructors():
    """(name, arity, fn(*witness_texts) -> text). Operands are used bare AND
    parenthesised so that both the intended production and the precedence
    machinery are exercised."""
    C = []
    C.append(("paren", 1, lambda a: "(" + a + ")"))
    C.append(("paren-ws", 1, lambda a: "( " + a + " )"))
    C.append(("not", 1, lambda a: "not " + a))
    C.append(("not-paren", 1, lambda a: "not (" + a + ")"))
    C.append(("neg", 1, lambda a: "-" + a))
    C.append(("neg-ws", 1, lambda a: "- (" + a + ")"))
    for op in BINOPS:
        C.append(("bin:" + op, 2, lambda a, b, op=op: "(%s) %s (%s)" % (a, op, b)))
    C.append(("bin-bare:add", 2, lambda a, b: "%s add %s" % (a, b)))
    C.append(("bin-bare:and", 2, lambda a, b: "%s and %s" % (a, b)))
    C.append(("bin-bare:eq", 2, lambda a, b: "%s eq %s" % (a, b)))
    C.append(("in", 2, lambda a, b: "%s in (%s, 1)" % (a, b)))
    C.append(("in-bare-right", 2, lambda a, b: "%s in %s" % (a, b)))
    C.append(("list1", 1, lambda a: "(" + a + ",)"))
    C.append(("list2", 2, lambda a, b: "(%s, %s)" % (a, b)))
    C.append(("list3", 2, lambda a, b: "(%s, %s, %s)" % (a, b, a)))
    C.append(("list4", 2, lambda a, b: "(%s,%s , %s ,%s)" % (a, b, b, a)))
    for h in HEADS:
        C.append(("call0:" + h, 0, lambda h=h: h + "()"))
        C.append(("call1:" + h, 1, lambda a, h=h: "%s(%s)" % (h, a)))
        C.append(("call2:" + h, 2, lambda a, b, h=h: "%s(%s, %s)" % (h, a, b)))
        C.append(("call3:" + h, 2, lambda a, b, h=h: "%s(%s, %s, %s)" % (h, a, b, a)))
        C.append(("call4:" + h, 2, lambda a, b, h=h: "%s(%s, %s, %s, %s)" % (h, a, b, a, b)))
        C.append(("call-list:" + h, 1, lambda a, h=h: "%s %s" % (h, a)))
        C.append(("call-glued:" + h, 1, lambda a, h=h: "%s%s" % (h, a)))
    for h in ("ns.f", "length", "geo.length"):
        C.append(("named1:" + h, 1, lambda a, h=h: "%s(p=%s)" % (h, a)))
        C.append(("named2:" + h, 2, lambda a, b, h=h: "%s(p=%s, q=%s)" % (h, a, b)))
        C.append(("named3:" + h, 2, lambda a, b, h=h: "%s(p=%s, q=%s, r=%s)" % (h, a, b, a)))
        C.append(("named4:" + h, 2, lambda a, b, h=h: "%s(p=%s,q=%s , r=%s ,s=%s)" % (h, a, b, a, b)))
        C.append(("named5:" + h, 2, lambda a, b, h=h: "%s(p=%s, q=%s, r=%s, s=%s, t=%s)" % (h, a, b, a, b, a)))
        C.append(("mixed-pn:" + h, 2, lambda a, b, h=h: "%s(%s, q=%s)" % (h, a, b)))
        C.append(("mixed-np:" + h, 2, lambda a, b, h=h: "%s(p=%s, %s)" % (h, a, b)))
    C.append(("named-bare", 1, lambda a: "p=" + a))
    for pre in ("a/", "a/b/", "ns.a/", "a/b/c/d/"):
        C.append(("path:" + pre, 1, lambda a, pre=pre: pre + a))
    C.append(("path-suffix", 1, lambda a: a + "/z"))
    C.append(("path-suffix-any", 1, lambda a: a + "/any()"))
    C.append(("path-suffix-all", 1, lambda a: a + "/all()"))
    for op in ("any", "all"):
        for own in ("xs", "a/xs", "a/b/xs", "a/b/c/xs"):
            C.append(("lam:%s:%s" % (op, own), 1, lambda a, op=op, own=own: "%s/%s(x: %s)" % (own, op, a)))
            C.append(("lam-tight:%s:%s" % (op, own), 1, lambda a, op=op, own=own: "%s/%s(x:%s)" % (own, op, a)))
        C.append(("lam-suffix:" + op, 2, lambda a, b, op=op: "%s/%s(x: %s)" % (a, op, b)))
        C.append(("lam-novar:" + op, 1, lambda a, op=op: "xs/%s(%s)" % (op, a)))
    C.append(("lambda-bare", 1, lambda a: "x: " + a))
    C.append(("juxtapose", 2, lambda a, b: a + " " + b))
    C.append(("glue", 2, lambda a, b: a + b))
    C.append(("comma", 2, lambda a, b: a + ", " + b))
    return C


SEEDS = ["a", "ns.a", "geo.a", "1", "1.5", "'s'", "null", "true", "2020-02-29", "10:30:00", "2020-02-29T10:30:00Z",
         "duration'P1D'", "geography'POINT(1 2)'", "123e4567-e89b-12d3-a456-426614174000", "a/b", "xs/any()",
         "length", "now", "ns.f", "any", "all", "not", "in", "eq"]


_G = {}


def _work(chunk):
    """worker: chunk of (constructor index, combo) -> list of (cidx, combo, [(text, oc), ...])"""
    lexer, parser = ODataLexer(), ODataParser()
    cons, states = _G["cons"], _G["states"]
    out = []
    for ci, combo in chunk:
        name, ar, fn = cons[ci]
        wit_lists = [states[k] for k in combo]
        n = max([len(w) for w in wit_lists] or [1])
        res = []
        for i in range(n):
            args = [w[(i + j) % len(w)] for j, w in enumerate(wit_lists)]
            text = fn(*args)
            if len(text) > 400:
                continue
            oc = outcome(ODataLexer(), ODataParser(), text)       # fresh instances: the reference outcome
            oc_shared = outcome(lexer, parser, text)              # instances reused across this worker's whole chunk
            if oc_shared != oc:
                oc = ("non-node:history-dependent outcome (fresh %s, reused %s)" % (oc[0], oc_shared[0]), None)
            res.append((text, oc))
        out.append((ci, combo, res))
    return out


def explore(ctx, max_rounds=6, time_frac=0.85):
    """returns stats dict; records executions / violations into ctx"""
    import multiprocessing as mp
    import os
    lexer, parser = ODataLexer(), ODataParser()
    states = {}     # beta -> [witness texts]
    cons = constructors()
    executions = 0
    abstraction_failures = []

    def add(text, oc):
        kind, b = oc
        if kind != "node":
            return False
        ws = states.setdefault(b, [])
        if text not in ws and len(ws) < W:
            ws.append(text)
            return len(ws) == 1
        return False

    for s in SEEDS:
        oc = outcome(lexer, parser, s)
        executions += 1
        _judge(ctx, s, oc, "seed")
        add(s, oc)
    done = set()
    rounds = 0
    transitions = 0
    converged = False
    nproc = int(os.environ.get("VERIF_NPROC", "16"))
    while rounds < max_rounds:
        rounds += 1
        if ctx.time_left() < ctx.budget * (1 - time_frac):
            break
        keys = sorted(states, key=repr)
        work = []
        for ci, (name, ar, fn) in enumerate(cons):
            combos = [()] if ar == 0 else [(k,) for k in keys] if ar == 1 else list(product(keys, keys))
            for combo in combos:
                sig = (ci, combo, tuple(len(states[k]) for k in combo))
                if sig not in done:
                    done.add(sig)
                    work.append((ci, combo))
        _G["cons"], _G["states"] = cons, {k: list(v) for k, v in states.items()}
        chunks = [work[i::nproc * 4] for i in range(nproc * 4)]
        chunks = [c for c in chunks if c]
        new_states = 0
        with mp.get_context("fork").Pool(min(nproc, max(1, len(chunks)))) as pool:
            for part in pool.imap(_work, chunks):
                for ci, combo, res in part:
                    name = cons[ci][0]
                    results = set()
                    for text, oc in res:
                        executions += 1
                        transitions += 1
                        _judge(ctx, text, oc, name)
                        if not oc[0].startswith("non-node:history-dependent"):
                            results.add(oc)
                        if add(text, oc):
                            new_states += 1
                    if len(results) > 1 and _strict(name):
                        abstraction_failures.append({"constructor": name, "states": [repr(k) for k in combo],
                                                     "results": sorted(map(repr, results))})
        if not new_states:
            converged = True
            break
    ctx.count("executions", executions)
    ctx.count("transitions", transitions)
    ctx.count("states", len(states))
    return {"rounds": rounds, "converged": converged, "abstract_states": len(states),
            "constructors": len(cons), "abstraction_failures": abstraction_failures[:10],
            "n_abstraction_failures": len(abstraction_failures),
            "witnesses": {repr(k): v for k, v in list(states.items())[:60]}}


STRICT_PREFIXES = ("paren", "not-paren", "neg-ws", "bin:", "list", "call1:", "call2:", "call3:", "call4:",
                   "named1:", "named2:", "named3:", "named4:", "named5:", "lam:", "lam-tight:")


def _strict(name):
    """constructors whose operands sit in expression slots inside brackets:
    only for these must all witnesses of an abstract state behave alike
    (bare juxtapositions legitimately depend on the operand's top operator)"""
    return name.startswith(STRICT_PREFIXES)


def _judge(ctx, text, oc, via):
    kind = oc[0]
    ctx.outcome(kind)
    if kind.startswith("foreign") or kind.startswith("non-node"):
        ctx.violation("closure:%s:%s" % (kind, via.split(":")[0]), {"layer": "closure", "text": text, "outcome": kind, "via": via},
                      finding=None)
