"""R-EVAL: three-valued reference evaluator for the scalar fragment.

Values: int, float, str, bool, datetime (aware, UTC), date, None (= null /
unknown), UNDEF (outside the agreed semantics, see DESIGN.md section 2.7 and
Appendix B).  Evaluation is vectorised over the rows of one table and
memoised per (term, table) so that enumerated terms reuse their sub-terms.

`mode` is a frozenset of *defect models* - alternative semantics used only to
attribute an observed mismatch to one specific catalogued finding (the
default, empty set, is the OData semantics):
   'round-trunc-half'     round(x) = trunc(x + 0.5)              (SQLite dialect)
   'like-field-wildcards' %, _ in a non-literal pattern argument act as LIKE wildcards
   'like-all-wildcards'   %, _ in any pattern argument act as LIKE wildcards  (SQLAlchemy backends)
   'int-true-div'         Int div Int is true division                        (SQLAlchemy backends)
"""
import datetime as dt
import math
import re


class _Undef:
    def __repr__(self):
        return "UNDEF"


UNDEF = _Undef()
UTC = dt.timezone.utc
NOW_VALUE = None  # set by the harness once per run (truncated to the second)


def parse_dt(s):
    m = re.fullmatch(r"(\d{4})-(\d\d)-(\d\d)[Tt](\d\d):(\d\d)(?::(\d\d)(\.\d+)?)?(Z|z|[+-]\d\d:\d\d)?", s)
    y, mo, d, h, mi, sec, frac, off = m.groups()
    if frac and frac.strip(".0"):
        return UNDEF  # sub-second literals against second-resolution columns
    v = dt.datetime(int(y), int(mo), int(d), int(h), int(mi), int(sec or 0))
    if off and off not in "Zz":
        sign = 1 if off[0] == "+" else -1
        v -= sign * dt.timedelta(hours=int(off[1:3]), minutes=int(off[4:6]))
    return v.replace(tzinfo=UTC)


def lit_value(t):
    k = t[0]
    if k == "Null":
        return None
    if k == "Integer":
        return int(t[1])
    if k == "Float":
        return float(t[1])
    if k == "Boolean":
        return t[1].lower() == "true"
    if k == "String":
        return t[1]
    if k == "DateTime":
        return parse_dt(t[1])
    if k == "Date":
        return dt.date.fromisoformat(t[1])
    if k == "Time":
        return dt.time.fromisoformat(t[1])
    raise KeyError(k)


def _num(a):
    return isinstance(a, (int, float)) and not isinstance(a, bool)


def _cmp(op, a, b):
    if a is UNDEF or b is UNDEF:
        return UNDEF
    if a is None or b is None:
        return None
    if isinstance(a, bool) != isinstance(b, bool):
        return UNDEF
    if type(a) is not type(b) and not (_num(a) and _num(b)):
        return UNDEF
    if isinstance(a, bool) and op not in ("Eq", "NotEq"):
        return UNDEF
    if op == "Eq":
        return a == b
    if op == "NotEq":
        return a != b
    if op == "Lt":
        return a < b
    if op == "LtE":
        return a <= b
    if op == "Gt":
        return a > b
    if op == "GtE":
        return a >= b
    raise KeyError(op)


def _arith(op, a, b, true_div=False):
    if a is UNDEF or b is UNDEF:
        return UNDEF
    if a is None or b is None:
        return None
    if op == "Add" and isinstance(a, str) and isinstance(b, str):
        # `add` between two strings concatenates, left operand first (pinned by the library's own tests: 'donut' add 'tello')
        return a + b
    if not (_num(a) and _num(b)):
        return UNDEF
    if op == "Add":
        return a + b
    if op == "Sub":
        return a - b
    if op == "Mult":
        return a * b
    if op == "Div":
        if b == 0:
            return UNDEF
        if isinstance(a, int) and isinstance(b, int) and not true_div:
            q = abs(a) // abs(b)
            return q if (a >= 0) == (b >= 0) else -q
        return a / b
    if op == "Mod":
        if not (isinstance(a, int) and isinstance(b, int)) or b == 0:
            return UNDEF
        return int(math.fmod(a, b))
    raise KeyError(op)


def _and(a, b):
    if a is UNDEF or b is UNDEF:
        return UNDEF
    if a is False or b is False:
        return False
    if a is None or b is None:
        return None
    return True


def _or(a, b):
    if a is UNDEF or b is UNDEF:
        return UNDEF
    if a is True or b is True:
        return True
    if a is None or b is None:
        return None
    return False


def _ascii_only_letters(s):
    return all(ord(c) < 128 for c in s)


def _like_wild(pattern_val, anchored_start, anchored_end):
    rx = "".join(".*" if c == "%" else "." if c == "_" else re.escape(c) for c in pattern_val)
    # \A / \Z, not ^ / $: "$" would also match before a trailing newline
    return re.compile(("\\A" if anchored_start else "\\A.*") + rx + ("\\Z" if anchored_end else ".*\\Z"), re.S)


def _round_half_away(x):
    return float(math.floor(abs(x) + 0.5)) * (1 if x >= 0 else -1)


class Evaluator:
    def __init__(self, mode=frozenset(), max_memo=200000):
        self.mode = frozenset(mode)
        self.memo = {}
        self.max_memo = max_memo

    def eval(self, term, rows, tkey):
        """-> list of values, one per row"""
        key = (term, tkey)
        r = self.memo.get(key)
        if r is None:
            if len(self.memo) > self.max_memo:
                self.memo.clear()
            r = self._eval(term, rows, tkey)
            self.memo[key] = r
        return r

    # ------------------------------------------------------------------
    def _eval(self, t, rows, tk):
        k = t[0]
        n = len(rows)
        if k == "Identifier":
            name = t[1]
            return [r[name] for r in rows]
        if k in ("Null", "Integer", "Float", "Boolean", "String", "DateTime", "Date", "Time"):
            v = lit_value(t)
            return [v] * n
        if k == "BinOp":
            a, b = self.eval(t[2], rows, tk), self.eval(t[3], rows, tk)
            op = t[1][0]
            td = "int-true-div" in self.mode
            return [_arith(op, x, y, td) for x, y in zip(a, b)]
        if k == "Compare":
            op = t[1][0]
            if op == "In":
                a = self.eval(t[2], rows, tk)
                item_vecs = [self.eval(e, rows, tk) for e in t[3][1][1:]]
                out = []
                for ri, x in enumerate(a):
                    if x is UNDEF:
                        out.append(UNDEF)
                    elif x is None:
                        out.append(None)
                    else:
                        res = False
                        for vec in item_vecs:
                            c = _cmp("Eq", x, vec[ri])
                            if c is UNDEF:
                                res = UNDEF
                                break
                            if c is None and res is False:
                                res = None      # SQL: x IN (.., NULL) is unknown unless some element matches
                            if c is True:
                                res = True
                                break
                        out.append(res)
                return out
            lnull, rnull = t[2][0] == "Null", t[3][0] == "Null"
            if (lnull or rnull) and op in ("Eq", "NotEq"):
                other = self.eval(t[3] if lnull else t[2], rows, tk)
                if lnull and rnull:
                    return [op == "Eq"] * n
                return [UNDEF if x is UNDEF else ((x is None) == (op == "Eq")) for x in other]
            a, b = self.eval(t[2], rows, tk), self.eval(t[3], rows, tk)
            return [_cmp(op, x, y) for x, y in zip(a, b)]
        if k == "BoolOp":
            a, b = self.eval(t[2], rows, tk), self.eval(t[3], rows, tk)
            f = _and if t[1][0] == "And" else _or
            return [f(x, y) for x, y in zip(a, b)]
        if k == "UnaryOp":
            a = self.eval(t[2], rows, tk)
            if t[1][0] == "Not":
                return [UNDEF if x is UNDEF else None if x is None else (not x) if isinstance(x, bool) else UNDEF for x in a]
            return [UNDEF if x is UNDEF else None if x is None else -x if _num(x) else UNDEF for x in a]
        if k == "Call":
            name = t[1][1]
            args = [self.eval(a, rows, tk) for a in t[2][1:]]
            fn = getattr(self, "f_" + name.lower())
            if name in ("contains", "startswith", "endswith"):
                lit = t[2][2][0] == "String"
                return [self._lift(fn, vals, lit) for vals in zip(*args)]
            if not args:
                return [fn()] * n
            return [self._lift(fn, vals) for vals in zip(*args)]
        raise KeyError("R-EVAL cannot evaluate %r" % (t,))

    @staticmethod
    def _lift(fn, vals, *extra):
        if any(v is UNDEF for v in vals):
            return UNDEF
        if any(v is None for v in vals):
            return UNDEF if getattr(fn, "null_undef", False) else None
        return fn(*vals, *extra)

    # ---- string functions ------------------------------------------------
    def _like(self, s, p, lit, a0, a1, plain):
        if not (isinstance(s, str) and isinstance(p, str)):
            return UNDEF
        if "like-all-wildcards" in self.mode or (not lit and "like-field-wildcards" in self.mode):
            return bool(_like_wild(p, a0, a1).match(s))
        return plain(s, p)

    def f_contains(self, s, p, lit=True):
        return self._like(s, p, lit, False, False, lambda s, p: p in s)

    def f_startswith(self, s, p, lit=True):
        return self._like(s, p, lit, True, False, lambda s, p: s.startswith(p))

    def f_endswith(self, s, p, lit=True):
        return self._like(s, p, lit, False, True, lambda s, p: s.endswith(p))

    def f_length(self, s):
        return len(s) if isinstance(s, str) else UNDEF

    def f_indexof(self, s, p):
        return s.find(p) if isinstance(s, str) and isinstance(p, str) else UNDEF

    def f_substring(self, s, i, n=None):
        if not isinstance(s, str) or not isinstance(i, int) or isinstance(i, bool) or i < 0:
            return UNDEF
        if n is None:
            return s[i:]
        if not isinstance(n, int) or n < 0:
            return UNDEF
        return s[i:i + n]

    def f_tolower(self, s):
        if not isinstance(s, str) or not _ascii_only_letters(s):
            return UNDEF
        return s.lower()

    def f_toupper(self, s):
        if not isinstance(s, str) or not _ascii_only_letters(s):
            return UNDEF
        return s.upper()

    def f_trim(self, s):
        if not isinstance(s, str) or any(c.isspace() and c != " " for c in s):
            return UNDEF
        return s.strip(" ")

    def f_concat(self, a, b):
        if not (isinstance(a, str) and isinstance(b, str)):
            return UNDEF
        return a + b
    f_concat.null_undef = True

    def f_matchespattern(self, s, p):
        try:
            return re.search(p, s) is not None
        except re.error:
            return UNDEF

    # ---- date functions -----------------------------------------------------
    def _dtpart(self, v, part):
        return getattr(v, part) if isinstance(v, dt.datetime) else UNDEF

    def f_year(self, v):
        return self._dtpart(v, "year")

    def f_month(self, v):
        return self._dtpart(v, "month")

    def f_day(self, v):
        return self._dtpart(v, "day")

    def f_hour(self, v):
        return self._dtpart(v, "hour")

    def f_minute(self, v):
        return self._dtpart(v, "minute")

    def f_second(self, v):
        return self._dtpart(v, "second")

    def f_date(self, v):
        return v.date() if isinstance(v, dt.datetime) else UNDEF

    def f_time(self, v):
        return v.time() if isinstance(v, dt.datetime) else UNDEF

    def f_now(self):
        return NOW_VALUE

    # ---- math -----------------------------------------------------------------
    def f_round(self, x):
        if not _num(x):
            return UNDEF
        if "round-trunc-half" in self.mode:
            return float(math.trunc(x + 0.5))
        return _round_half_away(x)

    def f_floor(self, x):
        return float(math.floor(x)) if _num(x) else UNDEF

    def f_ceiling(self, x):
        return float(math.ceil(x)) if _num(x) else UNDEF
