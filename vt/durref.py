"""Reference reading of duration literals and of SQL interval expressions.

duration_components(text): the OData literal body ([+-]PnYnMnDTnHnMnS) -> {UNIT: signed Fraction}, zero components dropped.
sql_interval_components(tokens): a token list (vt.sqllex) of a SQL interval expression
      dur  := ['-' | '+'] atom
      atom := INTERVAL '<n>' UNIT | '(' dur ('+' dur)* ')'
-> {UNIT: signed Fraction}.  Written from ISO 8601 / SQL-92, never calls library code."""
from fractions import Fraction

UNITS = {"Y": "YEAR", "D": "DAY", "H": "HOUR", "S": "SECOND"}


def duration_components(text):
    s = text.upper()
    sign = 1
    if s[:1] in "+-":
        sign = -1 if s[0] == "-" else 1
        s = s[1:]
    if not s.startswith("P"):
        raise ValueError(text)
    s = s[1:]
    date, _, time = s.partition("T")
    out = {}

    def eat(part, table):
        num = ""
        for ch in part:
            if ch.isdigit() or ch == ".":
                num += ch
            else:
                unit = table[ch]
                v = Fraction(num)
                num = ""
                if v:
                    out[unit] = out.get(unit, 0) + sign * v
        if num:
            raise ValueError(text)
    eat(date, {"Y": "YEAR", "M": "MONTH", "D": "DAY"})
    eat(time, {"H": "HOUR", "M": "MINUTE", "S": "SECOND"})
    return out


class IntervalSyntax(Exception):
    pass


def sql_interval_components(toks):
    pos = [0]

    def peek():
        return toks[pos[0]] if pos[0] < len(toks) else None

    def take():
        t = peek()
        if t is None:
            raise IntervalSyntax("unexpected end")
        pos[0] += 1
        return t

    def dur():
        sign = 1
        t = peek()
        while t is not None and t.text in ("-", "+"):
            if t.text == "-":
                sign = -sign
            take()
            t = peek()
        comp = atom()
        return {u: sign * v for u, v in comp.items()}

    def atom():
        t = take()
        if t.kind == "word" and t.text.upper() == "INTERVAL":
            lit = take()
            unit = take()
            if lit.kind != "str" or unit.kind != "word":
                raise IntervalSyntax("INTERVAL needs '<n>' UNIT")
            try:
                v = Fraction(lit.value)
            except (ValueError, ZeroDivisionError):
                raise IntervalSyntax("amount %r" % lit.value)
            return {unit.text.upper(): v}
        if t.text == "(":
            total = dict(dur())
            while peek() is not None and peek().text == "+":
                take()
                for u, v in dur().items():
                    total[u] = total.get(u, 0) + v
            if take().text != ")":
                raise IntervalSyntax("missing )")
            return total
        raise IntervalSyntax("unexpected %r" % t.text)
    out = dur()
    if pos[0] != len(toks):
        raise IntervalSyntax("trailing %r" % toks[pos[0]].text)
    return {u: v for u, v in out.items() if v}


# literal bodies: every non-empty subset shape that matters (single, pairs, all six), equal amounts in different units, signs,
# zero components, fractional seconds
DURATION_BODIES = (
    ["P1D", "PT1H", "PT1M", "P1M", "P1Y", "PT1S", "PT1.5S", "P1DT1H", "P1MT1M", "P2MT3M", "P7Y7M7DT7H7M7S", "P1Y2M3DT4H5M6S", "P1Y2M3DT4H5M6.5S",
     "P3DT3H", "PT2H2M", "PT5M5S", "P0DT1H", "P1DT0H", "P0Y1M", "PT0.5S", "P10DT10H10M", "P1Y1D", "P2Y2M", "PT1H2M1S"])
DURATION_LITERALS = [sg + b for b in DURATION_BODIES for sg in ("", "-", "+")]
