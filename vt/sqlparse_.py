"""R-SQL (parser): independent Pratt parser for the SQL *expression* language
the three dialects emit.  Standard operator precedence:

    OR < AND < NOT < comparison (= <> != < <= > >= IS IN LIKE) < || < + - < * / % < unary -

`||` sits between comparison and additive in PostgreSQL, at the additive
level in Trino and above `*` in SQLite; an `||` next to an unparenthesised
arithmetic operator is therefore reported as *ambiguous*.

Nodes (tuples):
  ('col', (parts...))  ('str', v)  ('num', text)  ('kw', NAME)
  ('typed', TYPE, v)                e.g. DATE '2020-01-01'
  ('interval', v, UNIT)
  ('bin', OP, l, r)   ('un', OP, x)   ('paren', x)
  ('is', x, negated)  ('in', x, [items], negated)  ('like', x, pattern, escape|None, negated)
  ('func', NAME, [args])   incl. CAST -> ('cast', x, TYPE), EXTRACT -> ('extract', FIELD, x),
  POSITION(a IN b) -> ('func','POSITION',[a,b]), SUBSTRING(a FROM b [FOR c]) -> ('func','SUBSTRING',[a,b,c])
  ('case', operand|None, [(when, then)...], else|None)
  ('list', [items])
"""
from .sqllex import lex


class SqlSyntaxError(Exception):
    pass


CMP_OPS = {"=", "<>", "!=", "<", "<=", ">", ">="}
BP = {"OR": 1, "AND": 2, "NOT": 3, "CMP": 4, "||": 5, "+": 6, "-": 6, "*": 7, "/": 7, "%": 7}
TYPE_WORDS = {"DATE", "TIMESTAMP", "TIME"}
KEYWORD_VALUES = {"NULL", "TRUE", "FALSE", "CURRENT_TIMESTAMP", "CURRENT_DATE", "CURRENT_TIME"}
RESERVED = {"AND", "OR", "NOT", "IS", "IN", "LIKE", "ESCAPE", "FROM", "FOR", "AS", "WHEN", "THEN", "ELSE", "END", "CASE"}


class Parser:
    def __init__(self, toks):
        self.t = toks
        self.i = 0
        self.ambiguous = []

    def peek(self, k=0):
        j = self.i + k
        return self.t[j] if j < len(self.t) else None

    def at(self, kind, value=None, k=0):
        tok = self.peek(k)
        return tok is not None and tok.kind == kind and (value is None or tok.value == value)

    def next(self):
        tok = self.peek()
        if tok is None:
            raise SqlSyntaxError("unexpected end")
        self.i += 1
        return tok

    def expect(self, kind, value=None):
        if not self.at(kind, value):
            raise SqlSyntaxError("expected %s %s at token %d, got %r" % (kind, value, self.i, self.peek()))
        return self.next()

    # ------------------------------------------------------------------
    def parse(self):
        e = self.expr(0)
        if self.peek() is not None:
            raise SqlSyntaxError("trailing tokens at %d: %r" % (self.i, self.peek()))
        return e

    def expr(self, minbp):
        left = self.prefix()
        while True:
            tok = self.peek()
            if tok is None:
                return left
            if tok.kind == "word" and tok.value in ("OR", "AND"):
                bp = BP[tok.value]
                if bp < minbp:
                    return left
                self.next()
                right = self.expr(bp + 1)
                left = ("bin", tok.value, left, right)
                continue
            if tok.kind == "op" and tok.value in CMP_OPS:
                if BP["CMP"] < minbp:
                    return left
                self.next()
                right = self.expr(BP["CMP"] + 1)
                left = ("bin", tok.value, left, right)
                continue
            if tok.kind == "word" and tok.value in ("IS", "IN", "LIKE", "NOT") and BP["CMP"] >= minbp:
                neg = False
                if tok.value == "NOT":
                    nxt = self.peek(1)
                    if not (nxt and nxt.kind == "word" and nxt.value in ("IN", "LIKE")):
                        return left
                    self.next()
                    neg = True
                    tok = self.peek()
                self.next()
                if tok.value == "IS":
                    if self.at("word", "NOT"):
                        self.next()
                        neg = True
                    self.expect("word", "NULL")
                    left = ("is", left, neg)
                elif tok.value == "IN":
                    self.expect("op", "(")
                    items = [self.expr(0)]
                    while self.at("op", ","):
                        self.next()
                        items.append(self.expr(0))
                    self.expect("op", ")")
                    left = ("in", left, items, neg)
                else:
                    pat = self.expr(BP["CMP"] + 1)
                    esc = None
                    if self.at("word", "ESCAPE"):
                        self.next()
                        esc = self.expect("str").value
                    left = ("like", left, pat, esc, neg)
                continue
            if tok.kind == "op" and tok.value in ("||", "+", "-", "*", "/", "%"):
                bp = BP[tok.value]
                if bp < minbp:
                    return left
                self.next()
                right = self.expr(bp + 1)
                node = ("bin", tok.value, left, right)
                self._check_concat_ambiguity(node)
                left = node
                continue
            return left

    def _check_concat_ambiguity(self, node):
        _, op, l, r = node
        arith = ("+", "-", "*", "/", "%")
        if op == "||":
            for c in (l, r):
                if c[0] == "bin" and c[1] in arith:
                    self.ambiguous.append(node)
        elif op in arith:
            for c in (l, r):
                if c[0] == "bin" and c[1] == "||":
                    self.ambiguous.append(node)

    def prefix(self):
        tok = self.next()
        if tok.kind == "word" and tok.value == "NOT":
            return ("un", "NOT", self.expr(BP["NOT"]))
        if tok.kind == "op" and tok.value in ("-", "+"):
            return ("un", tok.value, self.expr(8))
        if tok.kind == "op" and tok.value == "(":
            first = self.expr(0)
            if self.at("op", ","):
                items = [first]
                while self.at("op", ","):
                    self.next()
                    items.append(self.expr(0))
                self.expect("op", ")")
                return ("list", items)
            self.expect("op", ")")
            return ("paren", first)
        if tok.kind == "str":
            return ("str", tok.value)
        if tok.kind == "num":
            return ("num", tok.value)
        if tok.kind == "qid":
            parts = [tok.value]
            while self.at("op", ".") and self.peek(1) is not None and self.peek(1).kind == "qid":
                self.next()
                parts.append(self.next().value)
            return ("col", tuple(parts))
        if tok.kind == "word":
            w = tok.value
            if w in KEYWORD_VALUES:
                return ("kw", w)
            if w in TYPE_WORDS and self.at("str"):
                return ("typed", w, self.next().value)
            if w == "INTERVAL" and self.at("str"):
                v = self.next().value
                unit = self.expect("word").value
                return ("interval", v, unit)
            if w == "CASE":
                return self.case()
            if w in RESERVED:
                raise SqlSyntaxError("unexpected keyword %s at %d" % (w, self.i - 1))
            if self.at("op", "("):
                return self.call(w)
            raise SqlSyntaxError("bare word %s at %d" % (w, self.i - 1))
        raise SqlSyntaxError("unexpected token %r at %d" % (tok, self.i - 1))

    def call(self, name):
        self.expect("op", "(")
        if name == "CAST":
            x = self.expr(0)
            self.expect("word", "AS")
            ty = self.expect("word").value
            self.expect("op", ")")
            return ("cast", x, ty)
        if name == "EXTRACT":
            field = self.expect("word").value
            self.expect("word", "FROM")
            x = self.expr(0)
            self.expect("op", ")")
            return ("extract", field, x)
        if name == "POSITION":
            a = self.expr(BP["CMP"] + 1)
            self.expect("word", "IN")
            b = self.expr(0)
            self.expect("op", ")")
            return ("func", "POSITION", [a, b])
        if name == "SUBSTRING" :
            a = self.expr(0)
            if self.at("word", "FROM"):
                self.next()
                args = [a, self.expr(0)]
                if self.at("word", "FOR"):
                    self.next()
                    args.append(self.expr(0))
                self.expect("op", ")")
                return ("func", "SUBSTRING", args)
            args = [a]
            while self.at("op", ","):
                self.next()
                args.append(self.expr(0))
            self.expect("op", ")")
            return ("func", "SUBSTRING", args)
        args = []
        if not self.at("op", ")"):
            args.append(self.expr(0))
            while self.at("op", ","):
                self.next()
                args.append(self.expr(0))
        self.expect("op", ")")
        return ("func", name, args)

    def case(self):
        operand = None
        if not self.at("word", "WHEN"):
            operand = self.expr(0)
        whens = []
        while self.at("word", "WHEN"):
            self.next()
            w = self.expr(0)
            self.expect("word", "THEN")
            th = self.expr(0)
            whens.append((w, th))
        if not whens:
            raise SqlSyntaxError("CASE without WHEN")
        els = None
        if self.at("word", "ELSE"):
            self.next()
            els = self.expr(0)
        self.expect("word", "END")
        return ("case", operand, whens, els)


def parse_sql(sql):
    """-> (tree, ambiguous_nodes); raises SqlSyntaxError"""
    toks = lex(sql)
    for t in toks:
        if t.kind in ("stray", "comment", "unterminated"):
            raise SqlSyntaxError("%s token %r" % (t.kind, t.text[:30]))
    p = Parser(toks)
    tree = p.parse()
    return tree, p.ambiguous


def children(node):
    k = node[0]
    if k in ("bin",):
        return [node[2], node[3]]
    if k in ("un", ):
        return [node[2]]
    if k == "paren":
        return [node[1]]
    if k == "is":
        return [node[1]]
    if k == "in":
        return [node[1]] + list(node[2])
    if k == "like":
        return [node[1], node[2]]
    if k == "func":
        return list(node[2])
    if k == "cast":
        return [node[1]]
    if k == "extract":
        return [node[2]]
    if k == "case":
        out = [node[1]] if node[1] is not None else []
        for w, t in node[2]:
            out += [w, t]
        if node[3] is not None:
            out.append(node[3])
        return out
    if k == "list":
        return list(node[1])
    return []


def walk(node):
    yield node
    for c in children(node):
        yield from walk(c)
