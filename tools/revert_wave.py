#!/usr/bin/env python3
"""tools/revert_wave.py [parallelism]  -- for every repaired defect (known_findings.json "fixed"), revert the fix commit in a scratch
worktree of /repo HEAD and run the quick check of the property it is recorded under: the check must report a violation again
("a fixed entry suppresses nothing"). A revert that conflicts with later commits is reported as CONFLICT (not evaluated).
Output: one line per entry; summary is written to /verif/seeded/reverts.json."""
import json, os, re, shutil, subprocess, sys, tempfile
from concurrent.futures import ThreadPoolExecutor

par = int(sys.argv[1]) if len(sys.argv) > 1 else 3
d = json.load(open('/verif/known_findings.json'))
entries = []
for f in d['fixed']:
    m = re.match(r"fixed: property=(C\d+) (\w+) (.*)", f, re.S)
    entries.append((m.group(1), m.group(2), m.group(3)[:100]))


def sh(cmd, **kw):
    return subprocess.run(cmd, shell=True, capture_output=True, text=True, **kw)


def one(e):
    prop, commit, what = e
    wt = tempfile.mkdtemp(prefix="rv_")
    os.rmdir(wt)
    sh("git -C /repo worktree add -q --detach %s HEAD" % wt)
    try:
        r = sh("git -C %s revert --no-commit %s" % (wt, commit))
        if r.returncode != 0:
            return {"property": prop, "commit": commit, "status": "CONFLICT", "what": what}
        t = sh("cd %s && /venv/bin/python -m pytest -q -p no:cacheprovider --continue-on-collection-errors 2>&1 | tail -1" % wt, timeout=900).stdout.strip()
        r = sh("VERIF_REPO=%s /verif/check %s --tier quick" % (wt, prop), timeout=7200)
        viol = sum(1 for l in r.stdout.splitlines() if l.startswith("VIOLATION"))
        cls = [l.strip().split(" finding=")[0] for l in r.stdout.splitlines() if l.strip().startswith("class=")][:3]
        return {"property": prop, "commit": commit, "status": "detected" if viol else "NOT-DETECTED", "violations": viol, "classes": cls,
                "tests_with_revert": t, "what": what}
    finally:
        sh("git -C /repo worktree remove --force %s" % wt)
        shutil.rmtree(wt, ignore_errors=True)


out = []
with ThreadPoolExecutor(par) as ex:
    for res in ex.map(one, entries):
        out.append(res)
        print("%s %s %s %s %s" % (res["property"], res["commit"], res["status"], res.get("violations", ""), (res.get("classes") or [""])[0][:90]), flush=True)
json.dump(out, open('/verif/seeded/reverts.json', 'w'), indent=1)
print("detected", sum(1 for r in out if r["status"] == "detected"), "not-detected", sum(1 for r in out if r["status"] == "NOT-DETECTED"),
      "conflict", sum(1 for r in out if r["status"] == "CONFLICT"))
