#!/usr/bin/env python3
"""Rewrites DESIGN.md section 6 from seeded/*/meta.json."""
import glob, json, re
p = '/verif/DESIGN.md'
s = open(p).read()
a = s.index("## 6. Demonstrating detection")
b = s.index("## 7. False alarms corrected")
rows = []
for f in sorted(glob.glob('/verif/seeded/*/meta.json')):
    m = json.load(open(f))
    note = ""
    try:
        note = open(f.replace("meta.json", "notes.md")).read()
    except OSError:
        pass
    first = ""
    for line in note.splitlines():
        line = line.strip(" #*-")
        if len(line) > 40:
            first = line[:230]
            break
    cls = []
    for c, d in m.get("checks", {}).items():
        if d.get("violations"):
            cls.append("%s: %s" % (c, (d["classes"][0].split(" finding")[0].replace("class=", "") if d["classes"] else "")))
    rows.append("| `%s` | %s | %s | %s | %s |" % (m["seed"], m["property"], "yes" if m.get("confirmed") else "NO", ", ".join(m.get("detected_by", [])) or "**missed**",
                                             "; ".join(cls)[:160].replace("|", "/")))
text = '''## 6. Demonstrating detection

**Reverts of the repairs.** Every `fix:` commit of section 4.1 was first seen as a
VIOLATION. `tools/revert_wave.py` reverts each of the 66 recorded repairs in a scratch
worktree of the current HEAD and runs the quick check of the property it is recorded
under (`seeded/reverts.json`): 47 reverts apply (19 conflict with later repairs of the
same lines), all 47 are reported again - 44 at once, 3 after an extension *in kind*
(C12 had replaced the empty duration `duration'P'` by a unique token before translating
it; C02 had no term with `not`/`and`/`or` under a null test; C12 only compiled
SQLAlchemy statements, so a Python list among the bound parameters went unnoticed
until the driver saw it - scalar-root statements are now executed).

**Independently seeded changes.** Fresh sub-agents were given only the text of one
property and a scratch git worktree of `/repo` (nothing from `/verif`) and asked for a
realistic change that breaks the property, still passes the 648 baseline tests and
needs something specific to manifest, with a demonstration script. Each change was
confirmed independently (`tools/seed_eval.py`: fresh worktree, demo passes clean,
patch applies, pinned test command still gives 648 passed, demo fails) and the quick
checks were run against the patched tree (`VERIF_REPO=<scratch> ./check ...`). The
artefacts are in `seeded/<id>/` (`patch.diff`, `demo.py`, `notes.md`, `meta.json`).

| Seed | Property | Confirmed | Detected by (quick tier) | First violation class |
|---|---|---|---|---|
''' + "\n".join(rows) + '''

**What the misses taught.** Six waves of seeded bugs (20 + 20 + 40 + 20 + 20 + 40 changes, the fifth - `*-w7` - and the sixth - `*-w10A/B` - on the tree repaired after the bug hunts; the fourth wave's agents were told that every filter with up to three operators over a small alphabet is already compared and asked for something beyond such a sweep). After each wave the checks that
missed a change were strengthened *in kind* (not by adding the failing input), all
checks were re-run on the unchanged tree, and every earlier seed was re-checked
(`tools/seed_recheck.sh`, also with another `VERIF_SEED`). All seeds above are detected by
the committed quick tier of their own property. The recurring blind spots:

* *State that survives a call* (value-keyed `Value` cache, arity memo keyed by the bare
  name, per-parser memo, handler cache keyed by the bare function name, parse cache keyed
  by the lower-cased text, `id(node)`-keyed memo on a reused visitor, a function table
  that is written to, a lexer counter that is not reset). Enumerating inputs in one fixed
  order on a fork pool is not a history exploration. C01/C02/C03/C11/C12/C13/C18 now have
  a *history layer*: the small layer run serially in ONE process, forward and in reverse
  (C01 additionally through one shared visitor instance; C11 grouped by bare name with
  rejected inputs in between; C02/C03 with case-variant string literals adjacent). C10
  parses the same 3 000 texts in two *fresh processes* in opposite orders and compares the
  outcome maps, and E-CLOSE compares a reused lexer/parser with fresh ones for every text.
  C20's menu contains the same function valid / wrong arity / other namespace and inputs
  where a bad call is reduced before a syntax error. The typed leaves contain an
  equal-valued Int/Float pair (`3`, `3.0`).
* *Schema shapes*: a NOT NULL hop behind nullable hops (`Person.city`), two relationships
  with the same attribute name on different models and targets (`Post.owner -> City`,
  `Blog.owner -> Person`), a NOT NULL boolean child column (`Comment.flag`) so that lambda
  bodies can be a bare boolean property; C15's base-query menu pre-joins the same-named
  relationship and its filters include the nullable-then-NOT-NULL path.
* *What reaches the driver*: SQLAlchemy statements are compiled with `render_postcompile`;
  the adversarial integers lie beyond the signed 64-bit range; C08 compares boolean
  expressions that both carry values (annotation aliases built from literals).
* *Adversarial names and payloads*: unknown-field probes collide with attributes of
  SQLAlchemy's column collection / declarative class (this exposed a genuine defect of the
  unchanged ORM visitor, repaired); C07's alphabet contains every BMP character that a
  Unicode normalisation form or case mapping turns into a metacharacter, a comma, payloads
  that look like another literal kind followed by an attack suffix, and list positions with
  a shared suffix.
* *Pinned capabilities*: "complete output" is not enough for a namespaced function - no
  translating backend implements one, so a translation is a mis-mapping (C12).
* *Alphabet gaps*: re-bound lambda variables and namespaced-identifier/path look-alikes
  (C14), every case mask of short keywords and boolean literals (C19), GUIDs whose first
  group looks like another token, geography bodies with doubled quotes (C06/C13), every
  rarely used node kind in every well-typed argument position (C12), handlers attached
  after the first visit (C16), AST well-formedness of the returned node (C10), the nesting
  ORDER of unary-like operators over the same leaves (C09).
* *Wave 13* (24 changes on the final tree, two per agent for twelve properties, 18 reported at once, 6 misses, all closed): a named
  parameter whose NAME is qualified (`ns.f(ns.p=1)`; the renderer wrote `node.name.name`; C13 compound leaves); a table alias other
  than the lower-case word every layer had used - `T1`, `my-alias`, `tbl 2`, `été`, `select` - which the Athena dialect's identifier
  rule must not touch (C09 `alias-spellings`); a date-time literal with seconds plus a fraction or an offset, cut down to `hh:mm:ss`
  by the standard dialect only (C09 and C12 `datetime-components`: 270 literals x 4 templates, the one string constant of the SQL is
  read back independently as date, time of day, fraction and offset); a minus applied directly to `indexof(...)`, whose expansion
  `INSTR(..) - 1` lost its parentheses - the leaf sets and the unary nesting order are the same in `(-INSTR) - 1` and `-(INSTR - 1)`,
  so C09's span oracle could not see it although C01 saw the wrong rows; C09 now has a *compositional* oracle (`compositional-operands`:
  the SQL of an operand translated alone is ONE subtree, modulo parentheses, of the SQL of every context that uses it; 20 operands x
  23 contexts x 3 dialects); a pattern that starts with an inline regex flag, `(?i)...`, moved into the SQL text by the Django
  `matchesPattern` (C08 `marked-strings`: 23 strings a translator might treat specially x every string position x 4 backends must
  compile to the SQL text of `'x'`). The sixth miss, `C16-w13A`, is a rewriter that narrows its alias table in place and restores the
  wrong one on leaving a nested lambda: the trees stay untouched, the *substitution* is wrong, and C14 - whose quantifier it belongs
  to - reports it (`lambda-variable-rewritten`, and the shared-instance schedules).
* *Wave 12* (40 changes on the tree of wave 11, 23 reported at once, 17 misses, all closed): concatenation through `add` - the
  library's own tests pin `'donut' add 'tello'`, the typed grammar had `add` on numbers only; R-EVAL now concatenates two strings, C03
  has a `string-add` layer (an operand swap "for commutative operators" is invisible on numbers) and C02's turned up a genuine defect
  (finding `django:string-add-not-concatenation`); a second mapped class with the SAME class name in another registry (a memo keyed by
  `Model.__name__`; C03 `same-named-models`); runs of 63-400 operands joined by one operator at the root, negated, parenthesised (a
  rebalancing threshold; C05 `long-runs`) and a minus over a literal that carries its own sign (C05); 16/17/33/65/257-long runs of one
  metacharacter (a replacement with a count argument; C07); list members that repeat or render alike (de-duplication on the rendered
  text; C09 `repeated-list-members`) and field names outside ASCII, with the Athena spelling taken from an independent statement of the
  documented rule instead of the library's own helper - C07's field layer had used `clean_athena_identifier` as its oracle (C07, C09);
  a named parameter repeated in one call and namespaces spelled `true.` / `null.` (C11); `x gt null` that is translated at all must
  still be an ordering comparison, and unconvertible dates / numbers / durations as MEMBERS of a one-kind list (C12); a base query whose
  root entity is an alias and filters that use a relationship as a value - this exposed a defect of the unchanged tree, repaired in
  `9038818` (C15); trees that differ only in a qualifier and strings made of quotes, where building a node from its fields must keep
  the fields - formerly a harness assertion, now the verdict `constructor-changed-fields` (C16); blanks, tabs and newlines INSIDE
  literals under every layout (C19); a lambda variable called like the relationship its body navigates (C04). `C04-w12B` only shows
  with a pre-joined base query and is reported by C15, whose quantifier it belongs to.
* *Wave 11* (two changes per agent on the final tree, 38 kept, 21 reported at once; two discarded - one disputed the semantics of
  the property, one had a demonstration that did not fail): the 17 misses again named missing *values and shapes*, and one harness
  weakness. In-lists whose members are floats / mixed numbers and a date-time at exactly midnight (typed leaves and the database
  domain; C02); two lambdas over the SAME collection in one filter (C04); qualified names whose spelling is longer than 128
  characters while the names themselves are not - the generator's own `wellformed` filter counted the dots and silently dropped them
  (C06); a string under a unary minus / as an arithmetic operand, and THREE string slots with a *different* payload each - a
  post-processing pass over the finished SQL that is fooled by `q\\` in one literal and `/*` ... `*/` in two others is invisible
  as long as every slot carries the same payload (C07 `payload-combinations`); identical operands under and/or and a boolean
  function compared with a number (C08); duration literals read component by component - multi-component negative durations, equal
  amounts in different units (`P1MT1M`, `P7Y7M7DT7H7M7S`) - against an independent reading of the SQL interval expression
  (`vt/durref.py`; C09 and C12 `duration-components`, the ORM backends' bound `timedelta` too); every letter case of `true`,
  `false`, `null` through every dialect (C09); a named parameter that is valid while a required one is missing (C12); identity
  entries in an alias map (C14); base queries over the alternate schema whose foreign key references a NON-primary-key column, with
  filters on the related row's primary key (`node/id eq 2`; C04 and C15 `alternate-schema-bases`); named parameters on built-ins and
  equal-valued literals of different spelling as trees (C16); a literal operand next to a field in the SQL dialects' type check
  (C18). The harness weakness: a node whose `__eq__` raises crashed C16 with a harness error instead of a verdict - tree equality is
  now taken through `node_eq`, and an exception there is a violation.
* *Wave 10* (two changes per agent, 40 in all, 26 reported at once; the 14 misses each named a value the alphabets lacked):
  keyword case in C01 itself (`flag eq TRUE` through the SQLite dialect - C03 and C19 had it, C01 did not); ordering comparisons in
  lambda bodies whose bound equals a stored value (the complement of `>=` is `<`, not `<=`; C04); a keyword followed by a non-ASCII
  letter (`null\u00e9`; C06); mixed in-lists whose first element is not a string (C07); quote *and* wildcard in one LIKE literal (C09
  replaces literals by unique tokens, so string contents got a layer of their own); a 5 000-digit integer in the quick tier and
  finaliser placements under the determinism clause (C10); named parameters written in an order that is not sorted (C11); a list on
  the LEFT of `in` (C12); an alias key of three and more segments rooted at the lambda variable (C14); every function name SQLAlchemy
  registers x 0/1/2 arguments x four dialects before / after the import instead of nine names (C15 `registry-sweep`), a narrowing
  non-default manager and a related manager as base (C15); `typecheck` against every single class and every pair, so that `Date` in
  `DateTime` cannot pass as a substring (C18); in-lists and named parameters with repeated string items in the hash-seed corpus (C20).
* *Wave 7* (fresh changes on the repaired tree, 15 of 20 reported at once): a precedence row turned `nonassoc` put `None` entries into
  the LR action table and the table walker of C05 crashed before the violations of earlier layers were printed - the runner now
  reports violations found before a later layer fails, and the walker skips error entries; duration counts beyond the next unit
  (`P12M`, `PT90M`; C06); contents that exhaust a translator's choice of escape character (every punctuation character but one, every
  prefix of the punctuation; C07); a translation that leaves something behind in the tree it was given, visible only when a
  base-class operation runs on the same object afterwards (C16 `shared-tree-histories`); a collection path that starts with the
  lambda variable's own name (C14). Two older seeds (`C12-w3A`, `C20-w3B`) are *neutralised*: their own demonstrations pass on the
  repaired tree, because `658c9d9` and `74e0d3a` removed the weakness they exploited (`meta.json` `neutralised_by`).
* *Beyond the small-term sweep* (wave 4): behaviour that changes only past a size or depth
  threshold (a nesting counter, a "long list" fast path, a memo that only fills at depth
  five, balancing of long `and` chains). Every term-based check now has a *pumped* layer:
  every self-composable constructor and every ordered pair of them stacked to depth 4-12
  on the left and the right spine, bushy full binary trees, flat connective chains of up
  to 12 clauses, and `in` lists of up to 600 elements (C01-C03, C05, C08, C09, C10, C13).
  Rows that are equal only up to Unicode normalisation (`e\u0301` / `\u00e9`) are in the
  TEXT domain of the database harnesses; C10 has keyword look-alike identifiers
  (`nullable`, `notify`, `anyone`, `android`, ...) in every leaf position; C07 has payloads
  that look like a bind-parameter template of each driver; C19 stretches every optional
  blank to 1-64 blanks/tabs; C20 compares every menu text with the outcome of a *fresh
  process per text*; C16 includes a transformer that rebuilds every node; C18 permutes
  named parameters; C15's base-query menu has an aliased pre-join; C04/C12 filters
  navigate two same-named relationships in ONE filter and compare the table-qualified
  columns; C14 places the same clause under different outer binders with the same
  innermost variable.


**Seeds and later repairs.** A seeded patch is written against the `/repo` commit of its wave (`meta.json` `repo_head`). When a
later `fix:` commit touches the same lines the patch no longer applies; `tools/seed_recheck.py` then applies it 3-way, and if
that fails evaluates it on its own commit *differentially* (the check runs there with and without the patch and only the
violation classes the patch adds count). Six seeds were rebased by hand onto the repaired lexer (`patch.orig.diff` keeps the
original). The same tool re-runs the property-preserving changes under `benign/` (third argument `benign`).

**Bug-hunt wave (`hunts/`).** After four waves of seeded bugs and one of benign refactorings, twenty sub-agents were given one
property each, a worktree of the *repaired* tree and the task to find inputs that violate the property there (names, values,
feature combinations, contexts and schema shapes a small-term sweep does not contain). Their findings (`hunts/Cnn/findings.md`,
`demo.py`) were reproduced and triaged: 20 became `fix:` commits (section 4.1, from `74e0d3a` on), 3 became known findings
(C08 `django:in-list-equal-elements-collapsed`, C12 `orm:lambda-body-outer-field-rebound`, C15
`sa:base-join-of-same-relationship-taken-for-the-filters-join`), the rest are the observations of section 4.3. For every repaired
defect the owning check was first extended *in kind* until it reported the defect on the unrepaired tree (`VERIF_REPO=<worktree
at c05acbb>`), then shown silent on the repaired one:

| Defect (commit) | Check layer that now reports it on the old tree |
|---|---|
| suspended token generator finalised during the next parse (`74e0d3a`) | C20 `finalisers`: the pending generator is closed before every line event of the next parse (an environment choice the explorer owns) |
| qualified path segments dropped (`7dfbd66`) | C13 `keyword-named-identifiers` (qualified texts), C06 contexts `path-segment` / `lambda-owner`, C14 `qualified-path-segments` |
| LIKE operand `null` / list (`658c9d9`), `null` in ordering comparisons, lists as operands, named parameters on built-ins, list arguments (`2b969d7` `add1e65` `c731351` `6b40259` `00491fd`) | C12 `null-and-list-operands` |
| Django bare boolean field, comparison of comparisons, null test of a negation (`c67360a` `457b563` `9aa4e38`) | C02 `boolean-operands` (also run by C01, C03), C12 `django-q-keyword-names` |
| Django visitor unusable after a refusal (`a65d5a6`) | C12 `shared-visitor-after-refusal` |
| Django `to_field` / manager name, SQLAlchemy reverse one-to-one `eq null` (`94d81e0` `27a02ab`) | C04 `alternate-schema` (256 instances of a second schema, hand-written oracle per filter) |
| Unicode digits (`efcbaf1`) | C09 `non-ascii-digits` |
| non-ASCII case folding of keywords (`7ed76be`) | C06 identifiers (`fal\\u017fe`, `\\u017fub`, `\\u0131n`, Kelvin sign), C19 raw names |
| `any(` / `all(` outside a path (`67892d4`) | C11 near-miss names |
| `not` + optional blank (`3510d58`) | C19 `keyword-named-fields-optional-blanks` |
| rewriter on its own output, rewriter shared by two visits (`1b2f22f` `1dc6d79`) | C14 `composition`, C14 `shared-instance-interleavings` (greenlet scheduler, all schedules within the preemption bound) |

A **second hunt** (`hunts2/`, 20 sub-agents on the repaired tree, told what was already repaired, recorded or judged out of scope)
came back with "no violation found" for C05 (beyond the parenthesised in-list), C08, C10, C11, C13, C14 and C20 (sequential
histories). It produced six more repairs (`bfbbddf` `c95c7bc` `dc4ca3d` `d2167b4` `f4d7bf0` `0b82c84`: a `null` argument became
the inferred type of `concat`; the stripper - not adapted to `7dfbd66` - built an identifier with a dotted name; leaks of
ArgumentError, OverflowError / ValueError, AttributeError and a bare ValueError; duplicate / list-valued named parameters on
Django), one more known finding (C09 `sqlite:interval-literal-not-sqlite-syntax`, pinned by the repository's tests; C09 now
*prepares* every statement of the SQLite dialect in SQLite) and the last bullet of section 4.3. Layers added first and shown to
report each defect on the unrepaired tree: C17 qualified segments (its reference had, again, followed the library: it built the
dotted name), C18 `null-arguments`, C12 `overflow-literal` / `plain-column-navigation` / duplicate named parameters.

The wave also exposed an oracle that had *copied* a defect: the reference parser (`vt/refparse.py`) dropped the qualifier of inner
path segments "because the library does", so C05/C11 agreed with the library; it now follows the text (section 7).
'''
s = s[:a] + text + s[b:]
open(p, 'w').write(s)
print("rows", len(rows))
