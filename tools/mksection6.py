#!/usr/bin/env python3
"""Rewrites DESIGN.md section 6 from seeded/*/meta.json."""
import glob, json, re
p = '/verif/DESIGN.md'
s = open(p).read()
a = s.index("## 6. Demonstrating detection")
b = s.index("## 7. False alarms corrected")
rows = []
for f in sorted(glob.glob('/verif/seeded/*/meta.json')):
    m = json.load(open(f))
    note = ""
    try:
        note = open(f.replace("meta.json", "notes.md")).read()
    except OSError:
        pass
    first = ""
    for line in note.splitlines():
        line = line.strip(" #*-")
        if len(line) > 40:
            first = line[:230]
            break
    cls = []
    for c, d in m.get("checks", {}).items():
        if d.get("violations"):
            cls.append("%s: %s" % (c, (d["classes"][0].split(" finding")[0].replace("class=", "") if d["classes"] else "")))
    rows.append("| `%s` | %s | %s | %s | %s |" % (m["seed"], m["property"], "yes" if m.get("confirmed") else "NO", ", ".join(m.get("detected_by", [])) or "**missed**",
                                             "; ".join(cls)[:160].replace("|", "/")))
text = '''## 6. Demonstrating detection

**Reverts of the repairs.** Every `fix:` commit of section 4.1 was first seen as a
VIOLATION; reverting the LIKE-escaping fix (C07, C01), the boolean-call
parenthesisation fix (C09), the SQLAlchemy `TRUE` fix (C03), the Django `all()`
fix and the outer-join fix (C04) in a scratch worktree (`tools/mutant.sh
revert:<commit> <checks>`) makes the listed check fail again.

**Independently seeded changes.** Fresh sub-agents were given only the text of one
property and a scratch git worktree of `/repo` (nothing from `/verif`) and asked for a
realistic change that breaks the property, still passes the 648 baseline tests and
needs something specific to manifest, with a demonstration script. Each change was
confirmed independently (`tools/seed_eval.py`: fresh worktree, demo passes clean,
patch applies, pinned test command still gives 648 passed, demo fails) and the quick
checks were run against the patched tree (`VERIF_REPO=<scratch> ./check ...`). The
artefacts are in `seeded/<id>/` (`patch.diff`, `demo.py`, `notes.md`, `meta.json`).

| Seed | Property | Confirmed | Detected by (quick tier) | First violation class |
|---|---|---|---|---|
''' + "\n".join(rows) + '''

**What the misses taught (checks strengthened afterwards, all seeds above are
detected by the committed checks):**

* *State that survives a call* (C02 value-keyed `Value` cache, C11 arity memo keyed
  by the bare name, C20 per-parser memo): enumerating inputs in one fixed order on a
  fork pool is not a history exploration. C01/C02/C03/C11/C13 now have a *history
  layer* that runs the small layer serially in one process, forward and in reverse
  (C11 additionally grouped by bare name); C20's menu contains the same function
  valid / wrong arity / other namespace; the typed leaves contain an equal-valued
  Int/Float pair (`3` and `3.0`).
* *Schema shapes* (C04 inner join for NOT NULL foreign keys, C15 already-joined test
  by bare attribute name): the relational schema now has a NOT NULL hop behind
  nullable hops (`Person.city`) and two relationships with the same attribute name on
  different models and targets (`Post.owner -> City`, `Blog.owner -> Person`), and
  C15's base-query menu pre-joins the former.
* *What reaches the driver* (C08 `literal_execute` for > 64-bit integers): SQLAlchemy
  statements are compiled with `render_postcompile`, and the adversarial integers lie
  beyond the signed 64-bit range.
* *Adversarial names* (C12 `getattr(table.c, name)`): unknown-field probes use names
  that collide with attributes of SQLAlchemy's column collection / declarative class
  (`keys`, `values`, `metadata`, `registry`, `__table__` ...). This also exposed a
  genuine defect of the unchanged ORM visitor (repaired, section 4.1).
* *Alphabet gaps* (C14 re-bound lambda variable, C19 `tRuE`): leaves with an inner
  lambda re-binding the outer variable followed by a use of the outer one; every case
  mask of keywords up to 5 letters and boolean literals in the C19 corpus.

'''
s = s[:a] + text + s[b:]
open(p, 'w').write(s)
print("rows", len(rows))
