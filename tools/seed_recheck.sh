#!/bin/bash
# tools/seed_recheck.sh [VERIF_SEED] [parallelism]  -- re-run each seeded change against its own property's quick check
seed=${1:-0}; par=${2:-4}
ls -d /verif/seeded/*/ | xargs -P $par -I{} bash -c '
  sd=$(basename {}); prop=$(python3 -c "import json;print(json.load(open(\"{}meta.json\"))[\"property\"])")
  d=$(mktemp -d /tmp/rc_XXXXXX); git -C /repo worktree add -q --detach $d HEAD 2>/dev/null
  if git -C $d apply {}patch.diff 2>/dev/null || git -C $d apply --3way {}patch.diff >/dev/null 2>&1; then
    n=$(VERIF_SEED='$seed' VERIF_REPO=$d /verif/check $prop --tier quick 2>&1 | grep -c "^VIOLATION")
    echo "$sd $prop seed='$seed' violations=$n"
  else echo "$sd $prop PATCH-DOES-NOT-APPLY"; fi
  git -C /repo worktree remove --force $d 2>/dev/null; rm -rf $d'
