#!/bin/bash
# tools/runall.sh [tier]  -- run every claimed check, one summary line each
tier=${1:-quick}
cd /verif
for c in $(python3 -c "import json;print(' '.join(x['property_id'] for x in json.load(open('MANIFEST.json'))['checks']))"); do
  s=$(date +%s)
  out=$(./check $c --tier $tier 2>&1); rc=$?
  e=$(date +%s)
  echo "$c rc=$rc $((e-s))s $(echo "$out" | grep -E "^C[0-9]+ tier" | cut -c1-160) $(echo "$out" | grep -c '^VIOLATION') viol $(echo "$out" | grep -c '^KNOWN') known"
done
