#!/bin/bash
# tools/benign_batch.sh <prefix dir pattern, e.g. /tmp/sb_C> <tag> [parallelism]
pat=$1; tag=$2; par=${3:-3}
mkdir -p /tmp/be
for d in ${pat}*; do
  p=$(basename $d | sed 's/.*_//')
  [ -f $d/OUT/patch.diff ] || continue
  id="$p-$tag"
  [ -f /verif/benign/$id/meta.json ] && continue
  echo "$id $p $d"
done | xargs -P $par -L 1 bash -c '/verif/tools/benign_eval.py $0 $1 $2 > /tmp/be/$0.log 2>&1; echo "$0: $(grep -E "confirmed|alarms|^  C" /tmp/be/$0.log | tr "\n" " " | cut -c1-400)"'
