#!/bin/bash
# tools/benign_recheck.sh [VERIF_SEED] [parallelism]  -- re-run, for each property-preserving change under benign/, the quick
# checks recorded in its meta.json against the patched tree; any VIOLATION line is an alarm to investigate
seed=${1:-0}; par=${2:-3}
ls -d /verif/benign/*/ | xargs -P $par -I{} bash -c '
  sd=$(basename {}); checks=$(python3 -c "import json;print(\" \".join(json.load(open(\"{}meta.json\"))[\"checks\"]))")
  d=$(mktemp -d /tmp/bc_XXXXXX); git -C /repo worktree add -q --detach $d HEAD 2>/dev/null
  if git -C $d apply {}patch.diff 2>/dev/null || git -C $d apply --3way {}patch.diff >/dev/null 2>&1; then
    out=""
    for c in $checks; do n=$(VERIF_SEED='$seed' VERIF_REPO=$d /verif/check $c --tier quick 2>&1 | grep -c "^VIOLATION\|^CHECK-ERROR"); out="$out $c=$n"; done
    echo "$sd seed='$seed' alarms:$out"
  else echo "$sd PATCH-DOES-NOT-APPLY"; fi
  git -C /repo worktree remove --force $d 2>/dev/null; rm -rf $d'
