#!/bin/bash
# tools/mutant.sh <patch.diff | revert:<commit>> <check ids...>   -- runs quick checks against a scratch worktree with the change applied
set -e
spec="$1"; shift
d=$(mktemp -d /tmp/mut_XXXXXX)
git -C /repo worktree add -q --detach "$d" HEAD
cleanup() { git -C /repo worktree remove --force "$d" 2>/dev/null || true; rm -rf "$d"; }
trap cleanup EXIT
if [[ "$spec" == revert:* ]]; then
  git -C "$d" revert --no-commit "${spec#revert:}" >/dev/null
else
  git -C "$d" apply "$spec"
fi
if [ -n "$RUN_TESTS" ]; then
  (cd "$d" && /venv/bin/python -m pytest -q -p no:cacheprovider --continue-on-collection-errors 2>&1 | tail -1)
fi
for c in "$@"; do
  VERIF_REPO="$d" /verif/check "$c" --tier "${TIER:-quick}" 2>&1 | grep -E "^VIOLATION|^KNOWN|^C[0-9]+ tier|CHECK-ERROR|^  class" | cut -c1-220 | head -${LINES_MAX:-8}
done
