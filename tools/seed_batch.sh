#!/bin/bash
# tools/seed_batch.sh <prefix dir pattern, e.g. /tmp/sc_C> <wave tag> [parallelism]  -- evaluate every <dir>NN/OUT/{A,B} (or OUT/)
pat=$1; tag=$2; par=${3:-5}
mkdir -p /tmp/se
jobs=()
for d in ${pat}*; do
  p=$(basename $d | sed 's/.*_//')
  for sub in A B ""; do
    o=$d/OUT${sub:+/$sub}
    [ -f $o/patch.diff ] || continue
    id="$p-$tag${sub}"
    [ -f /verif/seeded/$id/meta.json ] && continue
    echo "$id $p $o"
  done
done | xargs -P $par -L 1 bash -c '/verif/tools/seed_eval.py $0 $1 $2 $1 > /tmp/se/$0.log 2>&1; echo "$0: $(grep -E "confirmed|^  C" /tmp/se/$0.log | tr "\n" " " | cut -c1-260)"'
