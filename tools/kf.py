#!/usr/bin/env python3
"""tools/kf.py fixed C13 <commit> <what failed>   |   tools/kf.py finding C01 <signature> <what fails> [witness]"""
import json, sys
p = '/verif/known_findings.json'
d = json.load(open(p))
if sys.argv[1] == 'fixed':
    d['fixed'].append("fixed: property=%s %s %s" % (sys.argv[2], sys.argv[3], sys.argv[4]))
else:
    e = {"property": sys.argv[2], "signature": sys.argv[3], "what": sys.argv[4]}
    if len(sys.argv) > 5:
        e["witness"] = sys.argv[5]
    d['findings'] = [x for x in d['findings'] if not (x['property'] == e['property'] and x['signature'] == e['signature'])] + [e]
json.dump(d, open(p, 'w'), indent=1)
