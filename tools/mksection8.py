#!/usr/bin/env python3
"""Rewrites DESIGN.md section 8 from the evidence files of the last run of every check (layers, bounds, measured sizes)."""
import glob, json
p = '/verif/DESIGN.md'
s = open(p).read()
a = s.index("## 8. As-built bounds")
b = s.index("## Appendix A")
out = ["## 8. As-built bounds and measured sizes (generated from `evidence/*.json` by `tools/mksection8.py`)\n",
       "Each check iterates its layers in order; a layer records its bound and whether it enumerated its space completely. "
       "Numbers are those of the last run whose evidence is committed (tier and seed are shown); `states` = distinct "
       "terms / configurations / instances explored, `executions` = runs of the real code, `outcomes` = distinct observed "
       "outcome classes (a run whose outcomes collapse to one value would be vacuous).\n"]
for f in sorted(glob.glob('/verif/evidence/C*.json')):
    e = json.load(open(f))
    c = e["coverage"]
    out.append("### %s  (%s tier, seed %d, %.0f s): %d states, %d executions, %d outcome classes, exhaustive within bounds: %s\n" % (
        e["property_id"], e["tier"], e["seed"], e["wall_s"], c["states"], c["evaluations"], c["distinct_outcomes"], c["exhaustive"]))
    for name, info in c.get("layers", {}).items():
        items = []
        for k, v in info.items():
            if k in ("wall_s", "levels", "note") or isinstance(v, (dict,)) and len(json.dumps(v)) > 160:
                continue
            sv = json.dumps(v) if not isinstance(v, str) else v
            if len(sv) > 120:
                sv = sv[:117] + "..."
            items.append("%s=%s" % (k, sv))
        note = info.get("note")
        out.append("* `%s`: %s%s" % (name, ", ".join(items), ("  - " + note) if note else ""))
    out.append("")
thorough = '''The thorough tier raises every bound (k+1 for the term enumerators, BFS depth 7, atoms^4, all 414 database instances, all
registry histories, all case/layout deviations on the k<=3 corpus, towers of depth 8-12, whole BMP); measured on 16 cores:
C01 24 min (1.4e7 filters), C02 32 min, C04 86 min (1.8e7 executions), C20 6 min, every other check under 5 min.

'''
s = s[:a] + "\n".join(out) + "\n" + thorough + s[b:]
open(p, 'w').write(s)
print("ok")
