#!/usr/bin/env python3
"""tools/seed_recheck.py [VERIF_SEED] [parallelism] [kind]   kind = seeded (default) | benign

Re-runs, for every change under seeded/ (benign/), the quick check(s) recorded for it against a scratch worktree with the patch applied.
The patch is applied to /repo HEAD when it still applies (plain or 3-way). A patch that conflicts with later repairs of /repo is
evaluated on the commit it was written for (meta.json repo_head) DIFFERENTIALLY: the check runs on that commit with and without the
patch, and only violation classes that the patch adds count (the old commit also shows the defects that were repaired since).
A change that applies to HEAD and is no longer reported is run through its own demo.py: if that passes, a later repair of /repo
neutralised the change (reported as NEUTRALISED), otherwise it is MISSED.
Output, one line per change:  <id> <check> base=<HEAD|commit> violations=<n> [new_classes=<k>]"""
import json, os, re, subprocess, sys, tempfile, shutil
from concurrent.futures import ThreadPoolExecutor

seed = sys.argv[1] if len(sys.argv) > 1 else "0"
par = int(sys.argv[2]) if len(sys.argv) > 2 else 4
kind = sys.argv[3] if len(sys.argv) > 3 else "seeded"
root = "/verif/" + kind


def sh(cmd, **kw):
    return subprocess.run(cmd, shell=True, capture_output=True, text=True, **kw)


def classes(out):
    return {l.strip().split(" finding=")[0] for l in out.splitlines() if l.strip().startswith("class=")}


def run_check(wt, prop):
    r = sh("VERIF_MAX_REPLAYS=400 VERIF_SEED=%s VERIF_REPO=%s /verif/check %s --tier quick" % (seed, wt, prop), timeout=7200)
    viol = sum(1 for l in r.stdout.splitlines() if l.startswith("VIOLATION"))
    err = any(l.startswith("CHECK-ERROR") for l in r.stdout.splitlines()) or r.returncode not in (0, 1)
    return viol, classes(r.stdout), err


_clean = {}


def clean_classes(base, prop):
    key = (base, prop)
    if key not in _clean:
        wt = tempfile.mkdtemp(prefix="rcb_")
        os.rmdir(wt)
        sh("git -C /repo worktree add -q --detach %s %s" % (wt, base))
        try:
            _clean[key] = run_check(wt, prop)
        finally:
            sh("git -C /repo worktree remove --force %s" % wt)
            shutil.rmtree(wt, ignore_errors=True)
    return _clean[key]


def one(sd):
    d = os.path.join(root, sd)
    meta = json.load(open(os.path.join(d, "meta.json")))
    props = [meta["property"]] if kind == "seeded" else list(meta.get("checks", {}))
    patch = os.path.join(d, "patch.diff")
    wt = tempfile.mkdtemp(prefix="rc_")
    os.rmdir(wt)
    sh("git -C /repo worktree add -q --detach %s HEAD" % wt)
    lines = []
    try:
        base = "HEAD"
        if sh("git -C %s apply %s" % (wt, patch)).returncode != 0:
            sh("git -C %s reset -q --hard" % wt)
            # (a 3-way merge can silently combine a property-preserving refactoring with a later repair into code that has lost the
            #  repair - e.g. two definitions of the same method - so benign changes are never merged, only applied or taken to their base)
            if kind == "benign" or sh("git -C %s apply --3way %s" % (wt, patch)).returncode != 0:
                sh("git -C %s reset -q --hard" % wt)
                base = meta.get("repo_head")
                sh("git -C %s checkout -q --detach %s" % (wt, base))
                orig = os.path.join(d, "patch.orig.diff")
                ok = sh("git -C %s apply %s" % (wt, patch)).returncode == 0
                if not ok and os.path.exists(orig):
                    ok = sh("git -C %s apply %s" % (wt, orig)).returncode == 0
                if not ok:
                    return ["%s PATCH-DOES-NOT-APPLY (HEAD nor %s)" % (sd, base)]
        for p in props:
            viol, cls, err = run_check(wt, p)
            if base == "HEAD":
                note = ""
                if kind == "seeded" and viol == 0:
                    # does the change still break anything on this HEAD? its own demonstration decides
                    demo = os.path.join(d, "demo.py")
                    os.makedirs(os.path.join(wt, "OUT"), exist_ok=True)
                    src = re.sub(r"/tmp/s[a-z]_C\d+", wt, open(demo).read())
                    open(os.path.join(wt, "OUT", "demo.py"), "w").write(src)
                    for extra in os.listdir(d):
                        if extra.endswith(".py") and extra != "demo.py":
                            shutil.copy(os.path.join(d, extra), os.path.join(wt, "OUT", extra))
                    r = sh("cd %s && PYTHONPATH=%s /venv/bin/python OUT/demo.py" % (wt, wt), timeout=900)
                    note = " NEUTRALISED (its demo passes on this HEAD: a later repair made the change harmless)" if r.returncode == 0 else " MISSED"
                lines.append("%s %s seed=%s base=HEAD violations=%d%s%s" % (sd, p, seed, viol, " CHECK-ERROR" if err else "", note))
            else:
                cv, ccls, cerr = clean_classes(base, p)
                new = cls - ccls
                lines.append("%s %s seed=%s base=%s violations=%d new_classes=%d%s" % (sd, p, seed, base, viol, len(new), " CHECK-ERROR" if err or cerr else ""))
    finally:
        sh("git -C /repo worktree remove --force %s" % wt)
        shutil.rmtree(wt, ignore_errors=True)
    return lines


with ThreadPoolExecutor(par) as ex:
    for lines in ex.map(one, [d for d in sorted(os.listdir(root)) if re.search(os.environ.get('RECHECK_ONLY', ''), d)]):
        for l in lines:
            print(l, flush=True)
