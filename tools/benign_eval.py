#!/usr/bin/env python3
"""tools/benign_eval.py <id> <property> <src-dir-with-OUT> [checks...]
Evaluates a property-PRESERVING change written by a sub-agent (refactoring, equivalent output spelling, ...)
and files it under /verif/benign/<id>/:
  1. fresh scratch worktree of /repo HEAD; demo.py passes on the clean tree
  2. patch applies; pinned test suite still gives 648 passed; demo.py still passes
  3. runs the quick checks of every property whose code the patch touches (plus the property's own) against
     the patched tree (VERIF_REPO); any VIOLATION is either a real breakage by the change or a false alarm
     of the machinery - to be decided by hand and recorded in meta.json "verdict".
"""
import json, os, re, shutil, subprocess, sys, tempfile, time

seed, prop, src = sys.argv[1:4]
checks = sys.argv[4:]
out = src if os.path.exists(os.path.join(src, "patch.diff")) else os.path.join(src, "OUT")
src = src.rstrip("/")
if out == src:                      # .../sc_Cnn/OUT/A  -> worktree root is two levels up
    src = os.path.dirname(os.path.dirname(src)) if os.path.basename(os.path.dirname(src)) == "OUT" else os.path.dirname(src)
dst = "/verif/benign/%s" % seed
os.makedirs(dst, exist_ok=True)
for f in ("patch.diff", "demo.py", "notes.md"):
    if os.path.exists(os.path.join(out, f)):
        shutil.copy(os.path.join(out, f), os.path.join(dst, f))
wt = tempfile.mkdtemp(prefix="seed_")
os.rmdir(wt)
def sh(cmd, **kw):
    return subprocess.run(cmd, shell=True, capture_output=True, text=True, **kw)
sh("git -C /repo worktree add -q --detach %s HEAD" % wt)
meta = {"seed": seed, "property": prop, "repo_head": sh("git -C /repo rev-parse --short HEAD").stdout.strip(), "ran": []}
try:
    demo = os.path.join(dst, "demo.py")
    src_demo = open(demo).read()
    # the demo was written for the agent's worktree path: make it location independent
    src_demo = src_demo.replace(src.rstrip("/"), wt)
    os.makedirs(os.path.join(wt, "OUT"), exist_ok=True)
    open(os.path.join(wt, "OUT", "demo.py"), "w").write(src_demo)
    for extra in os.listdir(out):       # helper modules the demo may import
        if extra.endswith(".py") and extra != "demo.py":
            shutil.copy(os.path.join(out, extra), os.path.join(wt, "OUT", extra))
    env = dict(os.environ, PYTHONPATH=wt, PYTHONDONTWRITEBYTECODE="1")
    r = sh("cd %s && /venv/bin/python OUT/demo.py" % wt, env=env, timeout=600)
    meta["demo_clean"] = {"rc": r.returncode, "tail": (r.stdout + r.stderr)[-300:]}
    if not checks:
        FILEMAP = [("grammar", "C05 C06 C10 C11 C13 C19 C20"), ("sql/", "C01 C07 C09 C12 C19"), ("django", "C02 C04 C08 C12 C15"),
                   ("sqlalchemy", "C03 C04 C08 C12 C15"), ("rewrite", "C14 C20"), ("visitor", "C16 C17 C14 C13"), ("roundtrip", "C13"),
                   ("typing", "C18 C09 C12"), ("ast", "C06 C16 C18 C13"), ("utils", "C17 C04"), ("exceptions", "C10 C11 C12"), ("shorthand", "C15")]
        touched = re.findall(r"^\+\+\+ b/(\S+)", open(os.path.join(dst, "patch.diff")).read(), re.M)
        cs = {prop}
        for t in touched:
            for key, val in FILEMAP:
                if key in t:
                    cs.update(val.split())
        checks = sorted(cs)
        meta["touched"] = touched
    r = sh("git -C %s apply %s" % (wt, os.path.join(dst, "patch.diff")))
    meta["patch_applies"] = r.returncode == 0
    if r.returncode != 0:
        meta["patch_error"] = r.stderr[-300:]
    else:
        r = sh("cd %s && /venv/bin/python -m pytest -q -p no:cacheprovider --continue-on-collection-errors 2>&1 | tail -1" % wt, env=env, timeout=900)
        meta["tests_with_patch"] = r.stdout.strip()
        r = sh("cd %s && /venv/bin/python OUT/demo.py" % wt, env=env, timeout=600)
        meta["demo_patched"] = {"rc": r.returncode, "tail": (r.stdout + r.stderr)[-300:]}
        det = {}
        for c in checks:
            t0 = time.time()
            r = sh("VERIF_REPO=%s /verif/check %s --tier %s" % (wt, c, os.environ.get("TIER", "quick")), timeout=3600)
            viol = [l for l in r.stdout.splitlines() if l.startswith("VIOLATION")]
            cls = [l.strip() for l in r.stdout.splitlines() if l.strip().startswith("class=")]
            det[c] = {"rc": r.returncode, "violations": len(viol), "classes": cls[:5], "wall_s": round(time.time() - t0, 1),
                      "error": r.stdout[-300:] if r.returncode not in (0, 1) else None}
        meta["checks"] = det
        meta["alarms"] = [c for c, d in det.items() if d["rc"] == 1 and d["violations"]]
    meta["confirmed"] = bool(meta.get("patch_applies") and meta["demo_clean"]["rc"] == 0 and meta.get("demo_patched", {}).get("rc") == 0
                             and "648 passed" in meta.get("tests_with_patch", ""))
finally:
    sh("git -C /repo worktree remove --force %s" % wt)
    shutil.rmtree(wt, ignore_errors=True)
notes = os.path.join(dst, "notes.md")
meta["needs_to_manifest"] = open(notes).read()[:1500] if os.path.exists(notes) else ""
meta["ran"] = ["git worktree add (scratch) + git apply patch.diff", "pinned pytest command", "demo.py clean / patched", "./check %s --tier quick with VERIF_REPO=<scratch>" % " ".join(checks)]
json.dump(meta, open(os.path.join(dst, "meta.json"), "w"), indent=1)
print(json.dumps({k: meta.get(k) for k in ("seed", "confirmed", "tests_with_patch", "alarms")}, indent=0))
for c, d in meta.get("checks", {}).items():
    print(" ", c, d["rc"], d["violations"], d["classes"][:2])
