#!/usr/bin/env python3
"""Rewrites the tables of DESIGN.md sections 4.1 and 4.2 from known_findings.json (the prose around them is kept)."""
import json, re
p = '/verif/DESIGN.md'
s = open(p).read()
d = json.load(open('/verif/known_findings.json'))


def esc(x):
    return x.replace("|", "\\|").replace("\n", " ")


rows = ["| Property | Commit | What failed |", "|---|---|---|"]
for f in d["fixed"]:
    m = re.match(r"fixed: property=(C\d+) (\w+) (.*)", f, re.S)
    rows.append("| %s | `%s` | %s |" % (m.group(1), m.group(2), esc(m.group(3))))
a = s.index("| Property | Commit | What failed |")
b = s.index("\n\n", a)
s = s[:a] + "\n".join(rows) + s[b:]
rows = ["| Property | Signature | What fails / why it is not repaired | Witness |", "|---|---|---|---|"]
for f in d["findings"]:
    rows.append("| %s | `%s` | %s | %s |" % (f["property"], f["signature"], esc(f["what"]), esc(f.get("witness", ""))))
a = s.index("| Property | Signature | What fails / why it is not repaired | Witness |")
b = s.index("\n\n", a)
s = s[:a] + "\n".join(rows) + s[b:]
open(p, 'w').write(s)
print(len(d["fixed"]), "fixed,", len(d["findings"]), "findings")
