#!/usr/bin/env python3
"""Regenerates MANIFEST.json from the table below; a property is claimed only
if checks/<id>.py exists."""
import json, os
V = os.path.dirname(os.path.dirname(os.path.abspath(__file__)))

P = {
 "C01": ("E-TERM typed terms x all-valuations SQLite table vs R-EVAL", "§3 C01",
         "bounded-exhaustive enumeration of typed filters (all terms with <=k constructor nodes), each translated by the real SQLite dialect and executed on a table holding every valuation of the referenced columns; selected ids compared with a three-valued reference evaluator",
         "R-EVAL/R-PRINT oracles, SQLite 3.40 as the engine, value domains of Appendix B"),
 "C02": ("E-TERM typed terms + all ordered pairs of boolean-valued operands + string concatenation through add x all-valuations table through Django shorthand vs R-EVAL", "§3 C02",
         "same enumeration as C01 over the Django-supported fragment, executed through apply_odata_query on a Django model backed by in-memory SQLite",
         "R-EVAL oracle, Django 6 + SQLite engine semantics"),
 "C03": ("E-TERM typed terms (incl. string concatenation through add) x 3 SQLAlchemy entry styles x keyword case vs R-EVAL; two mapped classes of the same name filtered alternately", "§3 C03",
         "same enumeration over the SQLAlchemy fragment, three entry styles and keyword-case variants; results must match R-EVAL and each other",
         "R-EVAL oracle, SQLAlchemy 2.0 + SQLite engine semantics"),
 "C04": ("relational filter grammar x all small database instances vs relational R-EVAL; second schema (to_field key, non-default manager name, reverse one-to-one) x all its instances vs per-filter oracle", "§3 C04",
         "exhaustive enumeration of path/lambda filters up to the stated bound x product instance and all small instances, Django and SQLAlchemy results compared with a relational reference evaluator",
         "relational R-EVAL, SQLite engine"),
 "C05": ("exhaustive operator trees + long same-operator runs + BFS over real LR configurations + full action-table coverage vs precedence-climbing reference", "§3 C05",
         "every labelled operator tree up to k operator nodes in 3 parenthesisations, every LR configuration up to a token depth, every LALR action-table entry driven by a witness; judged by an independent printer/parser that knows only the spec table",
         "R-PRINT and the reference parser encode the OData precedence table correctly"),
 "C06": ("exhaustive literal/identifier spellings from the ABNF x 8 contexts", "§3 C06",
         "boundary-alphabet products per literal kind, each in 8 expression contexts; the generator knows kind and value by construction",
         "the generator's independent value computation (datetime, uuid, timedelta)"),
 "C07": ("all payload strings up to length k over an adversarial alphabet x every string position x 3 dialects, plus every triple of payloads over three string slots, non-interference under an independent SQL lexer", "§3 C07",
         "exhaustive payload enumeration; SQL token stream outside the one string literal must be payload-independent; SQLite output executed against a canary",
         "R-SQL lexer models standard SQL string/identifier/comment lexing"),
 "C08": ("all ORM filter skeletons k<=2 x all pairs of adversarial literal assignments; compiled SQL must be identical; strings that look like regex flags, anchors, wildcards, keywords, numbers, dates or bind templates in every string position incl. matchesPattern", "§3 C08",
         "compiled SQL text/params of Django and SQLAlchemy compared across literal assignments",
         "Django/SQLAlchemy compilers report the SQL and parameters they would send"),
 "C09": ("typed terms with unique leaves x 3 dialects x alias, parsed by independent SQL parser, span preservation; SQLite dialect statements prepared in SQLite; duration literals read component by component; keyword literals in every letter case; repeated list members; non-ASCII field names; non-ASCII digit spellings; date-time literals read back component by component; table-alias spellings; every operand translated alone is one subtree of the translation of its context", "§3 C09",
         "exhaustive enumeration up to k constructor nodes; the emitted SQL must parse and mirror the filter tree",
         "R-SQL parser implements standard SQL precedence"),
 "C10": ("all atom strings up to k, BFS over LR configurations, constructor closure over abstract AST shapes, pumped cycles, all single edits", "§3 C10",
         "every explored input executed on the real lexer+parser; outcome class must be node or library exception; deterministic",
         "alpha abstraction soundness is checked at run time by the multi-witness rule"),
 "C11": ("exhaustive (name x arity x argument kind) matrix vs pinned OData function table", "§3 C11",
         "all built-in names and near misses x counts 0..5 x argument kinds; accept/reject and exception fields compared with a pinned table",
         "the pinned copy of the OData function table"),
 "C12": ("(node kind x position x backend) matrix incl. null / list / overflow operands and named parameters, refusal-then-reuse histories on one visitor, duration and date-time literal components, outcome classification", "§3 C12",
         "every two-level well-typed term through 7 backends; outcome must be complete output or library exception",
         "completeness is judged by leaf/operator presence in the output"),
 "C13": ("parser image up to k operator nodes + compound leaves (incl. qualified parameter names): parse(render(t)) == t", "§3 C13",
         "exhaustive trees as in C05 with string contents over a quote/percent alphabet; round trip through the real renderer and parser",
         "none beyond the enumeration bound"),
 "C14": ("trees x alias maps vs scoping-aware reference substitution; composition of rewrites; all schedules (preemption-bounded, switch before every node visit) of two visits on one shared rewriter", "§3 C14",
         "all trees <=2 operator nodes x all maps <=2 entries from a colliding key/target menu",
         "R-SUBST reference"),
 "C15": ("base-query menu x filters x instances (two schemas, one with a foreign key on a non-primary-key column); SQLAlchemy function-registry histories in fresh processes", "§3 C15",
         "exhaustive menu products executed on SQLite; registry histories of length <=3",
         "relational R-EVAL; SQLAlchemy registry introspection"),
 "C16": ("all ASTs with <=2 composite nodes x visitors; all (shipped visitor, base-class operation) pairs on one shared tree object; all pairs equality", "§3 C16",
         "direct AST construction over every node class and field kind; traversal order vs reference; mutation dumps",
         "R-SUBST traversal reference"),
 "C17": ("trees x variable names vs reference re-rooting", "§3 C17",
         "all trees <=2 operator nodes over path leaves rooted at colliding names x 4 variable names",
         "R-SUBST reference"),
 "C18": ("typed terms over all built-ins: inferred type in {None, actual}", "§3 C18",
         "exhaustive typed enumeration k<=3; generator knows each term's type",
         "the generator's type signatures follow the OData function table"),
 "C19": ("corpus x all single/double whitespace and keyword-case deviations", "§3 C19",
         "exhaustive layout/case deviations; AST equality by value and backend agreement",
         "none beyond the corpus and deviation bounds"),
 "C20": ("BFS over parse-call histories on shared instances; all token-level schedules of concurrent parses; every placement of the deferred finalisation of a failed parse's token generator; hash seeds x import orders", "§3 C20",
         "history BFS with canonical instance-state dedup, greenlet scheduler with preemption bound, fresh subprocess digests",
         "greenlet switch points at token pulls are the only interleaving points of the pure-python parser"),
}

checks, na = [], []
for pid in sorted(P):
    tech, ref, text, note = P[pid]
    if os.path.exists(os.path.join(V, "checks", pid + ".py")):
        checks.append({
            "property_id": pid,
            "quick_cmd": "./check %s --tier quick" % pid,
            "thorough_cmd": "./check %s --tier thorough" % pid,
            "evidence_file": "/verif/evidence/%s.json" % pid,
            "replay_cmd_template": "./check %s --replay {path}" % pid,
            "engine": "vt",
            "level_claimed": {"category": "model_checking", "text": text, "design_ref": ref},
            "level_note": note,
            "technique": "bounded-exhaustive explicit-state exploration of the real code: " + tech,
        })
    else:
        na.append({"property_id": pid, "reason": "check not built yet (work in progress; design in DESIGN.md %s)" % ref})

m = {
 "version": 1,
 "setup_cmd": "true",
 "hooks": {"guard": "ODATA_QUERY_VERIF", "enable": "no source hooks: all observation points are reachable from outside; ./check sets ODATA_QUERY_VERIF=1 for uniformity",
           "baseline_off_cmd": "cd /repo && /venv/bin/python -m pytest -ra -q -p no:cacheprovider --timeout=900 --continue-on-collection-errors",
           "source_commits": [], "add_only": True},
 "engines": [{"name": "vt", "path": "/verif/vt", "serves_properties": [c["property_id"] for c in checks],
              "kind_free_text": "hand-written bounded-exhaustive explorers (E-TERM term enumerator, E-LR LR-configuration BFS, E-CLOSE constructor closure, E-HIST history/schedule explorer) driving the real library, with independent reference oracles"}],
 "checks": checks,
 "not_applicable": na,
 "notes": "All checks run with /venv/bin/python against /repo's working tree (VERIF_REPO overrides for mutant runs). Known findings: /verif/known_findings.json.",
}
json.dump(m, open(os.path.join(V, "MANIFEST.json"), "w"), indent=1)
print("claimed", len(checks), "n/a", len(na))
